(* C15 — property theorems only.  Every theorem is closed by [exact] of a lemma proved
   in Proofs.v and followed by [Print Assumptions].

   [vh] (the hash of every virtual-node string) and [R] (h.replicas) are universally
   quantified: the theorems below hold for EVERY hash function — murmur3, a custom
   Func, colliding or not — every history of Add / AddWithReplicas / AddWithWeight /
   Remove, every replica count / weight, and every lookup key (given by its two hashes).

   No hypothesis on the hash:
     ring_invariant, get_member_only, removed_never_returned, added_node_is_served.
   Under [collision_free_on vh R U] — distinct (node, index) pairs of the universe U of
   nodes the histories mention hash differently (the Prop form of the boolean
   Check.collision_free evaluated on every generated universe):
     history_independent, get_is_owner_of_successor, op_moves_only_to_or_from_its_node,
     add_moves_only_to_new, remove_moves_only_from_removed, readd_moves_only_to_or_from_it.
   Without the hypothesis history independence is false for the code as it is
   (known finding collision-bucket-insertion-order): Pinned.bucket_order_refuted. *)
From Coq Require Import List ZArith Bool Sorted Lia.
From GZ Require Import C15.Model C15.Cluster C15.Conc C15.Check C15.Proofs C15.ProofsB C15.ProofsC C15.ProofsD C15.ProofsE C15.ProofsF C15.ProofsG C15.Pinned.
Import ListNotations.
Open Scope Z_scope.

(* After every history: keys are sorted; there is exactly one key per ring entry (so keys
   is empty iff the ring is); no bucket is empty; every ring entry belongs to a node of
   the node set and sits at one of that node's R virtual-node hashes. *)
Theorem ring_invariant : forall vh R ops, Inv vh R (run vh R ops).
Proof. exact run_inv. Qed.
Print Assumptions ring_invariant.

(* Get never fails; it answers none iff the ring is empty; otherwise it returns a value
   stored in the ring whose node is in the node set. *)
Theorem get_member_only : forall vh R ops hp ihp,
  let s := run vh R ops in
  get s hp ihp <> GPanic /\
  (get s hp ihp = GNone <-> ring s = []) /\
  (forall x, get s hp ihp = GSome x ->
     In (nrepr x) (nodes s) /\ exists h, In h (keys s) /\ In x (bucket h (ring s))).
Proof. exact get_member_only_l. Qed.
Print Assumptions get_member_only.

(* After Remove(x), whatever happened before and whatever happens afterwards to other
   nodes, no key is ever answered with a value of that node — until it is added again. *)
Theorem removed_never_returned : forall vh R pre x post hp ihp y,
  forallb (fun o => negb (is_add o && (nrepr (op_node o) =? nrepr x))) post = true ->
  nrepr y = nrepr x ->
  get (run vh R (pre ++ ORemove x :: post)) hp ihp <> GSome y.
Proof. exact removed_never_returned_l. Qed.
Print Assumptions removed_never_returned.

(* Conversely the ring is not empty (Get answers every key) right after a node was added
   with at least one replica. *)
Theorem added_node_is_served : forall vh R pre x r hp ihp,
  0 < r -> 0 < R ->
  get (step vh R (run vh R pre) (OAddR x r)) hp ihp <> GNone.
Proof. exact added_is_served_l. Qed.
Print Assumptions added_node_is_served.

(* ======== under collision-freeness on the universe U ================================= *)

(* The ring (keys, every bucket) and every Get depend only on the final map
   node |-> (effective replicas, value) — [amap_run], the very map Check.prop_ok maintains —
   not on the order or number of adds and removes that produced it. *)
Theorem history_independent : forall vh R U, collision_free_on vh R U -> forall ops1 ops2,
  ops_in_U U ops1 -> ops_in_U U ops2 ->
  (forall n, alookup n (amap_run R ops1) = alookup n (amap_run R ops2)) ->
  keys (run vh R ops1) = keys (run vh R ops2) /\
  (forall h, bucket h (ring (run vh R ops1)) = bucket h (ring (run vh R ops2))) /\
  forall hp ihp, get (run vh R ops1) hp ihp = get (run vh R ops2) hp ihp.
Proof. exact history_independent_l. Qed.
Print Assumptions history_independent.

(* ... namely: Get answers x iff x is the value of the node owning the first live
   virtual-node hash >= the key's hash (wrapping to the least), and none iff no node has a
   live virtual node.  [Live m x k]: node (nrepr x) is in m with value (nval x) and
   k = vh (nrepr x) i for some i < its replica count. *)
Theorem get_is_owner_of_successor : forall vh R U, collision_free_on vh R U -> forall ops hp ihp,
  ops_in_U U ops ->
  let m := amap_run R ops in
  (forall x, get (run vh R ops) hp ihp = GSome x <->
             exists k, Live vh m x k /\ is_succ (live_hash vh m) hp k) /\
  (get (run vh R ops) hp ihp = GNone <-> forall h, ~ live_hash vh m h).
Proof. exact get_is_successor_owner_l. Qed.
Print Assumptions get_is_owner_of_successor.

(* Any operation on node n (add, re-add with another count or weight, remove), after any
   history: a key's answer is unchanged, or it was n's, or it becomes n's. *)
Theorem op_moves_only_to_or_from_its_node : forall vh R U, collision_free_on vh R U -> forall ops o hp ihp,
  ops_in_U U ops ->
  let s := run vh R ops in
  get (step vh R s o) hp ihp = get s hp ihp \/
  (exists y, get s hp ihp = GSome y /\ nrepr y = nrepr (op_node o)) \/
  (exists x', get (step vh R s o) hp ihp = GSome x' /\ nrepr x' = nrepr (op_node o)).
Proof. exact op_moves_only_its_node_l. Qed.
Print Assumptions op_moves_only_to_or_from_its_node.

(* Adding a node that is not in the ring moves keys only to it. *)
Theorem add_moves_only_to_new : forall vh R U, collision_free_on vh R U -> forall ops o hp ihp,
  ops_in_U U ops -> is_add o = true ->
  let s := run vh R ops in
  ~ In (nrepr (op_node o)) (nodes s) ->
  get (step vh R s o) hp ihp = get s hp ihp \/ get (step vh R s o) hp ihp = GSome (op_node o).
Proof. exact add_moves_only_to_new_l. Qed.
Print Assumptions add_moves_only_to_new.

(* Removing a node changes the answer only of keys that were answered with it. *)
Theorem remove_moves_only_from_removed : forall vh R U, collision_free_on vh R U -> forall ops x hp ihp y,
  ops_in_U U ops ->
  let s := run vh R ops in
  get s hp ihp = GSome y -> nrepr y <> nrepr x ->
  get (step vh R s (ORemove x)) hp ihp = GSome y.
Proof. exact remove_moves_only_from_removed_l. Qed.
Print Assumptions remove_moves_only_from_removed.

(* Re-adding a node (other replica count, weight, or value) moves keys only to or from it. *)
Theorem readd_moves_only_to_or_from_it : forall vh R U, collision_free_on vh R U -> forall ops o hp ihp,
  ops_in_U U ops -> is_add o = true ->
  let s := run vh R ops in
  get (step vh R s o) hp ihp = get s hp ihp \/
  (exists y, get s hp ihp = GSome y /\ nrepr y = nrepr (op_node o)) \/
  get (step vh R s o) hp ihp = GSome (op_node o).
Proof. exact readd_moves_only_to_or_from_it_l. Qed.
Print Assumptions readd_moves_only_to_or_from_it.

(* ---- non-vacuity ------------------------------------------------------------------ *)
Definition ex_hash (n i : Z) : Z := (n * 7919 + i * 104729) mod 1000003.
Definition ex_ops : list op :=
  [OAdd (mkNode 1 0); OAddW (mkNode 2 1) 50; OAddR (mkNode 3 2) 7; ORemove (mkNode 1 0); OAddR (mkNode 2 3) 0].

(* three nodes, one removed, one re-added with zero replicas: node 3 serves everything *)
Example ex_state :
  let s := run ex_hash 100 ex_ops in
  length (keys s) = 7%nat /\ nodes s = [3; 2] /\ get s 12345 1 = GSome (mkNode 3 2).
Proof. vm_compute. auto. Qed.

(* the hypotheses of removed_never_returned are satisfiable with a non-empty tail *)
Example ex_removed_hyp :
  forallb (fun o => negb (is_add o && (nrepr (op_node o) =? 1)))
          [OAddR (mkNode 2 3) 0; OAdd (mkNode 3 2)] = true.
Proof. reflexivity. Qed.

(* a small-range hash (everything collides): the theorems still apply *)
Example ex_colliding :
  let s := run (fun n i => (n + i) mod 3) 100 [OAdd (mkNode 1 0); OAdd (mkNode 2 1); ORemove (mkNode 1 0)] in
  length (keys s) = 100%nat /\ length (ring s) = 3%nat /\ get s 2 5 = GSome (mkNode 2 1).
Proof. vm_compute. auto. Qed.

(* The boolean that Check.prop_ok evaluates on the hash table of every generated case
   ([collision_free t && table_ok t R]) implies the hypothesis of the theorems above for the
   hash function the model is run with on that case, [vh_of t], on the case's universe:
   "checked per case" = "the hypothesis of the theorem holds for this case". *)
Theorem collision_free_spec : forall t R,
  collision_free t = true -> table_ok t R = true ->
  collision_free_on (vh_of t) R (fun n => In n (map fst t)).
Proof. exact collision_free_spec_l. Qed.
Print Assumptions collision_free_spec.

Example table_example :
  collision_free [(0, [5; 9]); (1, [7; 3])] = true /\ table_ok [(0, [5; 9]); (1, [7; 3])] 2 = true.
Proof. vm_compute. auto. Qed.

(* ---- non-vacuity of the collision-free theorems ----------------------------------------- *)
(* a hash that is injective on (node, index < 100) for every node *)
Definition cf_hash (n i : Z) : Z := n * 100 + i.
Example cf_hash_collision_free : collision_free_on cf_hash 100 (fun _ => True).
Proof. unfold collision_free_on, cf_hash. intros. lia. Qed.

(* two histories with the same final node map {2 |-> 50 replicas, 3 |-> 7 replicas} *)
Definition cf_ops1 : list op :=
  [OAdd (mkNode 1 0); OAddW (mkNode 2 1) 50; OAddR (mkNode 3 2) 7; ORemove (mkNode 1 0)].
Definition cf_ops2 : list op := [OAddR (mkNode 3 2) 7; OAddR (mkNode 2 9) 3; OAddR (mkNode 2 1) 50].
Example cf_same_map :
  ops_in_U (fun _ => True) cf_ops1 /\ ops_in_U (fun _ => True) cf_ops2 /\
  forall n, alookup n (amap_run 100 cf_ops1) = alookup n (amap_run 100 cf_ops2).
Proof.
  split; [repeat constructor|]. split; [repeat constructor|].
  intros n. vm_compute amap_run. cbn [alookup].
  destruct (2 =? n) eqn:E2; destruct (3 =? n) eqn:E3; try reflexivity.
  apply Z.eqb_eq in E2, E3. lia.
Qed.
(* keys 200..249 belong to node 2, 300..306 to node 3: key 250 is served by node 3, key 310
   wraps to node 2 — in both histories *)
Example cf_answers :
  get (run cf_hash 100 cf_ops1) 250 0 = GSome (mkNode 3 2) /\
  get (run cf_hash 100 cf_ops2) 250 0 = GSome (mkNode 3 2) /\
  get (run cf_hash 100 cf_ops1) 310 0 = GSome (mkNode 2 1).
Proof. vm_compute. auto. Qed.
(* adding the new node 4 (keys 400..499) takes key 310 from node 2, and nothing else moves *)
Example cf_add_moves :
  ~ In 4 (nodes (run cf_hash 100 cf_ops1)) /\
  get (step cf_hash 100 (run cf_hash 100 cf_ops1) (OAdd (mkNode 4 3))) 310 0 = GSome (mkNode 4 3) /\
  get (step cf_hash 100 (run cf_hash 100 cf_ops1) (OAdd (mkNode 4 3))) 250 0 = GSome (mkNode 3 2).
Proof. vm_compute. split; [|auto]. intros [H|[H|[]]]; discriminate. Qed.

(* ======== round 3 ========================================================================== *)

(* ---- Get as a function of the node map, for EVERY hash function (no collision-freeness) -----
   Get never panics; it answers none iff the node map has no live virtual node; otherwise it
   answers a value of a node of the map that owns the cyclic successor slot of the key's hash.
   (With collisions several nodes may own that slot — which of them answers is the known finding
   collision-bucket-insertion-order; that it is ONE OF THEM holds always.) *)
Theorem get_is_an_owner_of_successor_any_hash : forall vh R ops hp ihp,
  let m := amap_run R ops in
  (forall x, get (run vh R ops) hp ihp = GSome x ->
             exists k, Live vh m x k /\ is_succ (live_hash vh m) hp k) /\
  (get (run vh R ops) hp ihp = GNone <-> forall h, ~ live_hash vh m h) /\
  get (run vh R ops) hp ihp <> GPanic.
Proof. exact get_owner_any_hash_l. Qed.
Print Assumptions get_is_an_owner_of_successor_any_hash.

(* ---- Check.prop_ok is not an oracle: what its clauses mean ------------------------------------
   [owner_ok (vnodes t m) hp g] — evaluated on every observed answer g, on every universe — holds
   iff g is none and the map has no live virtual node, or g is the value of a node owning the
   successor slot: the statement of the theorem above, with the hash the harness measured. *)
Theorem owner_ok_means_owner_of_successor : forall t R ops hp g,
  table_ok t R = true -> 0 <= R -> ops_in_U (fun n => In n (map fst t)) ops ->
  let m := amap_run R ops in
  owner_ok (vnodes t m) hp g = true <->
  ((forall h, ~ live_hash (vh_of t) m h) /\ g = -1) \/
  (exists x k, g = nval x /\ Live (vh_of t) m x k /\ is_succ (live_hash (vh_of t) m) hp k).
Proof. exact owner_ok_run_iff_l. Qed.
Print Assumptions owner_ok_means_owner_of_successor.

(* On a collision-free table the clause determines the answer: it is [spec_get] (the third clause
   of step_ok is implied by the second; it is evaluated anyway). *)
Theorem owner_ok_determines_answer : forall t R ops hp g,
  table_ok t R = true -> 0 <= R -> collision_free t = true ->
  ops_in_U (fun n => In n (map fst t)) ops ->
  owner_ok (vnodes t (amap_run R ops)) hp g = true -> g = spec_get_vs (vnodes t (amap_run R ops)) hp.
Proof. exact owner_ok_determines_l. Qed.
Print Assumptions owner_ok_determines_answer.

(* The model's own answers pass [step_ok] (membership, owner of the successor slot, equality with
   spec_get when the table is collision-free) after every history, for every hash: the check can
   fail on an implementation only where the implementation differs from the model or the model
   is wrong — never by itself. *)
Theorem model_answers_pass_step_ok : forall t R ops ps,
  table_ok t R = true -> 0 <= R -> ops_in_U (fun n => In n (map fst t)) ops ->
  step_ok t (collision_free t && table_ok t R) ps (amap_run R ops)
          (gets_of t (run (vh_of t) R ops) ps) = true.
Proof. exact step_ok_model_l. Qed.
Print Assumptions model_answers_pass_step_ok.

(* ---- the users of the ring (Cluster.v: cacheCluster, clusterStore, the cleaner's retries) -----
   For every set of instances (any ring states), every key set, every retry-delay table and EVERY
   script of operations, multi-key Dels, injected faults and ticks: each command that reaches a
   server for key k on behalf of instance i reaches the server dispatcher.Get(k) of instance i
   returns — immediately or as a delayed retry.  [owner] is Get, as a server index. *)
Theorem cluster_dispatch_faithful : forall insts keys delays ops r i k s,
  In r (crun insts keys delays cinit ops) -> In (i, k, s) (snd r) -> owner insts keys i k = Some s.
Proof. exact cluster_dispatch_l. Qed.
Print Assumptions cluster_dispatch_faithful.

(* ... and nothing is left out: a Del reaches the owner of each of its keys (each key on its own
   node), whatever the state of faults and pending retries; a single-key operation touches exactly
   its key's owner. *)
Theorem cluster_del_reaches_every_owner : forall insts keys delays st i ks k s,
  In k ks -> owner insts keys i k = Some s ->
  In (i, k, s) (snd (cstep insts keys delays st (CDel i ks))).
Proof. exact del_reaches_l. Qed.
Print Assumptions cluster_del_reaches_every_owner.

Theorem cluster_single_touches_its_owner : forall insts keys delays st i k s,
  owner insts keys i k = Some s -> snd (cstep insts keys delays st (CSingle i k)) = [(i, k, s)].
Proof. exact single_touches_l. Qed.
Print Assumptions cluster_single_touches_its_owner.

(* With rings built by the constructors (any configuration history [snd c] per instance, any hash):
   every touched server is a member of that instance's ring and owns the cyclic successor slot of
   the key in that instance's node map. *)
Theorem cluster_touches_member_owning_successor : forall vh R (cfg : list (bool * list op)) keys delays ops r i k s,
  let insts := map (fun c => mkInst (fst c) (run vh R (snd c))) cfg in
  In r (crun insts keys delays cinit ops) -> In (i, k, s) (snd r) ->
  exists ic hp ihp x,
    nth_error cfg (Z.to_nat i) = Some ic /\ nth_error keys (Z.to_nat k) = Some (hp, ihp) /\
    get (run vh R (snd ic)) hp ihp = GSome x /\ nval x = s /\
    In (nrepr x) (nodes (run vh R (snd ic))) /\
    exists kk, Live vh (amap_run R (snd ic)) x kk /\ is_succ (live_hash vh (amap_run R (snd ic))) hp kk.
Proof. exact cluster_touch_member_l. Qed.
Print Assumptions cluster_touches_member_owning_successor.

(* ---- non-vacuity: two clusters over the same two servers, configured in opposite orders ------ *)
Definition ex_cfg : list (bool * list op) :=
  [(true, [OAddW (mkNode 1 0) 100; OAddW (mkNode 2 1) 50]);
   (false, [OAddW (mkNode 2 1) 50; OAddW (mkNode 1 0) 100])].
Definition ex_insts : list inst := map (fun c => mkInst (fst c) (run cf_hash 100 (snd c))) ex_cfg.
Definition ex_keys : list (Z * Z) := [(120, 0); (220, 0); (260, 0); (199, 0)].
(* server 1 is down for a 3-key Del of the cache cluster and a 2-key Del of the kv store; the cache
   node retries its keys at the next tick (still down: again 5 ticks later), the store does not *)
Definition ex_script : list cop :=
  [CSingle 0 0; CFault 1 true; CDel 0 [0; 1; 2]; CDel 1 [1; 3]; CTick; CFault 1 false;
   CTick; CTick; CTick; CTick; CTick].
Example ex_cluster_run :
  map snd (crun ex_insts ex_keys [1; 5; 60] cinit ex_script) =
  [ [(0, 0, 0)]; [];
    [(0, 0, 0); (0, 2, 0); (0, 1, 1)];      (* one DEL per node; key 2 (hash 260) wraps: node 2 holds 200..249 only *)
    [(1, 1, 1); (1, 3, 0)];
    [(0, 1, 1)]; []; []; []; []; []; [(0, 1, 1)] ].
Proof. vm_compute. reflexivity. Qed.
(* both instances have the same node map, hence (collision-free hash) the same owners *)
Example ex_same_owners :
  forall k, In k [0; 1; 2; 3] -> owner ex_insts ex_keys 0 k = owner ex_insts ex_keys 1 k.
Proof. intros k H. repeat (destruct H as [<-|H]; [vm_compute; reflexivity|]). destruct H. Qed.

(* owner_ok on a colliding table (two nodes share slot 7): both owners pass, a third value does not *)
Example ex_owner_ok_collision :
  let t := [(0, [7; 20]); (1, [7; 30]); (2, [15; 40])] in
  let m := amap_run 2 [OAdd (mkNode 0 10); OAdd (mkNode 1 11); OAdd (mkNode 2 12)] in
  owner_ok (vnodes t m) 5 10 = true /\ owner_ok (vnodes t m) 5 11 = true /\ owner_ok (vnodes t m) 5 12 = false /\
  owner_ok (vnodes t m) 41 10 = true /\ owner_ok (vnodes t m) 41 (-1) = false.
Proof. vm_compute. auto. Qed.

(* ---- history independence, stronger: only the nodes WITH replicas matter ------------------------
   [member_lookup n m]: the entry (replicas, value) of node n if it has at least one replica.  Two
   histories whose node maps agree on these — they may differ in zero-replica entries
   (AddWithWeight(node, 0)), in everything that was removed, and in all orders — have the same keys,
   the same buckets and the same Get for every key. *)
Theorem history_independent_members : forall vh R U, collision_free_on vh R U -> forall ops1 ops2,
  ops_in_U U ops1 -> ops_in_U U ops2 ->
  (forall n, member_lookup n (amap_run R ops1) = member_lookup n (amap_run R ops2)) ->
  keys (run vh R ops1) = keys (run vh R ops2) /\
  (forall h, bucket h (ring (run vh R ops1)) = bucket h (ring (run vh R ops2))) /\
  forall hp ihp, get (run vh R ops1) hp ihp = get (run vh R ops2) hp ihp.
Proof. exact history_independent_members_l. Qed.
Print Assumptions history_independent_members.

(* a zero-weight node in one history only: the maps differ ([alookup 5]), the members do not *)
Example members_example :
  let o1 := [OAdd (mkNode 2 1); OAddW (mkNode 5 4) 0; OAddR (mkNode 3 2) 7] in
  let o2 := [OAddR (mkNode 3 2) 7; OAdd (mkNode 2 1)] in
  alookup 5 (amap_run 100 o1) <> alookup 5 (amap_run 100 o2) /\
  (forall n, In n [2; 3; 5; 9] -> member_lookup n (amap_run 100 o1) = member_lookup n (amap_run 100 o2)) /\
  get (run cf_hash 100 o1) 250 0 = get (run cf_hash 100 o2) 250 0.
Proof.
  split; [vm_compute; discriminate|]. split; [|vm_compute; reflexivity].
  intros n H. repeat (destruct H as [<-|H]; [vm_compute; reflexivity|]). destruct H.
Qed.

(* ---- agrees => prop_ok ----------------------------------------------------------------------------
   For every ring history case on a well-formed table (one row of R hashes per repr, the operations
   mention reprs of the table) that is not one of the strict exhibits of the known finding — and for
   the cluster cases whose rows observe the final ring: if the implementation answered what the model
   answers ([agrees]), then EVERY clause of the property check holds ([prop_ok]): membership, owner
   of the successor slot, and on a collision-free table equality with spec_get, "a key moves only to
   or from the operation's node" between consecutive observations, and "same canonical node map as
   at an earlier step => same answers".  The boolean property check is a consequence of the theorems
   above applied to the model; it can alarm only where implementation and model differ. *)
Theorem agrees_implies_prop_ok : forall c,
  cstrict c = false -> table_ok (cvh c) (cR c) = true -> 0 <= cR c ->
  ops_in_U (fun n => In n (map fst (cvh c))) (cops c) ->
  agrees (RingCase c) = true -> prop_ok (RingCase c) = true.
Proof. exact agrees_implies_prop_ok_l. Qed.
Print Assumptions agrees_implies_prop_ok.

(* the hypotheses are met by a concrete collision-free case with a removal and a re-add, and by a
   colliding one (slot 7 shared) *)
Definition ex_case (t : list (Z * list Z)) : rcase :=
  let ops := [OAdd (mkNode 0 0); OAddR (mkNode 1 1) 1; ORemove (mkNode 0 0); OAddW (mkNode 0 2) 50] in
  let ps := [(5, 0); (8, 1); (31, 2)] in
  mkCase 2 t ops ps (model_gets t 2 init ops ps) false false.
Example ex_case_hyps :
  forall t, In t [[(0, [7; 20]); (1, [9; 30])]; [(0, [7; 20]); (1, [7; 30])]] ->
  table_ok t 2 = true /\ agrees (RingCase (ex_case t)) = true /\ prop_ok (RingCase (ex_case t)) = true.
Proof. intros t [<-|[<-|[]]]; vm_compute; auto. Qed.
Example ex_case_cf :
  collision_free [(0, [7; 20]); (1, [9; 30])] = true /\ collision_free [(0, [7; 20]); (1, [7; 30])] = false.
Proof. vm_compute. auto. Qed.

(* ======== the ring as a CONCURRENT object (Conc.v) ==============================================
   ConsistentHash is guarded by an RWMutex, but AddWithReplicas is two critical sections:
   [h.Remove(node)] and then [lock; insert; sort; unlock]; calls of other goroutines run in between.
   The atomic actions are [ARemove n] and [AInsert x r]; [acts_of] gives the actions of a call.  The
   theorems below hold for EVERY sequence of actions — in particular ([lts_state]) for every set of
   threads (scripts of calls) and every schedule, finished or not. *)

(* a sequential history is the sequence of its calls' actions *)
Theorem run_is_action_run : forall vh R ops, run vh R ops = arun vh R (flat_map (acts_of R) ops).
Proof. exact run_as_actions. Qed.
Print Assumptions run_is_action_run.

(* the state reached by threads under a schedule is the state of the action trace it executes *)
Theorem schedule_is_action_run : forall vh R threads sched,
  snd (lts_run vh R threads sched) = arun vh R (lts_trace (map (flat_map (acts_of R)) threads) sched).
Proof. exact lts_state. Qed.
Print Assumptions schedule_is_action_run.

(* for all threads and all schedules: the ring invariant (sorted keys, one key per ring entry, no
   empty bucket, every ring entry belongs to a node of the node set — the ring contains only virtual
   nodes of members), Get never panics, none iff the ring is empty, otherwise a member *)
Theorem concurrent_ring_invariant : forall vh R threads sched hp ihp,
  let s := snd (lts_run vh R threads sched) in
  Inv vh R s /\
  get s hp ihp <> GPanic /\
  (get s hp ihp = GNone <-> ring s = []) /\
  (forall x, get s hp ihp = GSome x ->
     In (nrepr x) (nodes s) /\ exists h, In h (keys s) /\ In x (bucket h (ring s))).
Proof. exact lts_inv_get_l. Qed.
Print Assumptions concurrent_ring_invariant.

(* a removed node is never returned, whatever raced before: if in the executed trace the critical
   section of a Remove of n is followed by no insertion of n (when all threads have finished: the last
   completed membership call of n is a Remove), no key is answered with a value of n — for any layers
   the racing updates left in the ring before (Remove walks all h.replicas indices and drops every
   entry of n's repr in each slot) *)
Theorem concurrent_removed_never_returned : forall vh R pre n post hp ihp y,
  forallb (fun a => negb (inserts n a)) post = true -> nrepr y = n ->
  get (arun vh R (pre ++ ARemove n :: post)) hp ihp <> GSome y.
Proof. exact removed_never_returned_acts_l. Qed.
Print Assumptions concurrent_removed_never_returned.

Theorem remove_cleans_all_layers : forall vh R acts n h x,
  In x (bucket h (ring (arun vh R (acts ++ [ARemove n])))) -> nrepr x <> n.
Proof. exact remove_action_cleans. Qed.
Print Assumptions remove_cleans_all_layers.

(* Get after any trace, for every hash: the mapping depends only on the LAYERS present — per node,
   the (replicas, value) of every insertion since its last Remove ([amap_acts]; one layer per node
   in sequential histories): none iff no layer has a live virtual node, otherwise a value of a layer
   owning the cyclic successor slot of the key's hash *)
Theorem concurrent_get_owner_of_successor : forall vh R acts hp ihp,
  let m := amap_acts R acts in
  (forall x, get (arun vh R acts) hp ihp = GSome x ->
             exists k, LiveL vh m x k /\ is_succ (live_hashL vh m) hp k) /\
  (get (arun vh R acts) hp ihp = GNone <-> forall h, ~ live_hashL vh m h) /\
  get (arun vh R acts) hp ihp <> GPanic.
Proof. exact arun_get_owner_l. Qed.
Print Assumptions concurrent_get_owner_of_successor.

(* non-vacuity: two racing weight updates of node 1 (A: 50 replicas, B: 100) and a Remove, under the
   schedule A B B A C: the mixed state holds 150 entries of node 1; after the Remove none *)
Definition race_threads : list (list op) :=
  [[OAddW (mkNode 1 0) 50]; [OAddW (mkNode 1 0) 100]; [ORemove (mkNode 1 0)]].
Example race_example :
  lts_trace (map (flat_map (acts_of 100)) race_threads) [0; 1; 1; 0; 2]%nat =
    [ARemove 1; ARemove 1; AInsert (mkNode 1 0) 100; AInsert (mkNode 1 0) 50; ARemove 1] /\
  length (keys (snd (lts_run cf_hash 100 race_threads [0; 1; 1; 0]%nat))) = 150%nat /\
  amap_acts 100 [ARemove 1; ARemove 1; AInsert (mkNode 1 0) 100; AInsert (mkNode 1 0) 50] = [(1, (100, 0)); (1, (50, 0))] /\
  ring (snd (lts_run cf_hash 100 race_threads [0; 1; 1; 0; 2]%nat)) = [] /\
  finished (lts_run cf_hash 100 race_threads [0; 1; 1; 0; 2]%nat) = true.
Proof. vm_compute. auto. Qed.

(* ---- Get among the membership actions: linearisability --------------------------------------------
   At HEAD the whole body of Get — slot lookup, both evaluations of the key, member pick — is under the
   read lock: against the write-locked critical sections it is one atomic step ([CGet]).  For EVERY
   interleaving of lookups and membership actions, every answer of every lookup is Get's answer in a
   membership state the execution goes through ([acts] is a prefix of the membership trace: the state
   at the lookup's own step, inside the call).  Hence it is never a panic, never nil-with-ok, never a
   value outside every membership state: its node is in the node set of that state, it sits in a bucket
   of an existing key, and it owns the cyclic successor slot among the layers present then. *)
Theorem concurrent_get_linearizable : forall vh R l g, In g (snd (grun vh R init l)) ->
  exists acts rest hp ihp,
    membership l = acts ++ rest /\ g = get (arun vh R acts) hp ihp /\ g <> GPanic /\
    (g = GNone <-> ring (arun vh R acts) = []) /\
    forall x, g = GSome x ->
      In (nrepr x) (nodes (arun vh R acts)) /\
      (exists h, In h (keys (arun vh R acts)) /\ In x (bucket h (ring (arun vh R acts)))) /\
      exists k, LiveL vh (amap_acts R acts) x k /\ is_succ (live_hashL vh (amap_acts R acts)) hp k.
Proof. exact get_linearizable_l. Qed.
Print Assumptions concurrent_get_linearizable.

(* a lookup before and one after a Remove on a shared slot *)
Example lookup_example :
  snd (grun three_way_hash 3 init
         (map CAct c157_pre ++ [CGet 5 1; CAct (ARemove 2); CGet 5 1])) = [GSome (mkNode 2 2); GSome (mkNode 1 1)].
Proof. vm_compute. reflexivity. Qed.

(* ---- the final state of any interleaving --------------------------------------------------------
   The insertion of AddWithReplicas — hashing the virtual nodes, appending the keys, the ring slots,
   the sort — is ONE write-locked critical section at HEAD ([AInsert]); whatever other calls are started
   while it runs, they wait.  After ANY sequence of actions the ring is exactly the image of the
   membership: a value sits in slot h iff a layer of its node has a live virtual node hashing to h,
   keys holds one key per ring entry and a hash is a key iff it is live — so Get is total on a
   non-empty ring and (concurrent_get_owner_of_successor) answers the owner of the successor slot. *)
Theorem concurrent_ring_is_image_of_membership : forall vh R acts,
  let s := arun vh R acts in
  (forall h x, In x (bucket h (ring s)) <-> LiveL vh (amap_acts R acts) x h) /\
  (forall h, cnt (keys s) h = length (bucket h (ring s))) /\
  (forall h, In h (keys s) <-> live_hashL vh (amap_acts R acts) h).
Proof. exact arun_ring_image_l. Qed.
Print Assumptions concurrent_ring_is_image_of_membership.

(* ---- the concurrent judgements are no oracle (ProofsF.v) ---------------------------------------
   [GetSpecL t m hp g]: g is none and no layer of the layered node map m has a live virtual node, or g
   is the value of a layer owning the cyclic successor slot of hp — the statement of
   concurrent_get_owner_of_successor, for the measured hash table.  The boolean clause evaluated on
   every observed answer of a concurrent case is equivalent to it ... *)
Theorem concurrent_clause_reflect : forall t R, table_ok t R = true -> forall m hp g,
  lmap_wf t R m -> (get_ok t m hp g = true <-> GetSpecL t m hp g).
Proof. exact get_ok_reflect. Qed.
Print Assumptions concurrent_clause_reflect.

(* ... at history level: [conc_ok] (all steps, all probes, the overlapping lookups judged against the
   layers before or — if the calls overlap in real time — after their step) holds iff [ConcSpec] *)
Theorem concurrent_history_reflect : forall t R, table_ok t R = true -> 0 <= R ->
  forall ps steps m obs, lmap_wf t R m -> steps_in_table t steps ->
  (conc_ok t R ps m steps obs = true <-> ConcSpec t R ps m steps obs).
Proof. exact conc_ok_reflect_l. Qed.
Print Assumptions concurrent_history_reflect.

(* ... and the model's answers on the executed trace satisfy it: agrees => prop_ok *)
Theorem concurrent_agrees_implies_prop_ok : forall c,
  table_ok (kvh c) (kR c) = true -> 0 <= kR c -> steps_in_table (kvh c) (ksteps c) ->
  agrees (ConcCase c) = true -> prop_ok (ConcCase c) = true.
Proof. exact agrees_k_implies_prop_ok_k_l. Qed.
Print Assumptions concurrent_agrees_implies_prop_ok.

Example conc_case_example :
  let t := [(0, [7; 20]); (1, [7; 30])] in
  let steps := [([ARemove 0; AInsert (mkNode 0 0) 2], None); ([ARemove 1], Some (0, 0, true, false));
                ([AInsert (mkNode 1 1) 1], None); ([ARemove 0], Some (0, 1, true, true))] in
  let c := mkConc 2 t steps [(5, 1); (25, 0)] (model_obs_k (mkConc 2 t steps [(5, 1); (25, 0)] [])) in
  table_ok t 2 = true /\ agrees (ConcCase c) = true /\ prop_ok (ConcCase c) = true.
Proof. vm_compute. auto. Qed.

(* ======== round 4: the VALUE of a member ========================================================
   Node identity is the repr; what a lookup returns is the value handed to the LATEST add-type call of
   that repr.  [history_independent] above is stated over the map repr |-> (effective replicas, value)
   ([amap_run]: a later add of the repr overwrites count AND value), so two histories that end with the same
   (repr, value, count) triples answer alike.  Explicitly, for EVERY hash function and history: after an
   add-type call on x — whatever the ring held for that repr before (another value with the same repr,
   the same effective count or another, nothing) — and any later operations on other reprs, a lookup
   answered with a value of that repr is answered with x itself.  No collision-freeness needed. *)
Theorem latest_value_wins : forall vh R pre o post hp ihp y,
  is_add o = true ->
  forallb (fun o' => negb (nrepr (op_node o') =? nrepr (op_node o))) post = true ->
  get (run vh R (pre ++ o :: post)) hp ihp = GSome y ->
  nrepr y = nrepr (op_node o) -> y = op_node o.
Proof. exact latest_value_wins_l. Qed.
Print Assumptions latest_value_wins.

(* int 7 (value 0) with 50 %, then the string "7" (value 1) with the same 50 %, then another node: key
   7010 is answered with value 1 *)
Example latest_value_example :
  get (run cf_hash 100 [OAddW (mkNode 7 0) 50; OAddW (mkNode 7 1) 50; OAdd (mkNode 9 2)]) 710 0 = GSome (mkNode 7 1).
Proof. vm_compute. reflexivity. Qed.

(* ======== round 4: node identity (Repr.v — lang.Repr, innerRepr, the virtual-node strings) ==========
   The strings of one node's virtual nodes, repr ++ itoa(i), are pairwise different (decimal rendering
   is injective): with a hash function that is injective on them, a node added with r replicas holds r
   distinct slots.  (Different NODES can share strings — "1"+"10" = "11"+"0": the known finding.) *)
Theorem vnode_strings_injective : forall v i j, 0 <= i < 10 ^ 40 -> 0 <= j < 10 ^ 40 ->
  vnode_text v i = vnode_text v j -> i = j.
Proof. exact vnode_text_inj_l. Qed.
Print Assumptions vnode_strings_injective.

(* the identity check is no oracle: if the strings the ring hashes for every value are the model's
   ([agrees]) then every clause of [prop_ok] on them holds *)
Theorem identity_agrees_implies_prop_ok : forall l, (forall e, In e l -> idx_ok e) ->
  agrees (ReprCase l) = true -> prop_ok (ReprCase l) = true.
Proof. exact agrees_p_implies_prop_ok_p_l. Qed.
Print Assumptions identity_agrees_implies_prop_ok.

(* int8(-3), the string "-3" (same node), []byte "ab" (another node, inner text [97 98]), a **int *)
Example identity_example :
  let mk v := mkPval v (repr_model v) (repr_model v)
                     (match inner_model 16777619 v with Some s => s | None => [48; 120] end)
                     [(0, vnode_text v 0); (10, vnode_text v 10)] [(0, vnode_text v 0); (10, vnode_text v 10)] in
  let l := [mk (VInt (-3)); mk (VStr [45; 51]); mk (VBytes [97; 98]); mk (VPtrInt 7); mk (VFloat false [50] [53])] in
  (forall e, In e l -> idx_ok e) /\ agrees (ReprCase l) = true /\ prop_ok (ReprCase l) = true /\
  repr_model (VInt (-3)) = [45; 51] /\ inner_model 16777619 (VBytes [97; 98]) = Some [49; 54; 55; 55; 55; 54; 49; 57; 58; 91; 57; 55; 32; 57; 56; 93].
Proof.
  assert (Hk : forall v a b, idx_ok (mkPval v a a b [(0, vnode_text v 0); (10, vnode_text v 10)]
                                             [(0, vnode_text v 0); (10, vnode_text v 10)])).
  { intros v a b. unfold idx_ok. cbn [p_adds p_rems map fst]. split; [reflexivity|]. split.
    - constructor; [cbn; intuition lia|]. constructor; [cbn; tauto | constructor].
    - repeat constructor; lia. }
  cbv zeta. split; [|vm_compute; auto].
  intros e H. repeat (destruct H as [<-|H]; [apply Hk|]). destruct H.
Qed.

(* ======== round 4: the error path of the dispatch ===================================================
   kv's getRedis / the cache cluster answer the no-node error exactly when dispatcher.Get answers !ok.
   For every hash function, history and key: that happens iff no node of the node map has a virtual node
   ([members] = entries with >= 1 effective replica) — the clause [p_nonode] of Check.prop_ok and the
   model's [m_nonode] ([owner] = none) say the same thing. *)
Theorem no_node_iff_no_members : forall vh R ops hp ihp, 0 <= R ->
  (get (run vh R ops) hp ihp = GNone <-> members (amap_run R ops) = []).
Proof. exact no_node_iff_no_members_l. Qed.
Print Assumptions no_node_iff_no_members.

(* reachable through the public constructors (total weight > 0): a weight whose product with h.replicas
   wraps Go's int to 0, weight 0, a negative replica count; one proper weight makes a member *)
Example no_members_example :
  members (amap_run 100 [OAddW (mkNode 1 0) 92233720368547759; OAddW (mkNode 2 1) 0; OAddR (mkNode 3 2) (-4)]) = [] /\
  members (amap_run 100 [OAddW (mkNode 1 0) 92233720368547759; OAddW (mkNode 2 1) 1]) = [(2, (1, 1))].
Proof. vm_compute. auto. Qed.

(* ======== round 4, follow-up: lookups among lookups (seeded C15-11) ====================================
   Reads do not write.  Whatever ran before and runs afterwards, a block of lookups — any number, any order —
   leaves the ring as it is, and each lookup answers [get] of that quiescent state for its own key. *)
Theorem concurrent_gets_answer_as_alone : forall vh R pre ks post,
  let s := fst (grun vh R init pre) in
  grun vh R init (pre ++ lookups ks ++ post) =
  (fst (grun vh R s post),
   snd (grun vh R init pre) ++ map (fun k => get s (fst k) (snd k)) ks ++ snd (grun vh R s post)).
Proof. exact gets_answer_as_alone_l. Qed.
Print Assumptions concurrent_gets_answer_as_alone.

(* ... also below the granularity of one atomic read: a lookup copies the bytes of its key and then hashes
   what the buffer holds.  With PRIVATE bytes (HEAD: a fresh []byte(repr(v)) per call) every interleaving of
   the copy / hash steps of any number of lookups gives each lookup the quiescent answer for its own key.
   With one buffer shared under the read lock this fails: Pinned.shared_buffer_gets_refuted. *)
Theorem lookups_with_private_bytes_answer_as_alone : forall s keys steps t g,
  In (t, g) (lrun false s keys (fun _ => None) steps) ->
  g = get s (fst (key_of keys t)) (snd (key_of keys t)).
Proof. exact private_bytes_answer_as_alone_l. Qed.
Print Assumptions lookups_with_private_bytes_answer_as_alone.

Example gets_alone_example :
  snd (grun cf_hash 100 init (map CAct [AInsert (mkNode 1 0) 100; AInsert (mkNode 2 1) 100] ++
                              lookups [(150, 0); (250, 0); (150, 0)] ++ [CAct (ARemove 1); CGet 150 0])) =
  [GSome (mkNode 1 0); GSome (mkNode 2 1); GSome (mkNode 1 0); GSome (mkNode 2 1)].
Proof. vm_compute. reflexivity. Qed.
