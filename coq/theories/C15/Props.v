(* C15 — property theorems only.  Every theorem is closed by [exact] of a lemma proved
   in Proofs.v and followed by [Print Assumptions].

   [vh] (the hash of every virtual-node string) and [R] (h.replicas) are universally
   quantified: the theorems below hold for EVERY hash function — murmur3, a custom
   Func, colliding or not — every history of Add / AddWithReplicas / AddWithWeight /
   Remove, every replica count / weight, and every lookup key (given by its two hashes).

   PROVED HERE (no hypothesis on the hash):
     ring_invariant, get_member_only, removed_never_returned, added_node_is_served.

   NOT PROVED over the ring model (time): the four statements under the hypothesis
     collision_free  :=  forall n i n' i', 0 <= i < R -> 0 <= i' < R ->
                         vh n i = vh n' i' -> n = n' /\ i = i'
     history_independent            the ring up to order, and Get, depend only on the
                                    final map node |-> (replicas, value)
     add_moves_only_to_new          get (add x) p = get p  \/  get (add x) p = GSome x
     remove_moves_only_from_removed get p = GSome y, repr y <> n  ->  get (remove n) p = GSome y
     readd_moves_only_to_or_from_it the same disjunction for a re-add with another count
   They are only CHECKED, per generated history on every collision-free universe, on the
   implementation's own answers: Check.prop_ok compares every observed Get with
   [spec_get] (the owner of the first virtual-node hash >= the key, computed from the
   node map alone) and checks [moved_ok] between consecutive observations.  Without
   collision_free, history independence is false for the code as it is:
   Pinned.bucket_order_refuted. *)
From Coq Require Import List ZArith Bool Sorted.
From GZ Require Import C15.Model C15.Proofs.
Import ListNotations.
Open Scope Z_scope.

(* After every history: keys are sorted; there is exactly one key per ring entry (so keys
   is empty iff the ring is); no bucket is empty; every ring entry belongs to a node of
   the node set and sits at one of that node's R virtual-node hashes. *)
Theorem ring_invariant : forall vh R ops, Inv vh R (run vh R ops).
Proof. exact run_inv. Qed.
Print Assumptions ring_invariant.

(* Get never fails; it answers none iff the ring is empty; otherwise it returns a value
   stored in the ring whose node is in the node set. *)
Theorem get_member_only : forall vh R ops hp ihp,
  let s := run vh R ops in
  get s hp ihp <> GPanic /\
  (get s hp ihp = GNone <-> ring s = []) /\
  (forall x, get s hp ihp = GSome x ->
     In (nrepr x) (nodes s) /\ exists h, In h (keys s) /\ In x (bucket h (ring s))).
Proof. exact get_member_only_l. Qed.
Print Assumptions get_member_only.

(* After Remove(x), whatever happened before and whatever happens afterwards to other
   nodes, no key is ever answered with a value of that node — until it is added again. *)
Theorem removed_never_returned : forall vh R pre x post hp ihp y,
  forallb (fun o => negb (is_add o && (nrepr (op_node o) =? nrepr x))) post = true ->
  nrepr y = nrepr x ->
  get (run vh R (pre ++ ORemove x :: post)) hp ihp <> GSome y.
Proof. exact removed_never_returned_l. Qed.
Print Assumptions removed_never_returned.

(* Conversely the ring is not empty (Get answers every key) right after a node was added
   with at least one replica. *)
Theorem added_node_is_served : forall vh R pre x r hp ihp,
  0 < r -> 0 < R ->
  get (step vh R (run vh R pre) (OAddR x r)) hp ihp <> GNone.
Proof. exact added_is_served_l. Qed.
Print Assumptions added_node_is_served.

(* ---- non-vacuity ------------------------------------------------------------------ *)
Definition ex_hash (n i : Z) : Z := (n * 7919 + i * 104729) mod 1000003.
Definition ex_ops : list op :=
  [OAdd (mkNode 1 0); OAddW (mkNode 2 1) 50; OAddR (mkNode 3 2) 7; ORemove (mkNode 1 0); OAddR (mkNode 2 3) 0].

(* three nodes, one removed, one re-added with zero replicas: node 3 serves everything *)
Example ex_state :
  let s := run ex_hash 100 ex_ops in
  length (keys s) = 7%nat /\ nodes s = [3; 2] /\ get s 12345 1 = GSome (mkNode 3 2).
Proof. vm_compute. auto. Qed.

(* the hypotheses of removed_never_returned are satisfiable with a non-empty tail *)
Example ex_removed_hyp :
  forallb (fun o => negb (is_add o && (nrepr (op_node o) =? 1)))
          [OAddR (mkNode 2 3) 0; OAdd (mkNode 3 2)] = true.
Proof. reflexivity. Qed.

(* a small-range hash (everything collides): the theorems still apply *)
Example ex_colliding :
  let s := run (fun n i => (n + i) mod 3) 100 [OAdd (mkNode 1 0); OAdd (mkNode 2 1); ORemove (mkNode 1 0)] in
  length (keys s) = 100%nat /\ length (ring s) = 3%nat /\ get s 2 5 = GSome (mkNode 2 1).
Proof. vm_compute. auto. Qed.
