(* C15 — the VALUE a lookup returns: node identity is the repr, the value stored is the one handed to the
   latest add-type call of that repr ("last added value wins").  Round 4 (seeded C15-10). *)
From Coq Require Import List ZArith Bool Lia.
From GZ Require Import C15.Model C15.Cluster C15.Conc C15.Check C15.Proofs C15.ProofsB C15.ProofsC C15.ProofsD.
From GZgen Require Import C15Consts.
Import ListNotations.
Open Scope Z_scope.

Lemma alookup_step_other : forall R n m o, nrepr (op_node o) <> n -> alookup n (a_step R m o) = alookup n m.
Proof.
  intros R n m o Hne.
  destruct o as [x|x r|x w|x]; cbn [a_step op_node] in *;
    rewrite ?alookup_set, ?alookup_del;
    (destruct (n =? nrepr x) eqn:E; [apply Z.eqb_eq in E; congruence | reflexivity]).
Qed.

Lemma alookup_fold_other : forall R n post m,
  forallb (fun o => negb (nrepr (op_node o) =? n)) post = true ->
  alookup n (fold_left (a_step R) post m) = alookup n m.
Proof.
  intros R n. induction post as [|o post IH]; intros m H; cbn [fold_left]; [reflexivity|].
  cbn [forallb] in H. apply andb_true_iff in H. destruct H as [Ho Hp].
  rewrite (IH _ Hp). apply alookup_step_other.
  apply negb_true_iff, Z.eqb_neq in Ho. exact Ho.
Qed.

Lemma alookup_add : forall R m o, is_add o = true ->
  exists r, alookup (nrepr (op_node o)) (a_step R m o) = Some (r, nval (op_node o)).
Proof.
  intros R m o Ha. destruct o as [x|x r|x w|x]; cbn [is_add] in Ha; try discriminate;
    cbn [a_step op_node]; rewrite alookup_set, Z.eqb_refl; eexists; reflexivity.
Qed.

(* For EVERY hash function and every history: after an add-type call on x — whatever the ring held
   before for that repr (another value with the same repr, the same or another replica count, nothing) —
   and any later operations on OTHER reprs, a lookup that is answered with a value of that repr is
   answered with x itself: the value of the latest add. *)
Lemma latest_value_wins_l : forall vh R pre o post hp ihp y,
  is_add o = true ->
  forallb (fun o' => negb (nrepr (op_node o') =? nrepr (op_node o))) post = true ->
  get (run vh R (pre ++ o :: post)) hp ihp = GSome y ->
  nrepr y = nrepr (op_node o) -> y = op_node o.
Proof.
  intros vh R pre o post hp ihp y Ha Hp Hg Hy.
  destruct (get_owner_any_hash_l vh R (pre ++ o :: post) hp ihp) as (Hs & _).
  destruct (Hs y Hg) as (k & (r & i & Hl & _) & _).
  unfold amap_run in Hl. rewrite fold_left_app in Hl. cbn [fold_left] in Hl.
  rewrite Hy in Hl. rewrite (alookup_fold_other R _ post _ Hp) in Hl.
  destruct (alookup_add R (fold_left (a_step R) pre []) o Ha) as [r' Hr']. rewrite Hr' in Hl.
  injection Hl as _ Hv. destruct y as [ry vy], (op_node o) as [rx vx]. cbn in *. congruence.
Qed.

(* ======== node identity (Repr.v): decimal rendering is injective, so are virtual-node strings ======== *)
Definition dval (l : list Z) (a : Z) : Z := fold_left (fun a d => a * 10 + (d - 48)) l a.

Lemma dec_digits_val : forall fuel n acc, 0 <= n < 10 ^ Z.of_nat fuel ->
  dval (dec_digits fuel n acc) 0 = dval acc n.
Proof.
  induction fuel as [|f IH]; intros n acc Hn.
  - cbn in Hn. assert (n = 0) by lia. subst n. reflexivity.
  - cbn [dec_digits]. destruct (n <? 10) eqn:E.
    + apply Z.ltb_lt in E. unfold dval. cbn [fold_left]. f_equal.
      rewrite Z.mod_small by lia. lia.
    + apply Z.ltb_ge in E. rewrite IH.
      * unfold dval. cbn [fold_left]. f_equal.
        pose proof (Z.div_mod n 10 ltac:(lia)). lia.
      * rewrite Nat2Z.inj_succ, Z.pow_succ_r in Hn by lia.
        split; [apply Z.div_pos; lia | apply Z.div_lt_upper_bound; lia].
Qed.

Lemma dec_nonneg_val : forall n, 0 <= n < 10 ^ 40 -> dval (dec n) 0 = n.
Proof.
  intros n Hn. unfold dec. destruct (n <? 0) eqn:E; [apply Z.ltb_lt in E; lia|].
  rewrite (dec_digits_val 40 n []) by (change (Z.of_nat 40) with 40; exact Hn). reflexivity.
Qed.

Lemma dec_inj : forall i j, 0 <= i < 10 ^ 40 -> 0 <= j < 10 ^ 40 -> dec i = dec j -> i = j.
Proof.
  intros i j Hi Hj E. rewrite <- (dec_nonneg_val i Hi), <- (dec_nonneg_val j Hj), E. reflexivity.
Qed.

(* different indices give different virtual-node strings of one node *)
Lemma vnode_text_inj_l : forall v i j, 0 <= i < 10 ^ 40 -> 0 <= j < 10 ^ 40 ->
  vnode_text v i = vnode_text v j -> i = j.
Proof.
  intros v i j Hi Hj E. unfold vnode_text in E. apply app_inv_head in E. exact (dec_inj i j Hi Hj E).
Qed.

(* ======== agrees => prop_ok for identity cases ==================================================== *)
Lemma texts_are_model : forall v l,
  forallb (fun it => zs_eqb (vnode_text v (fst it)) (snd it)) l = true ->
  l = map (fun i => (i, vnode_text v i)) (map fst l).
Proof.
  induction l as [|[i t] l IH]; intros H; [reflexivity|].
  cbn [forallb fst snd] in H. apply andb_true_iff in H. destruct H as [H1 H2].
  apply zs_eqb_eq in H1. cbn [map fst]. rewrite H1. f_equal. exact (IH H2).
Qed.

Lemma all_pairs_intro : forall A (f : A -> A -> bool) (l : list A),
  (forall l1 x l2 y l3, l = l1 ++ x :: l2 ++ y :: l3 -> f x y = true) -> all_pairs f l = true.
Proof.
  induction l as [|x l IH]; intros H; [reflexivity|]. cbn [all_pairs]. apply andb_true_iff. split.
  - apply forallb_forall. intros y Hy. apply in_split in Hy. destruct Hy as [l2 [l3 ->]].
    exact (H [] x l2 y l3 eq_refl).
  - apply IH. intros l1 a l2 b l3 ->. exact (H (x :: l1) a l2 b l3 eq_refl).
Qed.

Definition idx_ok (e : pval) : Prop :=
  map fst (p_adds e) = map fst (p_rems e) /\ NoDup (map fst (p_adds e)) /\
  Forall (fun i => 0 <= i < 10 ^ 40) (map fst (p_adds e)).

Lemma pval_agrees_ok : forall e, idx_ok e -> pval_agrees e = true ->
  pval_ok e = true /\ p_get e = repr_model (pv e).
Proof.
  intros e (Hidx & Hnd & Hrng) H. unfold pval_agrees in H.
  repeat (apply andb_true_iff in H; destruct H as [H ?]).
  rename H into Hg, H3 into Hd, H2 into Hi, H1 into Ha, H0 into Hr.
  apply zs_eqb_eq in Hg, Hd. split; [|congruence].
  pose proof (texts_are_model _ _ Ha) as Ea. pose proof (texts_are_model _ _ Hr) as Er.
  unfold pval_ok. repeat (apply andb_true_iff; split).
  - apply zs_eqb_eq. congruence.
  - rewrite Ea, Er, Hidx. apply list_eqb_eq; [|reflexivity].
    intros [a1 a2] [b1 b2]. cbn [fst snd]. rewrite andb_true_iff, Z.eqb_eq, zs_eqb_eq.
    split; [intros [-> ->]; reflexivity | intros E; inversion E; auto].
  - apply all_pairs_intro. intros l1 x l2 y l3 E. apply negb_true_iff. apply not_true_iff_false.
    intros Hxy. apply zs_eqb_eq in Hxy.
    assert (Hx : snd x = vnode_text (pv e) (fst x)).
    { assert (In x (p_adds e)) by (rewrite E; apply in_or_app; right; left; reflexivity).
      rewrite forallb_forall in Ha. specialize (Ha x H). apply zs_eqb_eq in Ha. congruence. }
    assert (Hy : snd y = vnode_text (pv e) (fst y)).
    { assert (In y (p_adds e)) by (rewrite E; apply in_or_app; right; right; apply in_or_app; right; left; reflexivity).
      rewrite forallb_forall in Ha. specialize (Ha y H). apply zs_eqb_eq in Ha. congruence. }
    rewrite E in Hnd, Hrng. rewrite !map_app in Hnd, Hrng. cbn [map] in Hnd, Hrng. rewrite !map_app in Hnd, Hrng. cbn [map] in Hnd, Hrng.
    assert (Rx : 0 <= fst x < 10 ^ 40).
    { rewrite Forall_forall in Hrng. apply Hrng. apply in_or_app. right. left. reflexivity. }
    assert (Ry : 0 <= fst y < 10 ^ 40).
    { rewrite Forall_forall in Hrng. apply Hrng. apply in_or_app. right. right. apply in_or_app. right. left. reflexivity. }
    assert (Exy : fst x = fst y) by (apply (vnode_text_inj_l (pv e)); [exact Rx | exact Ry | congruence]).
    apply NoDup_remove_2 in Hnd. apply Hnd. apply in_or_app. right. apply in_or_app. right. left. symmetry. exact Exy.
  - apply forallb_forall. intros it Hin. rewrite forallb_forall in Ha. specialize (Ha it Hin).
    apply zs_eqb_eq in Ha. rewrite <- Ha, <- Hg. unfold vnode_text.
    apply zs_eqb_eq. rewrite firstn_app, Nat.sub_diag, firstn_all. cbn [firstn]. apply app_nil_r.
Qed.

(* If the strings the ring hashes are the model's ([agrees]) — for index lists that are the same for Add and
   Remove, without repetition — then every clause of the identity check holds ([prop_ok]): evaluations
   coincide, Remove hashes what Add hashed, indices give distinct strings, and two values are identified by
   the implementation iff the model identifies them. *)
Lemma agrees_p_implies_prop_ok_p_l : forall l, (forall e, In e l -> idx_ok e) ->
  agrees (ReprCase l) = true -> prop_ok (ReprCase l) = true.
Proof.
  intros l Hidx H. cbn [agrees prop_ok] in *. unfold agrees_p in H. rewrite forallb_forall in H.
  unfold prop_ok_p. apply andb_true_iff. split.
  - apply forallb_forall. intros e He. exact (proj1 (pval_agrees_ok e (Hidx e He) (H e He))).
  - apply all_pairs_intro. intros l1 a l2 b l3 E.
    assert (Ia : In a l) by (rewrite E; apply in_or_app; right; left; reflexivity).
    assert (Ib : In b l) by (rewrite E; apply in_or_app; right; right; apply in_or_app; right; left; reflexivity).
    rewrite (proj2 (pval_agrees_ok a (Hidx a Ia) (H a Ia))), (proj2 (pval_agrees_ok b (Hidx b Ib) (H b Ib))).
    apply Bool.eqb_reflx.
Qed.

(* ======== the error path of the dispatch: no node <-> no member with a virtual node ================= *)
Lemma amap_run_nodup : forall R ops, 0 <= R -> NoDup (map fst (amap_run R ops)).
Proof.
  intros R ops HR.
  pose (t := map (fun o => (nrepr (op_node o), @nil Z)) ops).
  assert (Hu : ops_in_U (fun n => In n (map fst t)) ops).
  { unfold ops_in_U. apply Forall_forall. intros o Ho. unfold op_in_U, t. rewrite map_map. cbn [fst].
    apply in_map_iff. exists o. split; [reflexivity | exact Ho]. }
  exact (proj1 (amap_wf_run t R ops HR Hu)).
Qed.

Lemma no_node_iff_no_members_l : forall vh R ops hp ihp, 0 <= R ->
  (get (run vh R ops) hp ihp = GNone <-> members (amap_run R ops) = []).
Proof.
  intros vh R ops hp ihp HR.
  destruct (get_owner_any_hash_l vh R ops hp ihp) as (_ & Hn & _). rewrite Hn.
  pose proof (amap_run_nodup R ops HR) as ND. set (m := amap_run R ops) in *.
  split.
  - intros Hno. destruct (members m) as [|[n [r v]] ms] eqn:E; [reflexivity|]. exfalso.
    assert (Hin : In (n, (r, v)) (members m)) by (rewrite E; left; reflexivity).
    unfold members in Hin. apply filter_In in Hin. destruct Hin as [Hin Hr]. cbn in Hr. apply Z.ltb_lt in Hr.
    apply (Hno (vh n 0)). exists (mkNode n v). exists r, 0. cbn [nrepr nval].
    split; [apply in_alookup; assumption|]. split; [lia | reflexivity].
  - intros Hm h [x (r & i & Hl & Hi & _)].
    apply in_alookup in Hl; [|exact ND].
    assert (Hin : In (nrepr x, (r, nval x)) (members m)).
    { unfold members. apply filter_In. split; [exact Hl|]. cbn. apply Z.ltb_lt. lia. }
    rewrite Hm in Hin. exact Hin.
Qed.

(* ======== lookups among lookups (seeded C15-11) ====================================================
   (1) at the granularity of Conc.v (a lookup = one atomic read): lookups do not change the state, so a
   block of lookups — any number, any order — answers key by key what the quiescent ring answers. *)
Section GetsCommute.
Variable vh : Z -> Z -> Z.
Variable R : Z.

Lemma grun_app : forall l1 l2 s,
  grun vh R s (l1 ++ l2) =
  (fst (grun vh R (fst (grun vh R s l1)) l2), snd (grun vh R s l1) ++ snd (grun vh R (fst (grun vh R s l1)) l2)).
Proof.
  induction l1 as [|c l1 IH]; intros l2 s; cbn [app grun fst snd].
  - destruct (grun vh R s l2); reflexivity.
  - destruct c as [a|hp ihp]; [apply IH|]. cbn [fst snd]. rewrite IH. reflexivity.
Qed.

Definition lookups (ks : list (Z * Z)) : list cact := map (fun k => CGet (fst k) (snd k)) ks.

Lemma grun_lookups : forall ks s, grun vh R s (lookups ks) = (s, map (fun k => get s (fst k) (snd k)) ks).
Proof.
  induction ks as [|k ks IH]; intros s; cbn [lookups map grun]; [reflexivity|].
  fold (lookups ks). rewrite IH. reflexivity.
Qed.

(* whatever ran before (membership actions and lookups) and whatever runs afterwards: a block of lookups
   leaves the state as it is and each of them answers [get] of that state for its own key — independently of
   the other lookups of the block, of their number and of their order *)
Lemma gets_answer_as_alone_l : forall pre ks post,
  let s := fst (grun vh R init pre) in
  grun vh R init (pre ++ lookups ks ++ post) =
  (fst (grun vh R s post),
   snd (grun vh R init pre) ++ map (fun k => get s (fst k) (snd k)) ks ++ snd (grun vh R s post)).
Proof.
  intros pre ks post s. rewrite grun_app. fold s. rewrite grun_app, grun_lookups. reflexivity.
Qed.
End GetsCommute.


(* (2) below that granularity (Conc.v [lrun]) *)
(* private bytes: for EVERY interleaving of the copy / hash steps of any number of lookups, a lookup that
   answers answers what the quiescent ring answers for ITS key *)
Lemma private_bytes_answer_as_alone_l : forall s keys steps t g,
  In (t, g) (lrun false s keys (fun _ => None) steps) ->
  g = get s (fst (key_of keys t)) (snd (key_of keys t)).
Proof.
  intros s keys steps t g.
  assert (H : forall bufs, (forall u v, bufs (S u) = Some v -> v = u) ->
              In (t, g) (lrun false s keys bufs steps) ->
              g = get s (fst (key_of keys t)) (snd (key_of keys t))).
  { induction steps as [|st steps IH]; intros bufs Hb Hin; cbn [lrun] in Hin; [contradiction|].
    destruct st as [u|u].
    - apply (IH _ ) in Hin; [exact Hin|]. intros a v. unfold buf_of. cbn [Nat.eqb].
      destruct (Nat.eqb a u) eqn:E; [apply Nat.eqb_eq in E; congruence | apply Hb].
    - unfold buf_of in Hin. destruct (bufs (S u)) as [v|] eqn:E.
      + destruct Hin as [Hin|Hin]; [|exact (IH _ Hb Hin)].
        apply Hb in E. inversion Hin; subst. reflexivity.
      + exact (IH _ Hb Hin). }
  apply H. intros u v Hn. discriminate.
Qed.
