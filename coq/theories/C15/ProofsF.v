(* C15 — reflection of the CONCURRENT property clauses (Check.conc_ok / prop_ok_k): every boolean
   judgement is equivalent to its Prop over the layered node map of Conc.v / ProofsE.v, and what the
   model answers passes them: agrees_k => prop_ok_k. *)
From Coq Require Import List ZArith Bool Sorted Lia.
From GZ Require Import C15.Model C15.Cluster C15.Conc C15.Check C15.Proofs C15.ProofsB C15.ProofsC C15.ProofsD C15.ProofsE.
Import ListNotations.
Open Scope Z_scope.

Lemma forall2b_Forall2 : forall A B (f : A -> B -> bool) l1 l2,
  forall2b f l1 l2 = true <-> Forall2 (fun a b => f a b = true) l1 l2.
Proof.
  induction l1 as [|a l1 IH]; intros [|b l2]; cbn [forall2b]; split; intros H; try discriminate; try constructor;
    try (inversion H; fail).
  - apply andb_true_iff in H. tauto.
  - apply andb_true_iff in H. apply IH. tauto.
  - inversion H; subst. apply andb_true_iff. split; [assumption | apply IH; assumption].
Qed.

Lemma l_act_is_a_act : forall R m a, l_act R m a = a_act R m a.
Proof. intros R m a. destruct a; reflexivity. Qed.

Lemma fold_l_act : forall R acts m, fold_left (l_act R) acts m = fold_left (a_act R) acts m.
Proof. intros R acts. induction acts as [|a acts IH]; intros m; cbn [fold_left]; [reflexivity|]. rewrite l_act_is_a_act. apply IH. Qed.

Section Layers.
Variable t : list (Z * list Z).
Variable R : Z.
Hypothesis Htab : table_ok t R = true.
Hypothesis HR : 0 <= R.
Notation vh := (vh_of t).

(* a layered map over the table: replica counts within 0..R, reprs of the table; a node may have
   several layers *)
Definition lmap_wf (m : amap) : Prop :=
  forall n r v, In (n, (r, v)) m -> 0 <= r <= R /\ In n (map fst t).

Definition act_in_table (a : act) : Prop :=
  match a with ARemove _ => True | AInsert x _ => In (nrepr x) (map fst t) end.

Lemma lmap_wf_act : forall m a, lmap_wf m -> act_in_table a -> lmap_wf (a_act R m a).
Proof.
  intros m a Hm Ha n r v Hin. destruct a as [k|x r0]; cbn [a_act] in Hin.
  - unfold a_del in Hin. apply filter_In in Hin. apply (Hm n r v). tauto.
  - apply in_app_or in Hin. destruct Hin as [Hin|[E|[]]]; [exact (Hm _ _ _ Hin)|].
    inversion E; subst. split; [apply clamp_range; exact HR | exact Ha].
Qed.

Lemma lmap_wf_fold : forall acts m, lmap_wf m -> Forall act_in_table acts -> lmap_wf (fold_left (a_act R) acts m).
Proof.
  induction acts as [|a acts IH]; intros m Hm Ha; cbn [fold_left]; [exact Hm|].
  inversion Ha; subst. apply IH; [apply lmap_wf_act; assumption | assumption].
Qed.

(* a pair (slot, value) of [vnodes t m] is a live virtual node of a layer, and conversely *)
Lemma vnodes_liveL : forall m h v, lmap_wf m ->
  (In (h, v) (vnodes t m) <-> exists x, nval x = v /\ LiveL vh m x h).
Proof.
  intros m h v Hm. rewrite vnodes_in. split.
  - intros (n & r & He & Hr & Hh). destruct (Hm n r v He) as [Hr2 Hn].
    apply firstn_in_nth in Hh. destruct Hh as (j & J1 & J2 & J3).
    exists (mkNode n v). split; [reflexivity|]. exists r, (Z.of_nat j). cbn [nrepr nval].
    split; [exact He|]. split; [lia|]. unfold vh_of. rewrite Nat2Z.id. symmetry. exact J3.
  - intros (x & Ev & r & i & Ha & Hi & Eh). subst v. destruct (Hm _ _ _ Ha) as [Hr2 Hn].
    exists (nrepr x), r. split; [exact Ha|]. split; [lia|].
    apply firstn_in_nth. exists (Z.to_nat i). pose proof (table_row_length t R Htab _ Hn) as L.
    split; [lia|]. split; [lia|]. subst h. reflexivity.
Qed.

Lemma slot_liveL : forall m h, lmap_wf m -> (slot_of (vnodes t m) h <-> live_hashL vh m h).
Proof.
  intros m h Hm. unfold slot_of, live_hashL. split.
  - intros [v Hv]. apply (vnodes_liveL m h v Hm) in Hv. destruct Hv as [x [_ Hx]]. exists x. exact Hx.
  - intros [x Hx]. exists (nval x). apply (vnodes_liveL m h (nval x) Hm). exists x. auto.
Qed.

(* THE clause of the concurrent property, as a Prop over the layers: the answer is none and no
   layer has a live virtual node, or it is the value of a layer owning the cyclic successor slot *)
Definition GetSpecL (m : amap) (hp g : Z) : Prop :=
  ((forall h, ~ live_hashL vh m h) /\ g = -1) \/
  (exists x k, g = nval x /\ LiveL vh m x k /\ is_succ (live_hashL vh m) hp k).

Lemma owner_ok_layers_reflect : forall m hp g, lmap_wf m ->
  (owner_ok (vnodes t m) hp g = true <-> GetSpecL m hp g).
Proof.
  intros m hp g Hm. rewrite owner_ok_list_spec. unfold GetSpecL. split.
  - intros [[E Hg]|[k [Sk Hin]]].
    + left. split; [|exact Hg]. intros h Hh. apply (slot_liveL m h Hm) in Hh. destruct Hh as [v Hv].
      rewrite E in Hv. exact Hv.
    + right. apply (vnodes_liveL m k g Hm) in Hin. destruct Hin as [x [Ex Lx]].
      exists x, k. split; [auto|]. split; [exact Lx|].
      eapply is_succ_ext; [|exact Sk]. intros h. apply slot_liveL. exact Hm.
  - intros [[Hno Hg]|(x & k & Eg & Lx & Sk)].
    + left. split; [|exact Hg]. destruct (vnodes t m) as [|[h v] vs] eqn:E; [reflexivity|]. exfalso.
      apply (Hno h). apply (slot_liveL m h Hm). exists v. rewrite E. left. reflexivity.
    + right. exists k. split.
      * eapply is_succ_ext; [|exact Sk]. intros h. symmetry. apply slot_liveL. exact Hm.
      * apply (vnodes_liveL m k g Hm). exists x. auto.
Qed.

(* [member_only] adds nothing to [owner_ok] on a layered map: a live virtual node belongs to a layer
   with at least one replica, and such a layer has a live virtual node *)
Lemma get_ok_reflect : forall m hp g, lmap_wf m ->
  (get_ok t m hp g = true <-> GetSpecL m hp g).
Proof.
  intros m hp g Hm. unfold get_ok. rewrite andb_true_iff, (owner_ok_layers_reflect m hp g Hm). split; [tauto|].
  intros H. split; [|exact H]. apply member_only_iff. destruct H as [[Hno Hg]|(x & k & Eg & (r & i & Hin & Hi & _) & _)].
  - left. split; [|exact Hg]. destruct (members m) as [|[n [r v]] ms] eqn:E; [reflexivity|]. exfalso.
    assert (Hin : In (n, (r, v)) (members m)) by (rewrite E; left; reflexivity).
    apply members_in in Hin. destruct Hin as [Hin Hr].
    apply (Hno (vh n 0)). exists (mkNode n v). exists r, 0. cbn [nrepr nval]. split; [exact Hin|]. split; [lia | reflexivity].
  - right. exists (nrepr x), r. subst g. split; [exact Hin | lia].
Qed.

Lemma step_ok_reflect : forall m ps gs, lmap_wf m ->
  (step_ok t false ps m gs = true <-> Forall2 (fun p g => GetSpecL m (fst p) g) ps gs).
Proof.
  intros m ps gs Hm. unfold step_ok. rewrite forall2b_Forall2. split; intros H.
  - induction H as [|p g ps' gs' Hpg _ IH]; constructor; [|exact IH].
    rewrite andb_true_r in Hpg. apply (get_ok_reflect m (fst p) g Hm). exact Hpg.
  - induction H as [|p g ps' gs' Hpg _ IH]; constructor; [|exact IH].
    rewrite andb_true_r. apply (get_ok_reflect m (fst p) g Hm). exact Hpg.
Qed.

(* ---- the whole history ----------------------------------------------------------------------- *)
Definition LookupSpec (ps : list (Z * Z)) (m m' : amap) (go : gobs) : Prop :=
  match go with
  | None => True
  | Some (p, g, ovl, _) =>
    exists hp ihp, nth_error ps (Z.to_nat p) = Some (hp, ihp) /\
                   (GetSpecL m hp g \/ (ovl = true /\ GetSpecL m' hp g))
  end.

Fixpoint ConcSpec (ps : list (Z * Z)) (m : amap) (steps : list (list act * gobs)) (obs : list (list Z)) : Prop :=
  match steps, obs with
  | [], [] => True
  | (acts, go) :: steps', gs :: obs' =>
    let m' := fold_left (a_act R) acts m in
    Forall2 (fun p g => GetSpecL m' (fst p) g) ps gs /\ LookupSpec ps m m' go /\ ConcSpec ps m' steps' obs'
  | _, _ => False
  end.

Definition steps_in_table (steps : list (list act * gobs)) : Prop :=
  Forall (fun s => Forall act_in_table (fst s)) steps.

(* The boolean history judgement of the concurrent cases IS the layered specification: after every
   step every probe's answer is none-with-no-live-virtual-node or a value of a layer owning the
   successor slot; an overlapping lookup answers like that for the layers before its step or — when
   the calls overlap in real time — after it. *)
Lemma conc_ok_reflect_l : forall ps steps m obs, lmap_wf m -> steps_in_table steps ->
  (conc_ok t R ps m steps obs = true <-> ConcSpec ps m steps obs).
Proof.
  intros ps steps. induction steps as [|[acts go] steps IH]; intros m obs Hm Hs.
  - destruct obs; cbn; split; auto; try discriminate; contradiction.
  - destruct obs as [|gs obs]; [cbn; split; [discriminate | contradiction]|].
    inversion Hs as [|? ? Ha Hs']; subst. cbn [fst] in Ha.
    cbn [conc_ok ConcSpec]. rewrite fold_l_act.
    set (m' := fold_left (a_act R) acts m).
    assert (Hm' : lmap_wf m') by (apply lmap_wf_fold; assumption).
    rewrite !andb_true_iff, (step_ok_reflect m' ps gs Hm'), (IH m' obs Hm' Hs').
    assert (HL : (match go with
                  | None => true
                  | Some (p, g, ovl, _) =>
                    match nth_error ps (Z.to_nat p) with
                    | Some (hp, _) => get_ok t m hp g || (ovl && get_ok t m' hp g)
                    | None => false
                    end
                  end = true) <-> LookupSpec ps m m' go).
    { unfold LookupSpec. destruct go as [[[[p g] ovl] ran]|]; [|tauto].
      destruct (nth_error ps (Z.to_nat p)) as [[hp ihp]|]; [|split; [discriminate | intros (? & ? & E & _); discriminate]].
      rewrite orb_true_iff, andb_true_iff, (get_ok_reflect m hp g Hm), (get_ok_reflect m' hp g Hm'). split.
      - intros H. exists hp, ihp. split; [reflexivity | exact H].
      - intros (hp' & ihp' & E & H). inversion E; subst. exact H. }
    rewrite HL. tauto.
Qed.

(* ---- the model's answers satisfy the specification ------------------------------------------- *)
Lemma model_answer_spec : forall acts hp ihp,
  GetSpecL (amap_acts R acts) hp (gres_z (get (arun vh R acts) hp ihp)).
Proof.
  intros acts hp ihp. destruct (arun_get_owner_l vh R acts hp ihp) as (Hs & Hn & Hp).
  destruct (get (arun vh R acts) hp ihp) as [|x|] eqn:G; [| |congruence]; cbn [gres_z].
  - left. split; [apply Hn; reflexivity | reflexivity].
  - right. destruct (Hs x eq_refl) as [k [L S]]. exists x, k. auto.
Qed.

Lemma model_rows_spec : forall acts ps,
  Forall2 (fun p g => GetSpecL (amap_acts R acts) (fst p) g) ps (gets_of t (arun vh R acts) ps).
Proof.
  intros acts ps. unfold gets_of. induction ps as [|p ps IH]; cbn [map]; constructor; [|exact IH].
  apply model_answer_spec.
Qed.

Lemma conc_spec_model : forall ps steps pre obs,
  steps_in_table steps -> Forall act_in_table pre ->
  conc_rows t R (arun vh R pre) steps ps = obs ->
  conc_lookups t R (arun vh R pre) steps ps = true ->
  ConcSpec ps (amap_acts R pre) steps obs.
Proof.
  intros ps steps. induction steps as [|[acts go] steps IH]; intros pre obs Hs Hpre Hrows Hlk.
  - cbn in Hrows. subst obs. exact I.
  - cbn [conc_rows] in Hrows. subst obs. cbn [ConcSpec conc_lookups] in *.
    inversion Hs as [|? ? Ha Hs']; subst. cbn [fst] in Ha.
    assert (Es : fold_left (astep vh R) acts (arun vh R pre) = arun vh R (pre ++ acts)).
    { unfold arun. rewrite fold_left_app. reflexivity. }
    assert (Em : fold_left (a_act R) acts (amap_acts R pre) = amap_acts R (pre ++ acts)).
    { unfold amap_acts. rewrite fold_left_app. reflexivity. }
    rewrite Es in *. rewrite Em. apply andb_true_iff in Hlk. destruct Hlk as [Hgo Hlk].
    split; [apply model_rows_spec|]. split.
    + unfold LookupSpec. destruct go as [[[[p g] ovl] ran]|]; [|exact I].
      destruct (nth_error ps (Z.to_nat p)) as [[hp ihp]|]; [|discriminate].
      exists hp, ihp. split; [reflexivity|]. apply orb_true_iff in Hgo. destruct Hgo as [E|E].
      * left. apply Z.eqb_eq in E. subst g. apply model_answer_spec.
      * right. apply andb_true_iff in E. destruct E as [E1 E2]. apply andb_true_iff in E1. destruct E1 as [Eo _].
        split; [exact Eo|]. apply Z.eqb_eq in E2. subst g. apply model_answer_spec.
    + apply (IH (pre ++ acts)); [exact Hs' | apply Forall_app; split; assumption | reflexivity | exact Hlk].
Qed.

End Layers.

(* agrees => prop_ok for the concurrent cases: whenever the implementation answered what the model
   answers on the executed trace (rows and overlapping lookups), every clause of the property check
   holds — the concurrent judgement can fail only where implementation and model differ. *)
Lemma agrees_k_implies_prop_ok_k_l : forall c,
  table_ok (kvh c) (kR c) = true -> 0 <= kR c -> steps_in_table (kvh c) (ksteps c) ->
  agrees_k c = true -> prop_ok_k c = true.
Proof.
  intros c Htab HR Hs Ha. unfold agrees_k in Ha. apply andb_true_iff in Ha. destruct Ha as [Hrows Hlk].
  apply zss_eqb_eq in Hrows. unfold model_obs_k in Hrows. unfold prop_ok_k. rewrite <- Hrows.
  assert (W0 : lmap_wf (kvh c) (kR c) []) by (intros n r v []).
  apply andb_true_iff. split.
  - apply (step_ok_reflect (kvh c) (kR c) Htab [] _ _ W0).
    exact (model_rows_spec (kvh c) (kR c) [] (kprobes c)).
  - apply (conc_ok_reflect_l (kvh c) (kR c) Htab HR (kprobes c) (ksteps c) [] _ W0 Hs).
    apply (conc_spec_model (kvh c) (kR c) (kprobes c) (ksteps c) [] _ Hs (Forall_nil _) eq_refl Hlk).
Qed.
