(* C15 — theorems under the hypothesis that the hash is collision-free on the universe of
   nodes in use: refinement of the ring to the node map (history independence) and
   minimal disruption. *)
From Coq Require Import List ZArith Bool Lia Sorted Arith FinFun.
From GZ Require Import C15.Model C15.Check C15.Proofs.
Import ListNotations.
Open Scope Z_scope.

(* ---- lists -------------------------------------------------------------------- *)
Lemma nil_or : forall A (l : list A), l = [] \/ l <> [].
Proof. intros A l. destruct l; [left | right]; congruence. Qed.

Lemma le1_in_eq : forall (l : list node) a b, (length l <= 1)%nat -> In a l -> In b l -> a = b.
Proof.
  intros [|c [|c' l]] a b H Ha Hb; cbn in *; try lia; try contradiction.
  destruct Ha as [<-|[]]. destruct Hb as [<-|[]]. reflexivity.
Qed.

Lemma le1_eq : forall (l1 l2 : list node), (length l1 <= 1)%nat -> (length l2 <= 1)%nat ->
  (forall x, In x l1 <-> In x l2) -> l1 = l2.
Proof.
  intros [|a [|a' l1]] [|b [|b' l2]] H1 H2 H; cbn [length] in *; try lia; auto.
  - exfalso. apply (proj2 (H b)). left. reflexivity.
  - exfalso. apply (proj1 (H a)). left. reflexivity.
  - destruct (proj1 (H a) (or_introl eq_refl)) as [E|[]]. subst. reflexivity.
Qed.

Lemma sorted_cnt_eq : forall l1 l2, sorted l1 -> sorted l2 ->
  (forall h, cnt l1 h = cnt l2 h) -> l1 = l2.
Proof.
  induction l1 as [|a l1 IH]; intros l2 S1 S2 H.
  - destruct l2 as [|b l2]; auto. specialize (H b). cbn [count_occ] in H.
    destruct (Z.eq_dec b b); [discriminate | congruence].
  - destruct l2 as [|b l2].
    + specialize (H a). cbn [count_occ] in H. destruct (Z.eq_dec a a); [discriminate | congruence].
    + inversion S1 as [|? ? S1' F1]; inversion S2 as [|? ? S2' F2]; subst.
      assert (Hab : a = b).
      { assert (Ha : In a (b :: l2)).
        { apply (count_occ_In Z.eq_dec). rewrite <- H. cbn [count_occ].
          destruct (Z.eq_dec a a); [lia | congruence]. }
        assert (Hb : In b (a :: l1)).
        { apply (count_occ_In Z.eq_dec). rewrite H. cbn [count_occ].
          destruct (Z.eq_dec b b); [lia | congruence]. }
        rewrite Forall_forall in F1, F2.
        destruct Ha as [Ha|Ha]; [auto|]. destruct Hb as [Hb|Hb]; [auto|].
        specialize (F2 _ Ha). specialize (F1 _ Hb). lia. }
      subst b. f_equal. apply IH; auto. intros h. specialize (H h). cbn [count_occ] in H.
      destruct (Z.eq_dec a h); lia.
Qed.

Lemma filter_inj_le1 : forall (f : Z -> Z) (h : Z) l, NoDup l ->
  (forall a b, In a l -> In b l -> f a = f b -> a = b) ->
  (length (filter (fun i => Z.eqb (f i) h) l) <= 1)%nat.
Proof.
  induction l as [|a l IH]; intros ND Hinj; cbn [filter]; [cbn; lia|].
  inversion ND as [|? ? Hnotin ND']; subst.
  destruct (f a =? h) eqn:E.
  - destruct (filter (fun i => f i =? h) l) as [|b t] eqn:F; [cbn; lia|]. exfalso.
    assert (Hb : In b (filter (fun i => f i =? h) l)) by (rewrite F; left; reflexivity).
    apply filter_In in Hb. destruct Hb as [Hb Eb]. apply Z.eqb_eq in E, Eb.
    apply Hnotin. assert (a = b) by (apply Hinj; [left; reflexivity | right; exact Hb | congruence]).
    subst. exact Hb.
  - apply IH; auto. intros x y Hx Hy. apply Hinj; right; assumption.
Qed.

Lemma indices_nodup : forall r, NoDup (indices r).
Proof.
  intros r. unfold indices. apply Injective_map_NoDup; [|apply seq_NoDup].
  intros a b. apply Nat2Z.inj.
Qed.

(* ---- cyclic successor ------------------------------------------------------------ *)
(* k is the first element of P that is >= hp, or the least element of P if there is none *)
Definition is_succ (P : Z -> Prop) (hp k : Z) : Prop :=
  P k /\ ((hp <= k /\ forall k', P k' -> hp <= k' -> k <= k') \/
          ((forall k', P k' -> k' < hp) /\ forall k', P k' -> k <= k')).

Lemma is_succ_unique : forall P hp k1 k2, is_succ P hp k1 -> is_succ P hp k2 -> k1 = k2.
Proof.
  intros P hp k1 k2 [P1 [[A1 B1]|[A1 B1]]] [P2 [[A2 B2]|[A2 B2]]].
  - pose proof (B1 _ P2 A2). pose proof (B2 _ P1 A1). lia.
  - specialize (A2 _ P1). lia.
  - specialize (A1 _ P2). lia.
  - pose proof (B1 _ P2). pose proof (B2 _ P1). lia.
Qed.

(* the successor in a superset, if it lies in the subset, is the successor in the subset *)
Lemma is_succ_mono : forall (P P' : Z -> Prop) hp k,
  (forall k, P k -> P' k) -> is_succ P' hp k -> P k -> is_succ P hp k.
Proof.
  intros P P' hp k Hsub [_ [[A B]|[A B]]] Pk; (split; [exact Pk|]).
  - left. split; [exact A|]. intros k' Hk' Hle. apply B; auto.
  - right. split; intros k' Hk'; [apply A | apply B]; auto.
Qed.

Lemma is_succ_ext : forall (P P' : Z -> Prop) hp k,
  (forall k, P k <-> P' k) -> is_succ P hp k -> is_succ P' hp k.
Proof.
  intros P P' hp k E [Pk [[A B]|[A B]]]; split; [apply E; exact Pk | | apply E; exact Pk |].
  - left. split; auto. intros k' Hk'. apply B. apply E. exact Hk'.
  - right. split; intros k' Hk'; [apply A | apply B]; apply E; exact Hk'.
Qed.

Fixpoint first_ge (hp : Z) (l : list Z) : option Z :=
  match l with
  | [] => None
  | k :: l' => if hp <=? k then Some k else first_ge hp l'
  end.

Lemma search_first_ge_some : forall hp l k d, first_ge hp l = Some k ->
  (search hp l < length l)%nat /\ nth (search hp l) l d = k.
Proof.
  induction l as [|a l IH]; intros k d H; cbn [first_ge search] in *; [discriminate|].
  destruct (hp <=? a).
  - inversion H; subst. cbn. split; [lia | reflexivity].
  - destruct (IH k d H) as [H1 H2]. cbn [length nth]. split; [lia | exact H2].
Qed.

Lemma search_first_ge_none : forall hp l, first_ge hp l = None -> search hp l = length l.
Proof.
  induction l as [|a l IH]; intros H; cbn [first_ge search] in *; auto.
  destruct (hp <=? a); [discriminate|]. cbn [length]. f_equal. auto.
Qed.

Lemma first_ge_some_spec : forall hp l k, sorted l -> first_ge hp l = Some k ->
  In k l /\ hp <= k /\ forall k', In k' l -> hp <= k' -> k <= k'.
Proof.
  induction l as [|a l IH]; intros k S H; cbn [first_ge] in H; [discriminate|].
  inversion S as [|? ? S' F]; subst. destruct (hp <=? a) eqn:E.
  - inversion H; subst. apply Z.leb_le in E. split; [left; reflexivity|]. split; auto.
    intros k' [->|Hk'] _; [lia|]. rewrite Forall_forall in F. apply F; auto.
  - apply Z.leb_gt in E. destruct (IH k S' H) as (I & L & M). split; [right; exact I|]. split; auto.
    intros k' [<-|Hk'] Hle; [lia|]. auto.
Qed.

Lemma first_ge_none_spec : forall hp l k', first_ge hp l = None -> In k' l -> k' < hp.
Proof.
  induction l as [|a l IH]; intros k' H Hin; cbn [first_ge] in H; [contradiction|].
  destruct (hp <=? a) eqn:E; [discriminate|]. apply Z.leb_gt in E.
  destruct Hin as [<-|Hin]; [lia | auto].
Qed.

(* what Get computes on the sorted keys is the cyclic successor *)
Lemma nth_search_succ : forall l hp d, sorted l -> l <> [] ->
  is_succ (fun k => In k l) hp (nth (Nat.modulo (search hp l) (length l)) l d).
Proof.
  intros l hp d S Hne. destruct (first_ge hp l) as [k|] eqn:F.
  - destruct (search_first_ge_some hp l k d F) as [Hlt Hn].
    rewrite Nat.mod_small by exact Hlt. rewrite Hn.
    destruct (first_ge_some_spec hp l k S F) as (I & L & M).
    split; [exact I|]. left. split; auto.
  - rewrite (search_first_ge_none _ _ F).
    rewrite Nat.mod_same by (destruct l; [congruence | discriminate]).
    destruct l as [|a l]; [congruence|]. cbn [nth].
    inversion S as [|? ? S' Fa]; subst. split; [left; reflexivity|]. right. split.
    + intros k' Hk'. eapply first_ge_none_spec; eauto.
    + intros k' [<-|Hk']; [lia|]. rewrite Forall_forall in Fa. apply Fa; auto.
Qed.

Section WithHash.
Variable vh : Z -> Z -> Z.
Variable R : Z.

Notation Inv := (Inv vh R).

(* ---- exact effect of Remove and AddWithReplicas on buckets and the node set -------- *)
Lemma remove_bucket_iff : forall n s h x, Inv s ->
  (In x (bucket h (ring (remove vh R n s))) <-> In x (bucket h (ring s)) /\ nrepr x <> n).
Proof.
  intros n s h x Hinv.
  destruct (remove_inv vh R n s Hinv) as (_ & _ & _ & Rclean & Rold).
  split; [intros H; split; [exact (Rold _ _ H) | exact (Rclean _ _ H)]|].
  intros [Hin Hne]. unfold remove. destruct (mem n (nodes s)); [|exact Hin].
  cbn [ring].
  destruct (remove_fold vh R n (indices R) s (fun i Hi => proj1 (in_indices R i) Hi) Hinv) as (_ & _ & B).
  rewrite B. destruct (existsb _ _); [|exact Hin].
  apply filter_In. split; [exact Hin|]. unfold keep, has_repr.
  apply negb_true_iff, Z.eqb_neq. exact Hne.
Qed.

Lemma remove_bucket_length : forall n s h, Inv s ->
  (length (bucket h (ring (remove vh R n s))) <= length (bucket h (ring s)))%nat.
Proof.
  intros n s h Hinv. unfold remove. destruct (mem n (nodes s)); [|lia]. cbn [ring].
  destruct (remove_fold vh R n (indices R) s (fun i Hi => proj1 (in_indices R i) Hi) Hinv) as (_ & _ & B).
  rewrite B. destruct (existsb _ _); [apply filter_length_le | lia].
Qed.

Lemma remove_nodes_iff : forall n s y, Inv s ->
  (In y (nodes (remove vh R n s)) <-> In y (nodes s) /\ y <> n).
Proof.
  intros n s y Hinv. unfold remove. destruct (mem n (nodes s)) eqn:Hm.
  - cbn [nodes].
    destruct (remove_fold vh R n (indices R) s (fun i Hi => proj1 (in_indices R i) Hi) Hinv) as (_ & N & _).
    rewrite del_in, N. tauto.
  - split; [|tauto]. intros Hy. split; [exact Hy|]. intros ->. apply mem_in in Hy. congruence.
Qed.

Lemma add_vnode_bucket : forall x s i h,
  bucket h (ring (add_vnode vh x s i)) =
  if h =? vh (nrepr x) i then bucket h (ring s) ++ [x] else bucket h (ring s).
Proof.
  intros x s i h. unfold add_vnode. cbn [ring]. rewrite bucket_set.
  destruct (h =? vh (nrepr x) i) eqn:E; [|reflexivity]. apply Z.eqb_eq in E. subst h. reflexivity.
Qed.

Lemma add_fold_bucket : forall x idxs s h,
  bucket h (ring (fold_left (add_vnode vh x) idxs s)) =
  bucket h (ring s) ++ map (fun _ => x) (filter (fun i => Z.eqb (vh (nrepr x) i) h) idxs).
Proof.
  induction idxs as [|i idxs IH]; intros s h; cbn [fold_left filter map].
  - rewrite app_nil_r. reflexivity.
  - rewrite IH, add_vnode_bucket. rewrite (Z.eqb_sym (vh (nrepr x) i) h).
    destruct (h =? vh (nrepr x) i); cbn [map]; [rewrite <- app_assoc|]; reflexivity.
Qed.

Definition eff (r : Z) : Z := if R <? r then R else r.

Lemma add_bucket_eq : forall x r s h,
  bucket h (ring (add_with_replicas vh R x r s)) =
  bucket h (ring (remove vh R (nrepr x) s)) ++
  map (fun _ => x) (filter (fun i => Z.eqb (vh (nrepr x) i) h) (indices (eff r))).
Proof.
  intros x r s h. unfold add_with_replicas. cbn [ring]. rewrite add_fold_bucket. reflexivity.
Qed.

Lemma add_bucket_iff : forall x r s h y, Inv s ->
  (In y (bucket h (ring (add_with_replicas vh R x r s))) <->
   (In y (bucket h (ring s)) /\ nrepr y <> nrepr x) \/
   (y = x /\ exists i, 0 <= i < eff r /\ vh (nrepr x) i = h)).
Proof.
  intros x r s h y Hinv. rewrite add_bucket_eq, in_app_iff, (remove_bucket_iff _ _ _ _ Hinv), in_map_iff.
  split; (intros [H|H]; [left; exact H | right]).
  - destruct H as [i [<- Hi]]. apply filter_In in Hi. destruct Hi as [Hi E].
    split; [reflexivity|]. exists i. split; [apply in_indices; exact Hi | apply Z.eqb_eq; exact E].
  - destruct H as [-> [i [Hi E]]]. exists i. split; [reflexivity|]. apply filter_In.
    split; [apply in_indices; exact Hi | apply Z.eqb_eq; exact E].
Qed.

Lemma fold_add_nodes : forall x idxs s, nodes (fold_left (add_vnode vh x) idxs s) = nodes s.
Proof. induction idxs as [|i idxs IH]; intros s; cbn [fold_left]; [reflexivity|]. rewrite IH. reflexivity. Qed.

Lemma add_nodes_iff : forall x r s y, Inv s ->
  (In y (nodes (add_with_replicas vh R x r s)) <-> In y (nodes s) \/ y = nrepr x).
Proof.
  intros x r s y Hinv. unfold add_with_replicas. cbn [nodes]. rewrite fold_add_nodes. cbn [nodes].
  pose proof (remove_nodes_iff (nrepr x) s y Hinv) as Hr.
  destruct (mem (nrepr x) (nodes (remove vh R (nrepr x) s))) eqn:Hm.
  - apply mem_in in Hm. apply (remove_nodes_iff (nrepr x) s (nrepr x) Hinv) in Hm. tauto.
  - rewrite in_app_iff, Hr. cbn [In]. destruct (Z.eq_dec y (nrepr x)); intuition.
Qed.

(* an operation on node n leaves the ring entries of every other node alone *)
Lemma step_others_unchanged : forall s o h z, Inv s ->
  nrepr z <> nrepr (op_node o) ->
  (In z (bucket h (ring (step vh R s o))) <-> In z (bucket h (ring s))).
Proof.
  intros s o h z Hinv Hne.
  assert (Hadd : forall x r, nrepr z <> nrepr x ->
            (In z (bucket h (ring (add_with_replicas vh R x r s))) <-> In z (bucket h (ring s)))).
  { intros x r Hz. rewrite (add_bucket_iff x r s h z Hinv). split; [|tauto].
    intros [[H _]|[-> _]]; [exact H | congruence]. }
  destruct o as [x|x r|x w|x]; cbn [step op_node] in *; try (apply Hadd; exact Hne).
  rewrite (remove_bucket_iff _ _ _ _ Hinv). tauto.
Qed.

(* ---- Get as the owner of the successor key ------------------------------------------- *)
Lemma inv_keys_nonempty : forall s, Inv s -> ring s <> [] -> keys s <> [].
Proof.
  intros s [Hs Hc Hn He] Hr Hk. destruct (ring s) as [|[k0 b0] r]; [congruence|].
  specialize (Hc k0). rewrite Hk in Hc. cbn in Hc. rewrite Z.eqb_refl in Hc.
  inversion Hn as [|? ? Hb0 _]; subst. cbn in Hb0. destruct b0; [congruence | discriminate].
Qed.

Lemma bucket_key : forall s k x, Inv s -> In x (bucket k (ring s)) -> In k (keys s).
Proof.
  intros s k x Hinv Hx. apply (count_occ_In Z.eq_dec). rewrite (inv_cnt _ _ _ Hinv).
  destruct (bucket k (ring s)); [contradiction | cbn; lia].
Qed.

Lemma key_bucket : forall s k, Inv s -> In k (keys s) -> exists x, In x (bucket k (ring s)).
Proof.
  intros s k Hinv Hk. apply (count_occ_In Z.eq_dec) in Hk. rewrite (inv_cnt _ _ _ Hinv) in Hk.
  destruct (bucket k (ring s)) as [|x b]; [cbn in Hk; lia|]. exists x. left. reflexivity.
Qed.

Lemma bucket_ring_nonempty : forall s k x, In x (bucket k (ring s)) -> ring s <> [].
Proof. intros s k x Hx E. rewrite E in Hx. exact Hx. Qed.

Lemma pick_some_in : forall b ihp x, pick b ihp = GSome x -> In x b.
Proof.
  intros b ihp x H. destruct b as [|a b]; [discriminate|].
  destruct (pick_in (a :: b) ihp) as [y [Hy Hp]]; [discriminate|].
  rewrite Hp in H. inversion H; subst. exact Hy.
Qed.

Lemma get_unfold_ne : forall s hp ihp, ring s <> [] -> get s hp ihp = get_ne s hp ihp.
Proof. intros s hp ihp Hr. rewrite get_unfold. destruct (ring s); [congruence | reflexivity]. Qed.

Lemma get_succ : forall s hp ihp x, Inv s -> get s hp ihp = GSome x ->
  exists k, is_succ (fun k => In k (keys s)) hp k /\ In x (bucket k (ring s)).
Proof.
  intros s hp ihp x Hinv Hg.
  assert (Hr : ring s <> []).
  { intros E. rewrite get_unfold, E in Hg. discriminate. }
  rewrite (get_unfold_ne s hp ihp Hr) in Hg.
  pose proof (inv_keys_nonempty s Hinv Hr) as Hk.
  destruct (get_ne_unfold s hp ihp Hk) as [k1 Hu]. rewrite Hu in Hg.
  eexists. split; [apply nth_search_succ; [exact (inv_sorted _ _ _ Hinv) | exact Hk]|].
  eapply pick_some_in. exact Hg.
Qed.

(* ---- the disruption lemma -------------------------------------------------------------
   if two ring states agree on the entries of every node other than n, a key's answer
   changes only from n or to n *)
Lemma move_lemma : forall s s' n hp ihp,
  Inv s -> Inv s' -> (forall h, (length (bucket h (ring s)) <= 1)%nat) ->
  (forall h z, nrepr z <> n -> (In z (bucket h (ring s')) <-> In z (bucket h (ring s)))) ->
  get s' hp ihp = get s hp ihp \/
  (exists y, get s hp ihp = GSome y /\ nrepr y = n) \/
  (exists x', get s' hp ihp = GSome x' /\ nrepr x' = n).
Proof.
  intros s s' n hp ihp Hinv Hinv' Hle Hsame.
  destruct (get_inv vh R s hp ihp Hinv) as (NP & NoneIff & _).
  destruct (get_inv vh R s' hp ihp Hinv') as (NP' & NoneIff' & _).
  destruct (get s' hp ihp) as [|x'|] eqn:G'; [| |congruence];
    (destruct (get s hp ihp) as [|y|] eqn:G; [| |congruence]).
  - left. reflexivity.
  - destruct (Z.eq_dec (nrepr y) n) as [E|E]; [right; left; exists y; auto|]. exfalso.
    destruct (get_succ s hp ihp y Hinv G) as [k [_ Hy]].
    apply (Hsame k y E) in Hy. apply bucket_ring_nonempty in Hy. apply Hy. apply NoneIff'. reflexivity.
  - destruct (Z.eq_dec (nrepr x') n) as [E|E]; [right; right; exists x'; auto|]. exfalso.
    destruct (get_succ s' hp ihp x' Hinv' G') as [k [_ Hx]].
    apply (Hsame k x' E) in Hx. apply bucket_ring_nonempty in Hx. apply Hx. apply NoneIff. reflexivity.
  - destruct (Z.eq_dec (nrepr x') n) as [E'|E']; [right; right; exists x'; auto|].
    destruct (Z.eq_dec (nrepr y) n) as [E|E]; [right; left; exists y; auto|].
    left. f_equal.
    destruct (get_succ s hp ihp y Hinv G) as [k [Sk Hy]].
    destruct (get_succ s' hp ihp x' Hinv' G') as [k' [Sk' Hx]].
    set (K0 := fun h => exists z, nrepr z <> n /\ In z (bucket h (ring s))).
    assert (H0 : forall h, K0 h -> In h (keys s)).
    { intros h [z [_ Hz]]. eapply bucket_key; eauto. }
    assert (H0' : forall h, K0 h -> In h (keys s')).
    { intros h [z [Hz1 Hz]]. apply (Hsame h z Hz1) in Hz. eapply bucket_key; eauto. }
    assert (Kk : K0 k) by (exists y; auto).
    assert (Kk' : K0 k') by (exists x'; split; [exact E' | apply (Hsame k' x' E'); exact Hx]).
    pose proof (is_succ_mono K0 _ hp k H0 Sk Kk) as S1.
    pose proof (is_succ_mono K0 _ hp k' H0' Sk' Kk') as S2.
    pose proof (is_succ_unique _ _ _ _ S1 S2) as Ek. subst k'.
    apply (Hsame k x' E') in Hx. exact (le1_in_eq _ _ _ (Hle k) Hx Hy).
Qed.

(* ---- collision-freeness on the universe of nodes in use ------------------------------- *)
Variable U : Z -> Prop.      (* the reprs the histories may mention *)
Definition collision_free_on : Prop :=
  forall n n' i i', U n -> U n' -> 0 <= i < R -> 0 <= i' < R ->
    vh n i = vh n' i' -> n = n' /\ i = i'.
Hypothesis cf : collision_free_on.

Definition op_in_U (o : op) : Prop := U (nrepr (op_node o)).
Definition ops_in_U (ops : list op) : Prop := Forall op_in_U ops.

(* the node map of Check.v: repr |-> (effective replicas, value) *)
Fixpoint alookup (n : Z) (m : amap) : option (Z * Z) :=
  match m with
  | [] => None
  | (k, rv) :: m' => if k =? n then Some rv else alookup n m'
  end.

Lemma alookup_del : forall n m n', alookup n' (a_del n m) = if n' =? n then None else alookup n' m.
Proof.
  unfold a_del. induction m as [|[k rv] m IH]; intros n'; cbn [filter alookup fst].
  - destruct (n' =? n); reflexivity.
  - destruct (k =? n) eqn:E; cbn [negb alookup].
    + rewrite IH. apply Z.eqb_eq in E. subst k. rewrite (Z.eqb_sym n n').
      destruct (n' =? n); reflexivity.
    + rewrite IH. destruct (k =? n') eqn:E2; [|reflexivity].
      apply Z.eqb_eq in E2. subst k. rewrite E. reflexivity.
Qed.

Lemma alookup_app : forall n m1 m2,
  alookup n (m1 ++ m2) = match alookup n m1 with Some v => Some v | None => alookup n m2 end.
Proof.
  induction m1 as [|[k rv] m1 IH]; intros m2; cbn [app alookup]; [reflexivity|].
  destruct (k =? n); [reflexivity | apply IH].
Qed.

Lemma alookup_set : forall n rv m n',
  alookup n' (a_set n rv m) = if n' =? n then Some rv else alookup n' m.
Proof.
  intros n rv m n'. unfold a_set. rewrite alookup_app, alookup_del. cbn [alookup].
  rewrite (Z.eqb_sym n n'). destruct (n' =? n); [reflexivity|].
  destruct (alookup n' m); reflexivity.
Qed.

(* x is the value of a node of the map, and h one of its live virtual-node hashes *)
Definition Live (m : amap) (x : node) (h : Z) : Prop :=
  exists r i, alookup (nrepr x) m = Some (r, nval x) /\ 0 <= i < r /\ h = vh (nrepr x) i.

(* the ring is the canonical image of the node map *)
Record Canon (s : state) (m : amap) : Prop := mkCanon
  { can_inv : Inv s;
    can_live : forall h x, In x (bucket h (ring s)) <-> Live m x h;
    can_nodes : forall n, In n (nodes s) <-> alookup n m <> None;
    can_le1 : forall h, (length (bucket h (ring s)) <= 1)%nat;
    can_U : forall n, In n (nodes s) -> U n }.

Lemma canon_init : Canon init [].
Proof.
  split; cbn; try (intros; lia); try apply inv_init.
  - intros h x. split; [contradiction|]. intros (r & i & H & _). discriminate.
  - intros n. split; [contradiction | congruence].
Qed.

Lemma canon_remove : forall s m n, Canon s m -> Canon (remove vh R n s) (a_del n m).
Proof.
  intros s m n [Hinv Hlive Hnodes Hle HU].
  destruct (remove_inv vh R n s Hinv) as (Hinv' & _).
  split; [exact Hinv' | | | |].
  - intros h x. rewrite (remove_bucket_iff n s h x Hinv), Hlive. unfold Live.
    split.
    + intros [(r & i & A & B & C) Hne]. exists r, i. rewrite alookup_del.
      apply Z.eqb_neq in Hne. rewrite Hne. auto.
    + intros (r & i & A & B & C). rewrite alookup_del in A.
      destruct (nrepr x =? n) eqn:E; [discriminate|]. apply Z.eqb_neq in E.
      split; [exists r, i; auto | exact E].
  - intros y. rewrite (remove_nodes_iff n s y Hinv), Hnodes, alookup_del.
    destruct (y =? n) eqn:E.
    + apply Z.eqb_eq in E. split; [intros [_ H]; congruence | congruence].
    + apply Z.eqb_neq in E. tauto.
  - intros h. pose proof (remove_bucket_length n s h Hinv). specialize (Hle h). lia.
  - intros y Hy. apply (remove_nodes_iff n s y Hinv) in Hy. apply HU. tauto.
Qed.

Lemma eff_clamp : forall r i, 0 <= i < eff r <-> 0 <= i < clamp R r.
Proof. intros r i. unfold eff, clamp. destruct (R <? r) eqn:E; [apply Z.ltb_lt in E | apply Z.ltb_ge in E]; lia. Qed.

Lemma eff_le_R : forall r i, 0 <= i < eff r -> 0 <= i < R.
Proof. intros r i. unfold eff. destruct (R <? r) eqn:E; [apply Z.ltb_lt in E | apply Z.ltb_ge in E]; lia. Qed.

Lemma canon_add : forall s m x r, U (nrepr x) -> Canon s m ->
  Canon (add_with_replicas vh R x r s) (a_set (nrepr x) (clamp R r, nval x) m).
Proof.
  intros s m x r Ux [Hinv Hlive Hnodes Hle HU].
  destruct (add_inv vh R x r s Hinv) as (Hinv' & _).
  split; [exact Hinv' | | | |].
  - intros h y. rewrite (add_bucket_iff x r s h y Hinv), Hlive. unfold Live. split.
    + intros [[(r0 & i & A & B & C) Hne] | [-> (i & Hi & E)]].
      * exists r0, i. rewrite alookup_set. apply Z.eqb_neq in Hne. rewrite Hne. auto.
      * exists (clamp R r), i. rewrite alookup_set, Z.eqb_refl.
        split; [reflexivity|]. split; [apply eff_clamp; exact Hi | symmetry; exact E].
    + intros (r0 & i & A & B & C). rewrite alookup_set in A.
      destruct (nrepr y =? nrepr x) eqn:E.
      * apply Z.eqb_eq in E. inversion A; subst r0. right.
        split; [destruct y, x; cbn in *; congruence|].
        exists i. split; [apply eff_clamp; exact B | rewrite <- E; symmetry; exact C].
      * apply Z.eqb_neq in E. left. split; [exists r0, i; auto | exact E].
  - intros y. rewrite (add_nodes_iff x r s y Hinv), Hnodes, alookup_set.
    destruct (y =? nrepr x) eqn:E.
    + apply Z.eqb_eq in E. split; [discriminate | auto].
    + apply Z.eqb_neq in E. split; [intros [H|H]; [exact H | congruence] | auto].
  - intros h. rewrite add_bucket_eq, app_length, map_length.
    set (f := filter (fun i => Z.eqb (vh (nrepr x) i) h) (indices (eff r))).
    assert (Hf : (length f <= 1)%nat).
    { apply filter_inj_le1; [apply indices_nodup|].
      intros a b Ha Hb E. apply in_indices in Ha, Hb.
      exact (proj2 (cf _ _ _ _ Ux Ux (eff_le_R _ _ Ha) (eff_le_R _ _ Hb) E)). }
    pose proof (remove_bucket_length (nrepr x) s h Hinv) as Hrl. specialize (Hle h).
    destruct f as [|i f'] eqn:Ef; [cbn [length]; lia|].
    (* a virtual node of x lands on h: no other node can sit there *)
    assert (Hi : In i (filter (fun i => Z.eqb (vh (nrepr x) i) h) (indices (eff r)))).
    { fold f. rewrite Ef. left. reflexivity. }
    apply filter_In in Hi. destruct Hi as [Hi E]. apply in_indices in Hi. apply Z.eqb_eq in E.
    destruct (bucket h (ring (remove vh R (nrepr x) s))) as [|y b] eqn:Eb; [cbn [length] in *; lia|].
    exfalso.
    assert (Hy : In y (bucket h (ring (remove vh R (nrepr x) s)))) by (rewrite Eb; left; reflexivity).
    apply (remove_bucket_iff (nrepr x) s h y Hinv) in Hy. destruct Hy as [Hy Hne].
    destruct (inv_entries _ _ _ Hinv _ _ Hy) as [Hn [j [Hj Ej]]].
    apply Hne. apply (cf (nrepr y) (nrepr x) j i); auto; [exact (eff_le_R _ _ Hi) | congruence].
  - intros y Hy. apply (add_nodes_iff x r s y Hinv) in Hy. destruct Hy as [Hy | ->]; auto.
Qed.

Definition amap_run (ops : list op) : amap := fold_left (a_step R) ops [].

Lemma canon_step : forall s m o, op_in_U o -> Canon s m -> Canon (step vh R s o) (a_step R m o).
Proof.
  intros s m o Ho Hc. destruct o as [x|x r|x w|x]; cbn [step a_step]; unfold op_in_U in Ho; cbn [op_node] in Ho.
  - apply canon_add; assumption.
  - apply canon_add; assumption.
  - apply canon_add; assumption.
  - apply canon_remove; assumption.
Qed.

Lemma canon_fold : forall ops s m, ops_in_U ops -> Canon s m ->
  Canon (fold_left (step vh R) ops s) (fold_left (a_step R) ops m).
Proof.
  induction ops as [|o ops IH]; intros s m Hu Hc; cbn [fold_left]; [exact Hc|].
  inversion Hu; subst. apply IH; [assumption | apply canon_step; assumption].
Qed.

Lemma canon_run : forall ops, ops_in_U ops -> Canon (run vh R ops) (amap_run ops).
Proof. intros ops Hu. apply canon_fold; [exact Hu | apply canon_init]. Qed.

(* ---- history independence ------------------------------------------------------------- *)
Lemma canon_get_eq : forall s1 m1 s2 m2,
  Canon s1 m1 -> Canon s2 m2 -> (forall n, alookup n m1 = alookup n m2) ->
  keys s1 = keys s2 /\ (forall h, bucket h (ring s1) = bucket h (ring s2)) /\
  forall hp ihp, get s1 hp ihp = get s2 hp ihp.
Proof.
  intros s1 m1 s2 m2 [I1 L1 N1 Le1 _] [I2 L2 N2 Le2 _] Hm.
  assert (Hb : forall h, bucket h (ring s1) = bucket h (ring s2)).
  { intros h. apply le1_eq; auto. intros x. rewrite L1, L2. unfold Live.
    split; intros (r & i & A & B); exists r, i; (split; [|exact B]); [rewrite <- Hm | rewrite Hm]; exact A. }
  assert (Hk : keys s1 = keys s2).
  { apply sorted_cnt_eq; [exact (inv_sorted _ _ _ I1) | exact (inv_sorted _ _ _ I2)|].
    intros h. rewrite (inv_cnt _ _ _ I1), (inv_cnt _ _ _ I2), Hb. reflexivity. }
  split; [exact Hk|]. split; [exact Hb|].
  intros hp ihp.
  assert (Hempty : forall s, Inv s -> (ring s = [] <-> keys s = [])).
  { intros s I. split.
    - intros E. destruct (keys s) as [|a l] eqn:Ek; [reflexivity|]. exfalso.
      pose proof (inv_cnt _ _ _ I a) as Hc. rewrite E, Ek in Hc. cbn [count_occ bucket length] in Hc.
      destruct (Z.eq_dec a a); [discriminate | congruence].
    - intros E. destruct (nil_or _ (ring s)) as [Er|Er]; [exact Er|].
      exfalso. exact (inv_keys_nonempty s I Er E). }
  destruct (nil_or _ (ring s1)) as [E1|E1].
  - assert (E2 : ring s2 = []).
    { apply (Hempty s2 I2). rewrite <- Hk. apply (Hempty s1 I1). exact E1. }
    rewrite !get_unfold, E1, E2. reflexivity.
  - assert (E2 : ring s2 <> []).
    { intros E. apply E1. apply (Hempty s1 I1). rewrite Hk. apply (Hempty s2 I2). exact E. }
    rewrite (get_unfold_ne s1 hp ihp E1), (get_unfold_ne s2 hp ihp E2).
    unfold get_ne. rewrite Hk. destruct (keys s2); [reflexivity|]. rewrite Hb. reflexivity.
Qed.

Lemma history_independent_l : forall ops1 ops2,
  ops_in_U ops1 -> ops_in_U ops2 ->
  (forall n, alookup n (amap_run ops1) = alookup n (amap_run ops2)) ->
  keys (run vh R ops1) = keys (run vh R ops2) /\
  (forall h, bucket h (ring (run vh R ops1)) = bucket h (ring (run vh R ops2))) /\
  forall hp ihp, get (run vh R ops1) hp ihp = get (run vh R ops2) hp ihp.
Proof.
  intros ops1 ops2 U1 U2 Hm. eapply canon_get_eq; [apply canon_run; exact U1 | apply canon_run; exact U2 | exact Hm].
Qed.

(* Get as a function of the node map alone: the owner of the cyclic successor, among the
   live virtual-node hashes, of the key's hash *)
Definition live_hash (m : amap) (h : Z) : Prop := exists z, Live m z h.

Lemma get_is_successor_owner_l : forall ops hp ihp,
  ops_in_U ops ->
  let m := amap_run ops in
  (forall x, get (run vh R ops) hp ihp = GSome x <->
             exists k, Live m x k /\ is_succ (live_hash m) hp k) /\
  (get (run vh R ops) hp ihp = GNone <-> forall h, ~ live_hash m h).
Proof.
  intros ops hp ihp Hu m. destruct (canon_run ops Hu) as [I L N Le _]. fold m in L.
  set (s := run vh R ops) in *.
  assert (Hkeys : forall h, In h (keys s) <-> live_hash m h).
  { intros h. split.
    - intros Hk. destruct (key_bucket s h I Hk) as [x Hx]. exists x. apply L. exact Hx.
    - intros [x Hx]. apply L in Hx. eapply bucket_key; eauto. }
  destruct (get_inv vh R s hp ihp I) as (NP & NoneIff & _).
  assert (Hfwd : forall x, get s hp ihp = GSome x -> exists k, Live m x k /\ is_succ (live_hash m) hp k).
  { intros x G. destruct (get_succ s hp ihp x I G) as [k [Sk Hx]]. exists k.
    split; [apply L; exact Hx|]. eapply is_succ_ext; [|exact Sk]. exact Hkeys. }
  split.
  - intros x. split; [apply Hfwd|].
    intros [k [Lx Sk]]. apply L in Lx.
    destruct (get s hp ihp) as [|x'|] eqn:G; [| |congruence].
    + exfalso. apply (bucket_ring_nonempty _ _ _ Lx). apply NoneIff. reflexivity.
    + destruct (Hfwd x' eq_refl) as [k' [Lx' Sk']].
      pose proof (is_succ_unique _ _ _ _ Sk Sk'). subst k'. apply L in Lx'.
      f_equal. exact (le1_in_eq _ _ _ (Le k) Lx' Lx).
  - rewrite NoneIff. split.
    + intros E h [z Hz]. apply L in Hz. rewrite E in Hz. exact Hz.
    + intros Hno. destruct (nil_or _ (ring s)) as [E|E]; [exact E|]. exfalso.
      pose proof (inv_keys_nonempty s I E) as Hk.
      assert (Hex : exists a, In a (keys s)).
      { destruct (keys s) as [|a l]; [congruence | exists a; left; reflexivity]. }
      destruct Hex as [a Ha]. apply (Hno a). apply Hkeys. exact Ha.
Qed.

(* ---- minimal disruption ----------------------------------------------------------------- *)
Lemma op_moves_only_its_node_l : forall ops o hp ihp,
  ops_in_U ops ->
  let s := run vh R ops in
  get (step vh R s o) hp ihp = get s hp ihp \/
  (exists y, get s hp ihp = GSome y /\ nrepr y = nrepr (op_node o)) \/
  (exists x', get (step vh R s o) hp ihp = GSome x' /\ nrepr x' = nrepr (op_node o)).
Proof.
  intros ops o hp ihp Hu s. destruct (canon_run ops Hu) as [I _ _ Le _]. fold s in I, Le.
  apply move_lemma; [exact I | apply step_inv; exact I | exact Le|].
  intros h z Hz. apply step_others_unchanged; assumption.
Qed.

Lemma add_moves_only_to_new_l : forall ops o hp ihp,
  ops_in_U ops -> is_add o = true ->
  let s := run vh R ops in
  ~ In (nrepr (op_node o)) (nodes s) ->
  get (step vh R s o) hp ihp = get s hp ihp \/ get (step vh R s o) hp ihp = GSome (op_node o).
Proof.
  intros ops o hp ihp Hu Ha s Hnew.
  pose proof (run_inv vh R ops) as I. fold s in I.
  pose proof (op_moves_only_its_node_l ops o hp ihp Hu) as M. cbv zeta in M. fold s in M.
  destruct M as [H | [[y [G E]] | [x' [G E]]]].
  - left. exact H.
  - exfalso. destruct (get_inv vh R s hp ihp I) as (_ & _ & Hs). destruct (Hs y G) as [Hn _].
    rewrite E in Hn. exact (Hnew Hn).
  - right. rewrite G. f_equal.
    destruct (get_inv vh R _ hp ihp (step_inv vh R s o I)) as (_ & _ & Hs).
    destruct (Hs x' G) as [_ [h [_ Hx]]].
    assert (Hadd : forall x r, nrepr x' = nrepr x ->
              In x' (bucket h (ring (add_with_replicas vh R x r s))) -> x' = x).
    { intros x r Ex Hin. apply (add_bucket_iff x r s h x' I) in Hin.
      destruct Hin as [[_ Hne] | [-> _]]; [congruence | reflexivity]. }
    destruct o as [x|x r|x w|x]; cbn [step op_node is_add] in *; try discriminate; eapply Hadd; eauto.
Qed.

Lemma remove_moves_only_from_removed_l : forall ops x hp ihp y,
  ops_in_U ops ->
  let s := run vh R ops in
  get s hp ihp = GSome y -> nrepr y <> nrepr x ->
  get (step vh R s (ORemove x)) hp ihp = GSome y.
Proof.
  intros ops x hp ihp y Hu s G Hne.
  pose proof (run_inv vh R ops) as I. fold s in I.
  pose proof (op_moves_only_its_node_l ops (ORemove x) hp ihp Hu) as M. cbv zeta in M. fold s in M.
  destruct M as [H | [[y' [G' E]] | [x' [G' E]]]].
  - rewrite H. exact G.
  - rewrite G in G'. inversion G'; subst y'. cbn [op_node] in E. congruence.
  - exfalso. cbn [step op_node] in *.
    destruct (remove_inv vh R (nrepr x) s I) as (I' & _ & _ & Rclean & _).
    destruct (get_inv vh R _ hp ihp I') as (_ & _ & Hs). destruct (Hs x' G') as [_ [h [_ Hx]]].
    exact (Rclean _ _ Hx E).
Qed.

Lemma readd_moves_only_to_or_from_it_l : forall ops o hp ihp,
  ops_in_U ops -> is_add o = true ->
  let s := run vh R ops in
  get (step vh R s o) hp ihp = get s hp ihp \/
  (exists y, get s hp ihp = GSome y /\ nrepr y = nrepr (op_node o)) \/
  get (step vh R s o) hp ihp = GSome (op_node o).
Proof.
  intros ops o hp ihp Hu Ha s.
  pose proof (run_inv vh R ops) as I. fold s in I.
  pose proof (op_moves_only_its_node_l ops o hp ihp Hu) as M. cbv zeta in M. fold s in M.
  destruct M as [H | [H | [x' [G E]]]]; auto.
  right. right. rewrite G. f_equal.
  destruct (get_inv vh R _ hp ihp (step_inv vh R s o I)) as (_ & _ & Hs).
  destruct (Hs x' G) as [_ [h [_ Hx]]].
  assert (Hadd : forall x r, nrepr x' = nrepr x ->
            In x' (bucket h (ring (add_with_replicas vh R x r s))) -> x' = x).
  { intros x r Ex Hin. apply (add_bucket_iff x r s h x' I) in Hin.
    destruct Hin as [[_ Hne] | [-> _]]; [congruence | reflexivity]. }
  destruct o as [x|x r|x w|x]; cbn [step op_node is_add] in *; try discriminate; eapply Hadd; eauto.
Qed.

End WithHash.

(* ---- reflection: the boolean evaluated on every harness table implies the hypothesis ---- *)
Lemma insert_z_eq : forall x l, insert_z x l = insert x l.
Proof. induction l as [|y l IH]; cbn [insert_z insert]; [reflexivity|]. rewrite IH. reflexivity. Qed.

Lemma sort_z_eq : forall l, sort_z l = sort l.
Proof.
  unfold sort_z, sort. induction l as [|x l IH]; cbn [fold_right]; [reflexivity|].
  rewrite IH. apply insert_z_eq.
Qed.

Lemma nodup_sorted_spec : forall l, sorted l -> nodup_sorted l = true -> NoDup l.
Proof.
  induction l as [|x l IH]; intros S H; [constructor|].
  inversion S as [|? ? S' F]; subst. destruct l as [|y l'].
  - constructor; [intros [] | constructor].
  - cbn [nodup_sorted] in H. apply andb_true_iff in H. destruct H as [Hxy H].
    apply negb_true_iff, Z.eqb_neq in Hxy. constructor; [|apply IH; assumption].
    intros Hin. inversion S' as [|? ? _ Fy]; subst. rewrite Forall_forall in F, Fy.
    destruct Hin as [->|Hin]; [congruence|].
    pose proof (F y (or_introl eq_refl)). pose proof (Fy x Hin). lia.
Qed.

Lemma nodup_sorted_sort : forall l, nodup_sorted (sort_z l) = true -> NoDup l.
Proof.
  intros l H. rewrite sort_z_eq in H. apply nodup_sorted_spec in H; [|apply sort_sorted].
  apply (NoDup_count_occ Z.eq_dec). intros x. rewrite <- sort_cnt.
  apply (NoDup_count_occ Z.eq_dec). exact H.
Qed.

Lemma nodup_app_disjoint : forall (l1 l2 : list Z) x, NoDup (l1 ++ l2) -> In x l1 -> In x l2 -> False.
Proof.
  induction l1 as [|a l1 IH]; intros l2 x ND H1 H2; [contradiction|].
  cbn [app] in ND. inversion ND as [|? ? Hn ND']; subst. destruct H1 as [->|H1].
  - apply Hn. apply in_or_app. right. exact H2.
  - exact (IH _ _ ND' H1 H2).
Qed.

Lemma nodup_app_parts : forall (l1 l2 : list Z), NoDup (l1 ++ l2) -> NoDup l1 /\ NoDup l2.
Proof.
  induction l1 as [|a l1 IH]; intros l2 ND; cbn [app] in ND; [split; [constructor | exact ND]|].
  inversion ND as [|? ? Hn ND']; subst. destruct (IH _ ND') as [N1 N2]. split; [|exact N2].
  constructor; [|exact N1]. intros Hin. apply Hn. apply in_or_app. left. exact Hin.
Qed.

Lemma row_in_flat : forall t n i, (i < length (row n t))%nat ->
  In (nth i (row n t) 0) (flat_map snd t).
Proof.
  induction t as [|[k r] t IH]; intros n i Hi; cbn [row] in *; [cbn in Hi; lia|].
  cbn [flat_map snd]. apply in_or_app. destruct (k =? n); [left; apply nth_In; exact Hi | right; apply IH; exact Hi].
Qed.

Lemma row_length : forall t R n,
  forallb (fun kr : Z * list Z => Z.of_nat (length (snd kr)) =? R) t = true ->
  In n (map fst t) -> Z.of_nat (length (row n t)) = R.
Proof.
  induction t as [|[k r] t IH]; intros R n H Hin; [contradiction|].
  cbn [forallb snd] in H. apply andb_true_iff in H. destruct H as [Hr H].
  cbn [row]. destruct (k =? n) eqn:E; [apply Z.eqb_eq; exact Hr|].
  apply IH; [exact H|]. destruct Hin as [Hin|Hin]; [|exact Hin]. cbn in Hin. apply Z.eqb_neq in E. congruence.
Qed.

Lemma table_inj : forall t n n' i i',
  NoDup (flat_map snd t) ->
  (i < length (row n t))%nat -> (i' < length (row n' t))%nat ->
  nth i (row n t) 0 = nth i' (row n' t) 0 ->
  In n (map fst t) -> In n' (map fst t) -> NoDup (map fst t) -> n = n' /\ i = i'.
Proof.
  induction t as [|[k r] t IH]; intros n n' i i' ND Hi Hi' E Hn Hn' NK; [contradiction|].
  cbn [flat_map snd] in ND. cbn [map fst] in NK, Hn, Hn'. inversion NK as [|? ? Hk NK']; subst.
  cbn [row] in *. destruct (k =? n) eqn:E1; destruct (k =? n') eqn:E2.
  - apply Z.eqb_eq in E1, E2. subst. split; [reflexivity|].
    apply nodup_app_parts in ND. destruct ND as [ND _]. rewrite (NoDup_nth r 0) in ND. apply (ND i i' Hi Hi' E).
  - exfalso. apply (nodup_app_disjoint r (flat_map snd t) (nth i r 0) ND); [apply nth_In; exact Hi|].
    rewrite E. apply row_in_flat. exact Hi'.
  - exfalso. apply (nodup_app_disjoint r (flat_map snd t) (nth i' r 0) ND); [apply nth_In; exact Hi'|].
    rewrite <- E. apply row_in_flat. exact Hi.
  - apply Z.eqb_neq in E1, E2.
    apply (IH n n' i i'); auto; [apply nodup_app_parts in ND; tauto | |].
    + destruct Hn as [Hn|Hn]; [congruence | exact Hn].
    + destruct Hn' as [Hn'|Hn']; [congruence | exact Hn'].
Qed.

(* Check.prop_ok evaluates [collision_free t && table_ok t R] on the table of every case;
   when it is true, the hypothesis of the collision-free theorems holds for the hash the
   model is run with ([vh_of t]) on the universe of that case. *)
Lemma collision_free_spec_l : forall t R,
  collision_free t = true -> table_ok t R = true ->
  collision_free_on (vh_of t) R (fun n => In n (map fst t)).
Proof.
  intros t R Hcf Hok. unfold collision_free in Hcf. apply nodup_sorted_sort in Hcf.
  unfold table_ok in Hok. apply andb_true_iff in Hok. destruct Hok as [Hk Hlen].
  apply nodup_sorted_sort in Hk.
  intros n n' i i' Hn Hn' Hi Hi' E. unfold vh_of in E.
  pose proof (row_length t R n Hlen Hn) as L. pose proof (row_length t R n' Hlen Hn') as L'.
  destruct (table_inj t n n' (Z.to_nat i) (Z.to_nat i') Hcf) as [En Ei]; auto; try lia.
Qed.
