(* C15 — consistent hashing: executable model of core/hash/consistenthash.go
   (NewCustomConsistentHash / Add / AddWithReplicas / AddWithWeight / Get / Remove /
   removeRingNode).  No proofs in this file.

   The hash function is a parameter: [vh n i] is hashFunc(repr(node) + itoa(i)) for
   the node whose repr is [n]; a lookup key is given by the two hashes the code
   computes for it, hashFunc(repr(v)) and hashFunc(innerRepr(v)).  The harness
   supplies these numbers (computed with the real hash.Hash or the injected Func).

   Data refinement w.r.t. the Go code (checked by the correspondence run):
   - [keys]  is h.keys ([]uint64, duplicates allowed);
   - [ring]  is h.ring (map[uint64][]any) as an association list without empty
             buckets; a node value is (repr id, value id): two values with the same
             repr (the int 1 and the string "1") are different values of one node;
   - [nodes] is h.nodes (set of reprs) as a duplicate-free list;
   - sort.Search on h.keys is "index of the first key >= hash" (keys are sorted
     whenever it is used);
   - Remove is modelled WITH the repair pending/C15-remove-foreign-keys.diff: one key is
     dropped per ring entry actually removed.  The pinned algorithm is in Pinned.v. *)
From Coq Require Import List ZArith Bool.
Import ListNotations.
Open Scope Z_scope.

Record node := mkNode { nrepr : Z; nval : Z }.

Record state := mkState
  { keys : list Z;
    ring : list (Z * list node);
    nodes : list Z }.

Inductive op :=
| OAdd (n : node)               (* Add(node) *)
| OAddR (n : node) (r : Z)      (* AddWithReplicas(node, r) *)
| OAddW (n : node) (w : Z)      (* AddWithWeight(node, w) *)
| ORemove (n : node).           (* Remove(node) *)

Inductive gres := GNone | GSome (n : node) | GPanic.

Definition init : state := mkState [] [] [].

(* ---- list helpers ----------------------------------------------------------- *)
Fixpoint insert (x : Z) (l : list Z) : list Z :=
  match l with
  | [] => [x]
  | y :: l' => if x <=? y then x :: l else y :: insert x l'
  end.
Definition sort (l : list Z) : list Z := fold_right insert [] l.

(* sort.Search(len(keys), func(i) bool { return keys[i] >= h }) on sorted keys *)
Fixpoint search (h : Z) (l : list Z) : nat :=
  match l with
  | [] => 0%nat
  | k :: l' => if h <=? k then 0%nat else S (search h l')
  end.

(* keys = append(keys[:index], keys[index+1:]...) if keys[index] == h *)
Fixpoint remove_one (h : Z) (l : list Z) : list Z :=
  match l with
  | [] => []
  | k :: l' => if h <=? k then (if k =? h then l' else l) else k :: remove_one h l'
  end.

Fixpoint remove_n (c : nat) (h : Z) (l : list Z) : list Z :=
  match c with
  | O => l
  | S c' => remove_n c' h (remove_one h l)
  end.

Fixpoint bucket (h : Z) (r : list (Z * list node)) : list node :=
  match r with
  | [] => []
  | (k, b) :: r' => if k =? h then b else bucket h r'
  end.

(* delete(h.ring, hash) *)
Definition drop_bucket (h : Z) (r : list (Z * list node)) : list (Z * list node) :=
  filter (fun kb => negb (fst kb =? h)) r.

(* h.ring[hash] = b  (b non-empty) *)
Fixpoint set_bucket (h : Z) (b : list node) (r : list (Z * list node)) : list (Z * list node) :=
  match r with
  | [] => [(h, b)]
  | (k, b') :: r' => if k =? h then (k, b) :: r' else (k, b') :: set_bucket h b r'
  end.

Definition has_repr (n : Z) (x : node) : bool := nrepr x =? n.
Definition mem (n : Z) (l : list Z) : bool := existsb (Z.eqb n) l.
Definition del (n : Z) (l : list Z) : list Z := filter (fun x => negb (x =? n)) l.

(* Go's int (64 bits, two's complement): the value an arithmetic result wraps to *)
Definition wrap64 (z : Z) : Z := (z + 9223372036854775808) mod 18446744073709551616 - 9223372036854775808.

Section WithHash.
(* vh n i = hashFunc([]byte(repr + strconv.Itoa(i))) for the node with repr id n *)
Variable vh : Z -> Z -> Z.
(* h.replicas (>= minReplicas) *)
Variable R : Z.

(* the indices 0 .. r-1 (empty when r <= 0) *)
Definition indices (r : Z) : list Z := map Z.of_nat (seq 0 (Z.to_nat r)).

(* removeRingNode(hash, repr) + the repaired key deletion, for one virtual index *)
Definition remove_vnode (n : Z) (s : state) (i : Z) : state :=
  let h := vh n i in
  let b := bucket h (ring s) in
  let b' := filter (fun x => negb (has_repr n x)) b in
  let removed := (length b - length b')%nat in
  let ring' := match b with
               | [] => ring s                           (* no such slot *)
               | _ => match b' with
                      | [] => drop_bucket h (ring s)
                      | _ => set_bucket h b' (ring s)
                      end
               end in
  mkState (remove_n removed h (keys s)) ring' (nodes s).

(* Remove(node) *)
Definition remove (n : Z) (s : state) : state :=
  if mem n (nodes s) then
    let s' := fold_left (remove_vnode n) (indices R) s in
    mkState (keys s') (ring s') (del n (nodes s'))
  else s.

(* one iteration of the loop of AddWithReplicas *)
Definition add_vnode (x : node) (s : state) (i : Z) : state :=
  let h := vh (nrepr x) i in
  mkState (keys s ++ [h]) (set_bucket h (bucket h (ring s) ++ [x]) (ring s)) (nodes s).

(* AddWithReplicas(node, replicas) *)
Definition add_with_replicas (x : node) (r : Z) (s : state) : state :=
  let s1 := remove (nrepr x) s in
  let r' := if R <? r then R else r in
  let s2 := mkState (keys s1) (ring s1)
                    (if mem (nrepr x) (nodes s1) then nodes s1 else nodes s1 ++ [nrepr x]) in
  let s3 := fold_left (add_vnode x) (indices r') s2 in
  mkState (sort (keys s3)) (ring s3) (nodes s3).

Definition step (s : state) (o : op) : state :=
  match o with
  | OAdd x => add_with_replicas x R s
  | OAddR x r => add_with_replicas x r s
  | OAddW x w => add_with_replicas x (Z.quot (wrap64 (R * w)) 100) s
      (* h.replicas * weight / TopWeight on Go's 64-bit int: the product wraps, the division truncates *)
  | ORemove x => remove (nrepr x) s
  end.

Definition run (ops : list op) : state := fold_left step ops init.

(* Get(v): [hp] = hashFunc(repr(v)), [ihp] = hashFunc(innerRepr(v)) *)
Definition get (s : state) (hp ihp : Z) : gres :=
  match ring s with
  | [] => GNone                                        (* len(h.ring) == 0 *)
  | _ =>
    match keys s with
    | [] => GPanic                                     (* % len(h.keys): integer divide by zero *)
    | k0 :: _ =>
      let idx := Nat.modulo (search hp (keys s)) (length (keys s)) in
      let b := bucket (nth idx (keys s) k0) (ring s) in
      match b with
      | [] => GNone
      | [x] => GSome x
      | x :: _ => GSome (nth (Z.to_nat (ihp mod Z.of_nat (length b))) b x)
      end
    end
  end.

End WithHash.
