(* C15 — node identity: executable model of core/lang/lang.go [Repr] (the ring's [repr]) and of
   consistenthash.go [innerRepr] (fmt.Sprintf("%d:%v", prime, node)), on the kinds of values the
   harness builds.  Texts are byte lists.  No proofs in this file.

   Repr(v): nil -> ""; a fmt.Stringer -> String(); otherwise pointers are dereferenced and the value is
   printed by kind: bool -> true/false, error -> Error(), floats -> strconv 'f' with the shortest
   round-trip digits, Stringer -> String(), integers -> decimal, string and []byte -> the text,
   anything else -> fmt.Sprint. *)
From Coq Require Import List ZArith Bool.
Import ListNotations.
Open Scope Z_scope.

Inductive gval :=
| VNil                                   (* nil *)
| VBool (b : bool)
| VInt (z : Z)                           (* int, int8 .. int64, uint, uint8 .. uint64: the number *)
| VFloat (neg : bool) (ip fp : list Z)   (* float32 / float64 whose shortest round-trip decimal text is
                                            [-]ip[.fp] (digit bytes; ip without leading zeros, fp without
                                            trailing zeros, possibly empty) *)
| VInf (neg : bool) | VNaN
| VStr (s : list Z)                      (* string *)
| VBytes (s : list Z)                    (* []byte *)
| VStringer (s : list Z)                 (* a value whose method set has String(): T or *T *)
| VPPStringer (s : list Z)               (* **T, T a Stringer: not a Stringer itself; dereferenced to T *)
| VErrPtr (s : list Z)                   (* *errors.errorString: Error() on the pointer only; dereferenced
                                            to the struct {s}, printed by fmt.Sprint *)
| VErrVal (s : list Z)                   (* *E, E an error with a value receiver: dereferenced to an error *)
| VPair (a : Z) (s : list Z)             (* struct{A int; B string}: fmt.Sprint -> {A B} *)
| VPtrInt (z : Z)                        (* *int *)
| VPPStr (s : list Z)                    (* **string *)
| VNilPtr                                (* a typed nil pointer: not nil, not dereferenced; fmt.Sprint -> <nil> *)
| VErrStr (s : list Z)                   (* a value that is an error (Error() = "E:"s) AND a Stringer (String() =
                                            "S:"s): handed over itself, Repr asks String() first *)
| VPPErrStr (s : list Z).                (* **T of the same T: dereferenced; reprOfValue tests error first *)

(* decimal digits of n >= 0, most significant first; [fuel] digits at most (40: beyond any 64-bit value) *)
Fixpoint dec_digits (fuel : nat) (n : Z) (acc : list Z) : list Z :=
  match fuel with
  | O => acc
  | S f => let acc' := (48 + n mod 10) :: acc in
           if n <? 10 then acc' else dec_digits f (n / 10) acc'
  end.
Definition dec (z : Z) : list Z :=
  if z <? 0 then 45 :: dec_digits 40 (- z) [] else dec_digits 40 z [].

Definition t_true : list Z := [116; 114; 117; 101].
Definition t_false : list Z := [102; 97; 108; 115; 101].
Definition t_nil : list Z := [60; 110; 105; 108; 62].          (* <nil> *)
Definition t_nan : list Z := [78; 97; 78].
Definition t_inf (neg : bool) : list Z := (if neg then 45 else 43) :: [73; 110; 102].

Definition float_text (neg : bool) (ip fp : list Z) : list Z :=
  (if neg then [45] else []) ++ ip ++ match fp with [] => [] | _ => 46 :: fp end.

(* lang.Repr *)
Definition repr_model (v : gval) : list Z :=
  match v with
  | VNil => []
  | VBool b => if b then t_true else t_false
  | VInt z | VPtrInt z => dec z
  | VFloat neg ip fp => float_text neg ip fp
  | VInf neg => t_inf neg
  | VNaN => t_nan
  | VStr s | VBytes s | VStringer s | VPPStringer s | VErrVal s | VPPStr s => s
  | VErrPtr s => [123] ++ s ++ [125]
  | VPair a s => [123] ++ dec a ++ [32] ++ s ++ [125]
  | VNilPtr => t_nil
  | VErrStr s => 83 :: 58 :: s
  | VPPErrStr s => 69 :: 58 :: s
  end.

(* %v of a float is %g with the shortest digits: exponent form when the decimal exponent is < -4 or
   >= 6 (strconv: "precision 6 for this decision") — outside the modelled domain *)
Fixpoint leading_zeros (l : list Z) : Z :=
  match l with 48 :: l' => 1 + leading_zeros l' | _ => 0 end.
Definition plain_g (ip fp : list Z) : bool :=
  match ip with
  | [48] => match fp with [] => true | _ => leading_zeros fp <? 4 end
  | _ => Z.of_nat (length ip) <=? 6
  end.

Fixpoint bytes_list (s : list Z) : list Z :=       (* [97 98] *)
  match s with
  | [] => []
  | [b] => dec b
  | b :: s' => dec b ++ 32 :: bytes_list s'
  end.

(* fmt's %v; None: the text is an address (pointer kinds without a usable method) or out of domain *)
Definition v_model (v : gval) : option (list Z) :=
  match v with
  | VNil => Some t_nil
  | VBool b => Some (if b then t_true else t_false)
  | VInt z => Some (dec z)
  | VFloat neg ip fp => if plain_g ip fp then Some (float_text neg ip fp) else None
  | VInf neg => Some (t_inf neg)
  | VNaN => Some t_nan
  | VStr s | VStringer s | VErrPtr s | VErrVal s => Some s
  | VBytes s => Some ([91] ++ bytes_list s ++ [93])
  | VPair a s => Some ([123] ++ dec a ++ [32] ++ s ++ [125])
  | VNilPtr => Some t_nil
  | VErrStr s => Some (69 :: 58 :: s)                 (* fmt prefers Error() *)
  | VPPStringer _ | VPtrInt _ | VPPStr _ | VPPErrStr _ => None
  end.

(* innerRepr(node) = fmt.Sprintf("%d:%v", prime, node) *)
Definition inner_model (prime : Z) (v : gval) : option (list Z) :=
  match v_model v with Some s => Some (dec prime ++ 58 :: s) | None => None end.
