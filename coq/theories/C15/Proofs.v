(* C15 — invariants of the ring model and the theorems that need no hypothesis on
   the hash function. *)
From Coq Require Import List ZArith Bool Lia Sorted Arith.
From GZ Require Import C15.Model.
Import ListNotations.
Open Scope Z_scope.

Notation cnt := (count_occ Z.eq_dec).

(* ---- association list ------------------------------------------------------- *)
Lemma bucket_set : forall r h b h',
  bucket h' (set_bucket h b r) = if h' =? h then b else bucket h' r.
Proof.
  induction r as [|[k b0] r IH]; intros h b h'; cbn [bucket set_bucket].
  - rewrite (Z.eqb_sym h h'). destruct (h' =? h); reflexivity.
  - destruct (k =? h) eqn:E; cbn [bucket].
    + apply Z.eqb_eq in E. subst k. rewrite (Z.eqb_sym h h'). destruct (h' =? h); reflexivity.
    + rewrite IH. destruct (k =? h') eqn:E2; [|reflexivity].
      apply Z.eqb_eq in E2. subst k. rewrite E. reflexivity.
Qed.

Lemma bucket_drop : forall r h h',
  bucket h' (drop_bucket h r) = if h' =? h then [] else bucket h' r.
Proof.
  unfold drop_bucket. induction r as [|[k b0] r IH]; intros h h'; cbn [bucket filter fst].
  - destruct (h' =? h); reflexivity.
  - destruct (k =? h) eqn:E; cbn [negb bucket].
    + rewrite IH. apply Z.eqb_eq in E. subst k. rewrite (Z.eqb_sym h h').
      destruct (h' =? h); reflexivity.
    + rewrite IH. destruct (k =? h') eqn:E2; [|reflexivity].
      apply Z.eqb_eq in E2. subst k. rewrite E. reflexivity.
Qed.

Definition nonempty_buckets (r : list (Z * list node)) : Prop :=
  Forall (fun kb : Z * list node => snd kb <> []) r.

Lemma nonempty_set : forall r h b, b <> [] -> nonempty_buckets r -> nonempty_buckets (set_bucket h b r).
Proof.
  unfold nonempty_buckets. induction r as [|[k b0] r IH]; intros h b Hb Hr; cbn.
  - constructor; auto.
  - inversion Hr; subst. destruct (k =? h); constructor; auto.
Qed.

Lemma nonempty_drop : forall r h, nonempty_buckets r -> nonempty_buckets (drop_bucket h r).
Proof.
  unfold nonempty_buckets, drop_bucket. intros r h Hr. rewrite Forall_forall in *.
  intros x Hx. apply filter_In in Hx. apply Hr. tauto.
Qed.

(* ---- sorted keys ------------------------------------------------------------- *)
Notation sorted := (StronglySorted Z.le).

Lemma insert_in : forall x l y, In y (insert x l) <-> y = x \/ In y l.
Proof.
  induction l as [|a l IH]; intros y; cbn.
  - intuition.
  - destruct (x <=? a); cbn; [intuition|]. rewrite IH. intuition.
Qed.

Lemma insert_sorted : forall x l, sorted l -> sorted (insert x l).
Proof.
  induction l as [|a l IH]; intros Hs; cbn.
  - constructor; constructor.
  - inversion Hs as [|? ? Hs' Ha]; subst. destruct (x <=? a) eqn:E.
    + apply Z.leb_le in E. constructor; auto. constructor; auto.
      eapply Forall_impl; [|exact Ha]. intros; lia.
    + apply Z.leb_gt in E. constructor; auto. apply Forall_forall. intros y Hy.
      apply insert_in in Hy. destruct Hy as [-> | Hy]; [lia|].
      rewrite Forall_forall in Ha. auto.
Qed.

Lemma insert_cnt : forall x l h, cnt (insert x l) h = cnt (x :: l) h.
Proof.
  induction l as [|a l IH]; intros h; [reflexivity|].
  cbn [insert]. destruct (x <=? a); [reflexivity|].
  cbn [count_occ]. rewrite IH. cbn [count_occ].
  destruct (Z.eq_dec a h); destruct (Z.eq_dec x h); reflexivity.
Qed.

Lemma sort_sorted : forall l, sorted (sort l).
Proof. induction l; cbn; [constructor | apply insert_sorted; auto]. Qed.

Lemma sort_cnt : forall l h, cnt (sort l) h = cnt l h.
Proof.
  induction l as [|a l IH]; intros h; [reflexivity|].
  cbn [sort fold_right]. fold (sort l). rewrite insert_cnt. cbn [count_occ]. rewrite IH. reflexivity.
Qed.

Lemma cnt_zero_above : forall l h, sorted l -> (forall k, In k l -> h < k) -> cnt l h = 0%nat.
Proof.
  intros l h _ H. apply count_occ_not_In. intros Hin. specialize (H _ Hin). lia.
Qed.

Lemma remove_one_spec : forall h l, sorted l ->
  sorted (remove_one h l) /\
  (forall h', cnt (remove_one h l) h' = if Z.eq_dec h' h then pred (cnt l h) else cnt l h').
Proof.
  induction l as [|k l IH]; intros Hs.
  - cbn. split; [constructor|]. intros h'. destruct (Z.eq_dec h' h); reflexivity.
  - inversion Hs as [|? ? Hs' Hk]; subst. cbn [remove_one].
    destruct (h <=? k) eqn:E.
    + apply Z.leb_le in E. destruct (k =? h) eqn:E2.
      * apply Z.eqb_eq in E2. subst k. split; [exact Hs'|]. intros h'. cbn [count_occ].
        destruct (Z.eq_dec h' h) as [->|Hne].
        -- destruct (Z.eq_dec h h); [reflexivity | congruence].
        -- destruct (Z.eq_dec h h'); [congruence | reflexivity].
      * apply Z.eqb_neq in E2. split; [exact Hs|]. intros h'.
        destruct (Z.eq_dec h' h); [|reflexivity]. subst h'.
        assert (Hz : cnt (k :: l) h = 0%nat).
        { apply count_occ_not_In. intros [Hin | Hin]; [lia|].
          rewrite Forall_forall in Hk. specialize (Hk _ Hin). lia. }
        rewrite Hz. reflexivity.
    + apply Z.leb_gt in E. destruct (IH Hs') as [IHs IHc]. split.
      * constructor; auto. apply Forall_forall. intros y Hy.
        assert (Hin : In y l).
        { destruct (in_dec Z.eq_dec y l) as [Hi|Hn]; auto. exfalso.
          apply (count_occ_not_In Z.eq_dec) in Hn.
          assert (Hpos : (cnt (remove_one h l) y > 0)%nat) by (apply count_occ_In; exact Hy).
          rewrite IHc in Hpos. destruct (Z.eq_dec y h) as [->|Hne]; lia. }
        rewrite Forall_forall in Hk. auto.
      * intros h'. cbn [count_occ]. rewrite IHc.
        destruct (Z.eq_dec k h'); destruct (Z.eq_dec h' h); try reflexivity; try lia.
        destruct (Z.eq_dec k h); [lia | reflexivity].
Qed.

Lemma remove_n_spec : forall c h l, sorted l ->
  sorted (remove_n c h l) /\
  (forall h', cnt (remove_n c h l) h' = if Z.eq_dec h' h then (cnt l h - c)%nat else cnt l h').
Proof.
  induction c as [|c IH]; intros h l Hs; cbn [remove_n].
  - split; auto. intros h'. destruct (Z.eq_dec h' h); [subst; lia | reflexivity].
  - destruct (remove_one_spec h l Hs) as [Hs1 Hc1]. destruct (IH h _ Hs1) as [Hs2 Hc2].
    split; auto. intros h'. rewrite Hc2. destruct (Z.eq_dec h' h).
    + rewrite Hc1. destruct (Z.eq_dec h h); [lia | congruence].
    + rewrite Hc1. destruct (Z.eq_dec h' h); [congruence | reflexivity].
Qed.

Lemma in_indices : forall r i, In i (indices r) <-> 0 <= i < r.
Proof.
  intros r i. unfold indices. rewrite in_map_iff. split.
  - intros [k [<- Hk]]. apply in_seq in Hk. lia.
  - intros Hi. exists (Z.to_nat i). split; [lia|]. apply in_seq. lia.
Qed.

Lemma filter_length_le : forall A (f : A -> bool) l, (length (filter f l) <= length l)%nat.
Proof. induction l; cbn; [lia | destruct (f a); cbn; lia]. Qed.

Section WithHash.
Variable vh : Z -> Z -> Z.
Variable R : Z.

(* ---- the invariant ------------------------------------------------------------
   one key per ring entry; no empty bucket; every ring entry belongs to a node of the
   node set and sits at one of its R virtual-node hashes *)
Record Inv (s : state) : Prop := mkInv
  { inv_sorted : sorted (keys s);
    inv_cnt : forall h, cnt (keys s) h = length (bucket h (ring s));
    inv_nonempty : nonempty_buckets (ring s);
    inv_entries : forall h x, In x (bucket h (ring s)) ->
                    In (nrepr x) (nodes s) /\ exists i, 0 <= i < R /\ vh (nrepr x) i = h }.

(* the same, while AddWithReplicas appends unsorted keys *)
Record Inv0 (s : state) : Prop := mkInv0
  { inv0_cnt : forall h, cnt (keys s) h = length (bucket h (ring s));
    inv0_nonempty : nonempty_buckets (ring s);
    inv0_entries : forall h x, In x (bucket h (ring s)) ->
                     In (nrepr x) (nodes s) /\ exists i, 0 <= i < R /\ vh (nrepr x) i = h }.

Lemma inv_init : Inv init.
Proof. split; cbn; try constructor; intros; try reflexivity; contradiction. Qed.

Definition keep (n : Z) (x : node) : bool := negb (has_repr n x).

(* ---- Remove ------------------------------------------------------------------ *)
Lemma remove_vnode_bucket : forall n s i h',
  bucket h' (ring (remove_vnode vh n s i)) =
  if h' =? vh n i then filter (keep n) (bucket h' (ring s)) else bucket h' (ring s).
Proof.
  intros n s i h'. unfold remove_vnode. cbn [ring]. fold (keep n).
  set (h := vh n i). destruct (bucket h (ring s)) as [|x0 b0] eqn:Hb.
  - destruct (h' =? h) eqn:E; [|reflexivity]. apply Z.eqb_eq in E. subst h'. rewrite Hb. reflexivity.
  - destruct (filter (keep n) (x0 :: b0)) as [|y0 b1] eqn:Hf.
    + rewrite bucket_drop. destruct (h' =? h) eqn:E; [|reflexivity].
      apply Z.eqb_eq in E. subst h'. rewrite Hb, Hf. reflexivity.
    + rewrite bucket_set. destruct (h' =? h) eqn:E; [|reflexivity].
      apply Z.eqb_eq in E. subst h'. rewrite Hb, Hf. reflexivity.
Qed.

Lemma remove_vnode_inv : forall n s i, 0 <= i < R -> Inv s -> Inv (remove_vnode vh n s i).
Proof.
  intros n s i Hi [Hs Hc Hn He].
  pose proof (remove_vnode_bucket n s i) as Hb.
  set (h := vh n i) in *.
  assert (Hk : keys (remove_vnode vh n s i) =
               remove_n (length (bucket h (ring s)) - length (filter (keep n) (bucket h (ring s)))) h (keys s))
    by reflexivity.
  destruct (remove_n_spec (length (bucket h (ring s)) - length (filter (keep n) (bucket h (ring s)))) h _ Hs)
    as [Hs' Hc'].
  split.
  - rewrite Hk. exact Hs'.
  - intros h'. rewrite Hk, Hc', Hb. destruct (Z.eq_dec h' h) as [->|Hne].
    + rewrite Z.eqb_refl, Hc.
      pose proof (filter_length_le _ (keep n) (bucket h (ring s))). lia.
    + apply Z.eqb_neq in Hne. rewrite Hne. apply Hc.
  - unfold remove_vnode. cbn [ring]. fold (keep n). fold h.
    destruct (bucket h (ring s)); [exact Hn|].
    destruct (filter (keep n) (n0 :: l)) eqn:Hf; [apply nonempty_drop; exact Hn|].
    apply nonempty_set; [discriminate | exact Hn].
  - intros h' x Hx. rewrite Hb in Hx.
    assert (Hin : In x (bucket h' (ring s))).
    { destruct (h' =? h); [apply filter_In in Hx; tauto | exact Hx]. }
    exact (He _ _ Hin).
Qed.

Lemma remove_fold : forall n idxs s,
  (forall i, In i idxs -> 0 <= i < R) -> Inv s ->
  let s' := fold_left (remove_vnode vh n) idxs s in
  Inv s' /\ nodes s' = nodes s /\
  forall h, bucket h (ring s') =
            if existsb (fun i => vh n i =? h) idxs then filter (keep n) (bucket h (ring s))
            else bucket h (ring s).
Proof.
  induction idxs as [|i idxs IH]; intros s Hidx Hinv; cbn [fold_left].
  - cbn. auto.
  - assert (Hi : 0 <= i < R) by (apply Hidx; left; reflexivity).
    pose proof (remove_vnode_inv n s i Hi Hinv) as Hinv1.
    destruct (IH (remove_vnode vh n s i) (fun j Hj => Hidx j (or_intror Hj)) Hinv1) as (I & N & B).
    split; [exact I|]. split; [rewrite N; reflexivity|].
    intros h. rewrite B, remove_vnode_bucket. cbn [existsb].
    rewrite (Z.eqb_sym (vh n i) h).
    destruct (h =? vh n i); cbn [orb].
    + destruct (existsb (fun i0 => vh n i0 =? h) idxs); [|reflexivity].
      clear. induction (bucket h (ring s)) as [|x b IHb]; [reflexivity|].
      cbn. destruct (keep n x) eqn:E; cbn; rewrite ?E, IHb; reflexivity.
    + reflexivity.
Qed.

Lemma mem_in : forall n l, mem n l = true <-> In n l.
Proof.
  intros n l. unfold mem. rewrite existsb_exists. split.
  - intros [x [Hx E]]. apply Z.eqb_eq in E. subst. exact Hx.
  - intros H. exists n. split; [exact H | apply Z.eqb_refl].
Qed.

Lemma del_in : forall n l y, In y (del n l) <-> In y l /\ y <> n.
Proof.
  intros n l y. unfold del. rewrite filter_In. split; intros [H1 H2]; split; auto.
  - apply negb_true_iff, Z.eqb_neq in H2. exact H2.
  - apply negb_true_iff, Z.eqb_neq. exact H2.
Qed.

(* Remove keeps the invariant, takes the node out of the node set, and leaves no
   ring entry of that node *)
Lemma remove_inv : forall n s, Inv s ->
  Inv (remove vh R n s) /\ ~ In n (nodes (remove vh R n s)) /\
  (forall y, In y (nodes (remove vh R n s)) -> In y (nodes s)) /\
  (forall h x, In x (bucket h (ring (remove vh R n s))) -> nrepr x <> n) /\
  (forall h x, In x (bucket h (ring (remove vh R n s))) -> In x (bucket h (ring s))).
Proof.
  intros n s Hinv. unfold remove. destruct (mem n (nodes s)) eqn:Hm.
  - destruct (remove_fold n (indices R) s (fun i Hi => proj1 (in_indices R i) Hi) Hinv) as (I & N & B).
    set (s' := fold_left (remove_vnode vh n) (indices R) s) in *.
    assert (Hclean : forall h x, In x (bucket h (ring s')) -> nrepr x <> n).
    { intros h x Hx. rewrite B in Hx.
      destruct (existsb (fun i => vh n i =? h) (indices R)) eqn:Ex.
      - apply filter_In in Hx. destruct Hx as [_ Hk]. unfold keep, has_repr in Hk.
        apply negb_true_iff, Z.eqb_neq in Hk. exact Hk.
      - intros Heq. destruct (inv_entries _ Hinv _ _ Hx) as [_ [i [Hi Hv]]].
        assert (Hex : existsb (fun i => vh n i =? h) (indices R) = true).
        { apply existsb_exists. exists i. split; [apply in_indices; exact Hi|].
          rewrite <- Heq. apply Z.eqb_eq. exact Hv. }
        congruence. }
    destruct I as [Is Ic In_ Ie].
    split; [|split; [|split; [|split]]].
    + split; cbn [keys ring nodes]; auto.
      intros h x Hx. destruct (Ie _ _ Hx) as [Hn Hi]. split; [|exact Hi].
      apply del_in. split; [exact Hn | exact (Hclean _ _ Hx)].
    + cbn [nodes]. intros Hin. apply del_in in Hin. tauto.
    + cbn [nodes]. intros y Hy. apply del_in in Hy. rewrite N in Hy. tauto.
    + cbn [ring]. exact Hclean.
    + cbn [ring]. intros h x Hx. rewrite B in Hx.
      destruct (existsb (fun i => vh n i =? h) (indices R)); [apply filter_In in Hx; tauto | exact Hx].
  - split; [exact Hinv|]. split; [|split; [|split]]; [| | |auto].
    + intros Hin. apply mem_in in Hin. congruence.
    + auto.
    + intros h x Hx Heq. destruct (inv_entries _ Hinv _ _ Hx) as [Hn _].
      rewrite Heq in Hn. apply mem_in in Hn. congruence.
Qed.

(* ---- AddWithReplicas ------------------------------------------------------------ *)
Lemma add_vnode_inv0 : forall x s i,
  0 <= i < R -> In (nrepr x) (nodes s) -> Inv0 s -> Inv0 (add_vnode vh x s i).
Proof.
  intros x s i Hi Hx [Hc Hn He]. unfold add_vnode. set (h := vh (nrepr x) i). split; cbn [keys ring nodes].
  - intros h'. rewrite count_occ_app, bucket_set, Hc. cbn [count_occ].
    destruct (Z.eq_dec h h') as [<-|Hne].
    + rewrite Z.eqb_refl, app_length. cbn. lia.
    + assert (E : h' =? h = false) by (apply Z.eqb_neq; congruence). rewrite E. lia.
  - apply nonempty_set; [|exact Hn]. destruct (bucket h (ring s)); discriminate.
  - intros h' y Hy. rewrite bucket_set in Hy. destruct (h' =? h) eqn:E.
    + apply Z.eqb_eq in E. subst h'. apply in_app_or in Hy. destruct Hy as [Hy | [<- | []]].
      * exact (He _ _ Hy).
      * split; [exact Hx|]. exists i. auto.
    + exact (He _ _ Hy).
Qed.

Lemma add_fold_inv0 : forall x idxs s,
  (forall i, In i idxs -> 0 <= i < R) -> In (nrepr x) (nodes s) -> Inv0 s ->
  let s' := fold_left (add_vnode vh x) idxs s in
  Inv0 s' /\ nodes s' = nodes s /\
  (forall h y, In y (bucket h (ring s')) -> In y (bucket h (ring s)) \/ y = x).
Proof.
  induction idxs as [|i idxs IH]; intros s Hidx Hx Hinv; cbn [fold_left].
  - cbn. auto.
  - assert (Hi : 0 <= i < R) by (apply Hidx; left; reflexivity).
    pose proof (add_vnode_inv0 x s i Hi Hx Hinv) as H1.
    destruct (IH (add_vnode vh x s i) (fun j Hj => Hidx j (or_intror Hj)) Hx H1) as (I & N & B).
    split; [exact I|]. split; [rewrite N; reflexivity|].
    intros h y Hy. destruct (B _ _ Hy) as [Hy' | ->]; [|right; reflexivity].
    unfold add_vnode in Hy'. cbn [ring] in Hy'. rewrite bucket_set in Hy'.
    destruct (h =? vh (nrepr x) i) eqn:E; [|left; exact Hy'].
    apply Z.eqb_eq in E. subst h. apply in_app_or in Hy'. destruct Hy' as [Hy' | [<- | []]]; auto.
Qed.

Lemma add_inv : forall x r s, Inv s ->
  Inv (add_with_replicas vh R x r s) /\
  (forall y, In y (nodes (add_with_replicas vh R x r s)) -> In y (nodes s) \/ y = nrepr x) /\
  (forall h y, In y (bucket h (ring (add_with_replicas vh R x r s))) ->
     (In y (bucket h (ring s)) /\ nrepr y <> nrepr x) \/ y = x).
Proof.
  intros x r s Hinv. unfold add_with_replicas.
  destruct (remove_inv (nrepr x) s Hinv) as ([Rs Rc Rn Re] & Rnot & Rsub & Rclean & Rold).
  set (s1 := remove vh R (nrepr x) s) in *.
  set (r' := if R <? r then R else r).
  set (s2 := mkState (keys s1) (ring s1)
                     (if mem (nrepr x) (nodes s1) then nodes s1 else nodes s1 ++ [nrepr x])).
  assert (Hx2 : In (nrepr x) (nodes s2)).
  { cbn. destruct (mem (nrepr x) (nodes s1)) eqn:E; [apply mem_in; exact E|].
    apply in_or_app. right. left. reflexivity. }
  assert (Hsub2 : forall y, In y (nodes s1) -> In y (nodes s2)).
  { intros y Hy. cbn. destruct (mem (nrepr x) (nodes s1)); [exact Hy | apply in_or_app; left; exact Hy]. }
  assert (H2 : Inv0 s2).
  { split; cbn [keys ring nodes]; auto. intros h y Hy. destruct (Re _ _ Hy) as [Hn Hi]. split; auto. }
  assert (Hidx : forall i, In i (indices r') -> 0 <= i < R).
  { intros i Hi. apply in_indices in Hi. unfold r' in Hi. destruct (R <? r) eqn:E; [lia|].
    apply Z.ltb_ge in E. lia. }
  destruct (add_fold_inv0 x (indices r') s2 Hidx Hx2 H2) as ([Ic In_ Ie] & N & B).
  set (s3 := fold_left (add_vnode vh x) (indices r') s2) in *.
  split; [|split].
  - split; cbn [keys ring nodes].
    + apply sort_sorted.
    + intros h. rewrite sort_cnt. apply Ic.
    + exact In_.
    + exact Ie.
  - cbn [nodes]. intros y Hy. rewrite N in Hy. cbn in Hy.
    destruct (mem (nrepr x) (nodes s1)).
    + left. apply Rsub. exact Hy.
    + apply in_app_or in Hy. destruct Hy as [Hy | [<- | []]]; [left; apply Rsub; exact Hy | right; reflexivity].
  - cbn [ring]. intros h y Hy. destruct (B _ _ Hy) as [Hy' | ->]; [|right; reflexivity].
    left. split; [exact (Rold _ _ Hy') | exact (Rclean _ _ Hy')].
Qed.

Definition op_node (o : op) : node :=
  match o with OAdd x | OAddR x _ | OAddW x _ | ORemove x => x end.
Definition is_add (o : op) : bool :=
  match o with ORemove _ => false | _ => true end.

Lemma step_inv : forall s o, Inv s -> Inv (step vh R s o).
Proof.
  intros s o H. destruct o; cbn [step]; try (apply add_inv; exact H). apply remove_inv; exact H.
Qed.

Lemma run_from_inv : forall ops s, Inv s -> Inv (fold_left (step vh R) ops s).
Proof. induction ops as [|o ops IH]; intros s H; cbn; auto. apply IH, step_inv, H. Qed.

Lemma run_inv : forall ops, Inv (run vh R ops).
Proof. intros ops. apply run_from_inv, inv_init. Qed.

(* ---- Get ---------------------------------------------------------------------- *)
Lemma search_le_length : forall h l, (search h l <= length l)%nat.
Proof. induction l; cbn; [lia | destruct (h <=? a); cbn; lia]. Qed.

Definition pick (b : list node) (ihp : Z) : gres :=
  match b with
  | [] => GNone
  | [x] => GSome x
  | x :: _ => GSome (nth (Z.to_nat (ihp mod Z.of_nat (length b))) b x)
  end.

Lemma pick_in : forall b ihp, b <> [] -> exists y, In y b /\ pick b ihp = GSome y.
Proof.
  intros [|x [|x' b']] ihp Hb; [congruence | |].
  - exists x. split; [left; reflexivity | reflexivity].
  - eexists. split; [|reflexivity]. apply nth_In.
    assert (0 <= ihp mod Z.of_nat (length (x :: x' :: b')) < Z.of_nat (length (x :: x' :: b'))).
    { apply Z.mod_pos_bound. cbn [length]. lia. }
    lia.
Qed.

Definition get_ne (s : state) (hp ihp : Z) : gres :=
  match keys s with
  | [] => GPanic
  | k0 :: _ =>
    pick (bucket (nth (Nat.modulo (search hp (keys s)) (length (keys s))) (keys s) k0) (ring s)) ihp
  end.

Lemma get_unfold : forall s hp ihp,
  get s hp ihp = match ring s with [] => GNone | _ :: _ => get_ne s hp ihp end.
Proof.
  intros s hp ihp. unfold get, get_ne, pick. destruct (ring s); [reflexivity|].
  destruct (keys s); reflexivity.
Qed.

Lemma get_ne_unfold : forall s hp ihp, keys s <> [] ->
  exists k1, get_ne s hp ihp =
    pick (bucket (nth (Nat.modulo (search hp (keys s)) (length (keys s))) (keys s) k1) (ring s)) ihp.
Proof.
  intros s hp ihp Hk. unfold get_ne. destruct (keys s) as [|k1 ks]; [congruence|].
  exists k1. reflexivity.
Qed.

Lemma get_inv : forall s hp ihp, Inv s ->
  get s hp ihp <> GPanic /\
  (get s hp ihp = GNone <-> ring s = []) /\
  (forall x, get s hp ihp = GSome x ->
     In (nrepr x) (nodes s) /\ exists h, In h (keys s) /\ In x (bucket h (ring s))).
Proof.
  intros s hp ihp Hinv.
  assert (Hne : ring s <> [] -> keys s <> []).
  { destruct Hinv as [Hs Hc Hn He]. intros Hr Hk. destruct (ring s) as [|[k0 b0] r]; [congruence|].
    specialize (Hc k0). rewrite Hk in Hc. cbn in Hc. rewrite Z.eqb_refl in Hc.
    inversion Hn as [|? ? Hb0 _]; subst. cbn in Hb0. destruct b0; [congruence | discriminate]. }
  assert (Hcase : ring s = [] \/ (ring s <> [] /\ get s hp ihp = get_ne s hp ihp)).
  { rewrite get_unfold. destruct (ring s); [left; reflexivity | right; split; [discriminate | reflexivity]]. }
  destruct Hcase as [Hr | [Hr Hg]].
  - rewrite get_unfold, Hr. repeat split; try discriminate; auto.
  - rewrite Hg. specialize (Hne Hr). destruct Hinv as [Hs Hc Hn He].
    destruct (get_ne_unfold s hp ihp Hne) as [k1 Hu]. rewrite Hu.
    set (idx := Nat.modulo (search hp (keys s)) (length (keys s))).
    assert (Hlen : (length (keys s) <> 0)%nat) by (destruct (keys s); [congruence | discriminate]).
    assert (Hidx : (idx < length (keys s))%nat) by (apply Nat.mod_upper_bound; exact Hlen).
    set (k := nth idx (keys s) k1).
    assert (Hkin : In k (keys s)) by (apply nth_In; exact Hidx).
    assert (Hb : bucket k (ring s) <> []).
    { intros Hb. specialize (Hc k). rewrite Hb in Hc. cbn in Hc.
      apply (count_occ_In Z.eq_dec) in Hkin. lia. }
    destruct (pick_in _ ihp Hb) as [y [Hy Hp]]. rewrite Hp.
    split; [discriminate|]. split; [split; [discriminate | intros; congruence]|].
    intros z Hz. inversion Hz; subst z. destruct (He _ _ Hy) as [Hnode _].
    split; [exact Hnode|]. exists k. split; [exact Hkin | exact Hy].
Qed.

(* ---- theorems without hypothesis on the hash ---------------------------------- *)
Lemma get_member_only_l : forall ops hp ihp,
  let s := run vh R ops in
  get s hp ihp <> GPanic /\
  (get s hp ihp = GNone <-> ring s = []) /\
  (forall x, get s hp ihp = GSome x ->
     In (nrepr x) (nodes s) /\ exists h, In h (keys s) /\ In x (bucket h (ring s))).
Proof. intros ops hp ihp. apply get_inv, run_inv. Qed.

Lemma nodes_after : forall post s n,
  Inv s -> ~ In n (nodes s) ->
  forallb (fun o => negb (is_add o && (nrepr (op_node o) =? n))) post = true ->
  ~ In n (nodes (fold_left (step vh R) post s)).
Proof.
  induction post as [|o post IH]; intros s n Hinv Hn Hp; cbn [fold_left]; [exact Hn|].
  cbn [forallb] in Hp. apply andb_true_iff in Hp. destruct Hp as [Ho Hp].
  apply IH; [apply step_inv; exact Hinv | | exact Hp].
  intros Hin. apply Hn.
  assert (Hadd : forall x r, In n (nodes (add_with_replicas vh R x r s)) ->
                   negb (true && (nrepr x =? n)) = true -> In n (nodes s)).
  { intros x r Hi Hb. destruct (add_inv x r s Hinv) as (_ & Hsub & _).
    destruct (Hsub _ Hi) as [H1 | H1]; [exact H1|].
    subst n. rewrite Z.eqb_refl in Hb. cbn in Hb. discriminate. }
  destruct o as [x|x r|x w|x]; cbn [step] in Hin; cbn [is_add op_node] in Ho.
  - exact (Hadd _ _ Hin Ho).
  - exact (Hadd _ _ Hin Ho).
  - exact (Hadd _ _ Hin Ho).
  - destruct (remove_inv (nrepr x) s Hinv) as (_ & _ & Hsub & _). exact (Hsub _ Hin).
Qed.

Lemma removed_never_returned_l : forall pre x post hp ihp y,
  forallb (fun o => negb (is_add o && (nrepr (op_node o) =? nrepr x))) post = true ->
  nrepr y = nrepr x ->
  get (run vh R (pre ++ ORemove x :: post)) hp ihp <> GSome y.
Proof.
  intros pre x post hp ihp y Hp Hy Hg. unfold run in Hg. rewrite fold_left_app in Hg. cbn [fold_left] in Hg.
  fold (run vh R pre) in Hg. pose proof (run_inv pre) as Hinv.
  cbn [step] in Hg.
  destruct (remove_inv (nrepr x) _ Hinv) as (Hinv1 & Hnot & _).
  pose proof (nodes_after post _ (nrepr x) Hinv1 Hnot Hp) as Hn.
  destruct (get_inv _ hp ihp (run_from_inv post _ Hinv1)) as (_ & _ & Hsome).
  destruct (Hsome _ Hg) as [Hin _]. rewrite Hy in Hin. exact (Hn Hin).
Qed.

(* a node added with at least one replica is a member: Get answers *)
Lemma added_is_served_l : forall pre x r hp ihp,
  0 < r -> 0 < R ->
  get (step vh R (run vh R pre) (OAddR x r)) hp ihp <> GNone.
Proof.
  intros pre x r hp ihp Hr HR Hg.
  pose proof (run_inv pre) as Hinv.
  destruct (get_inv _ hp ihp (step_inv _ (OAddR x r) Hinv)) as (_ & Hnone & _).
  apply Hnone in Hg. cbn [step] in Hg. unfold add_with_replicas in Hg. cbn [ring] in Hg.
  set (r' := if R <? r then R else r) in *.
  assert (Hr' : 0 < r') by (unfold r'; destruct (R <? r); lia).
  (* the first iteration of the loop already creates a bucket *)
  assert (Hidx : indices r' = 0 :: map Z.of_nat (seq 1 (Z.to_nat r' - 1))).
  { unfold indices. destruct (Z.to_nat r') eqn:E; [lia|]. cbn. rewrite Nat.sub_0_r. reflexivity. }
  rewrite Hidx in Hg. cbn [fold_left] in Hg.
  assert (Hne : forall idxs s0, ring s0 <> [] -> ring (fold_left (add_vnode vh x) idxs s0) <> []).
  { induction idxs as [|i idxs IH]; intros s0 Hs; cbn [fold_left]; [exact Hs|].
    apply IH. unfold add_vnode. cbn [ring]. destruct (ring s0) as [|[k b] rr]; cbn [set_bucket]; [discriminate|].
    destruct (k =? vh (nrepr x) i); discriminate. }
  revert Hg. apply Hne. unfold add_vnode. cbn [ring].
  match goal with |- set_bucket ?h ?b ?r <> [] => destruct r as [|[k b0] rr]; cbn [set_bucket]; [discriminate|];
    destruct (k =? h); discriminate end.
Qed.

End WithHash.
