(* C15 — (1) Get as a function of the node map for EVERY hash function (no collision-freeness):
   the answer is a value owning the cyclic successor slot; (2) the boolean clauses evaluated by
   Check.prop_ok on observed answers mean exactly that; (3) the dispatch of the users of the
   ring (Cluster.v): every command a cluster ever sends for a key goes to Get(key)'s node. *)
From Coq Require Import List ZArith Bool Sorted Lia.
From GZ Require Import C15.Model C15.Cluster C15.Check C15.Proofs C15.ProofsB.
Import ListNotations.
Open Scope Z_scope.

(* ======== (1) any hash ======================================================================= *)
Section AnyHash.
Variable vh : Z -> Z -> Z.
Variable R : Z.

(* the ring is an image of the node map: Canon without the "at most one entry per slot" clause *)
Record Canon0 (s : state) (m : amap) : Prop := mkCanon0
  { c0_inv : Inv vh R s;
    c0_live : forall h x, In x (bucket h (ring s)) <-> Live vh m x h;
    c0_nodes : forall n, In n (nodes s) <-> alookup n m <> None }.

Lemma canon0_init : Canon0 init [].
Proof.
  split; [apply inv_init | |].
  - intros h x. cbn. split; [contradiction|]. intros (r & i & H & _). discriminate.
  - intros n. cbn. split; [contradiction | congruence].
Qed.

Lemma canon0_remove : forall s m n, Canon0 s m -> Canon0 (remove vh R n s) (a_del n m).
Proof.
  intros s m n [Hinv Hlive Hnodes].
  destruct (remove_inv vh R n s Hinv) as (Hinv' & _).
  split; [exact Hinv' | |].
  - intros h x. rewrite (remove_bucket_iff vh R n s h x Hinv), Hlive. unfold Live.
    split.
    + intros [(r & i & A & B & C) Hne]. exists r, i. rewrite alookup_del.
      apply Z.eqb_neq in Hne. rewrite Hne. auto.
    + intros (r & i & A & B & C). rewrite alookup_del in A.
      destruct (nrepr x =? n) eqn:E; [discriminate|]. apply Z.eqb_neq in E.
      split; [exists r, i; auto | exact E].
  - intros y. rewrite (remove_nodes_iff vh R n s y Hinv), Hnodes, alookup_del.
    destruct (y =? n) eqn:E.
    + apply Z.eqb_eq in E. split; [intros [_ H]; congruence | congruence].
    + apply Z.eqb_neq in E. tauto.
Qed.

Lemma canon0_add : forall s m x r, Canon0 s m ->
  Canon0 (add_with_replicas vh R x r s) (a_set (nrepr x) (clamp R r, nval x) m).
Proof.
  intros s m x r [Hinv Hlive Hnodes].
  destruct (add_inv vh R x r s Hinv) as (Hinv' & _).
  split; [exact Hinv' | |].
  - intros h y. rewrite (add_bucket_iff vh R x r s h y Hinv), Hlive. unfold Live. split.
    + intros [[(r0 & i & A & B & C) Hne] | [-> (i & Hi & E)]].
      * exists r0, i. rewrite alookup_set. apply Z.eqb_neq in Hne. rewrite Hne. auto.
      * exists (clamp R r), i. rewrite alookup_set, Z.eqb_refl.
        split; [reflexivity|]. split; [apply eff_clamp; exact Hi | symmetry; exact E].
    + intros (r0 & i & A & B & C). rewrite alookup_set in A.
      destruct (nrepr y =? nrepr x) eqn:E.
      * apply Z.eqb_eq in E. inversion A; subst r0. right.
        split; [destruct y, x; cbn in *; congruence|].
        exists i. split; [apply eff_clamp; exact B | rewrite <- E; symmetry; exact C].
      * apply Z.eqb_neq in E. left. split; [exists r0, i; auto | exact E].
  - intros y. rewrite (add_nodes_iff vh R x r s y Hinv), Hnodes, alookup_set.
    destruct (y =? nrepr x) eqn:E.
    + apply Z.eqb_eq in E. split; [discriminate | auto].
    + apply Z.eqb_neq in E. split; [intros [H|H]; [exact H | congruence] | auto].
Qed.

Lemma canon0_step : forall s m o, Canon0 s m -> Canon0 (step vh R s o) (a_step R m o).
Proof.
  intros s m o Hc. destruct o as [x|x r|x w|x]; cbn [step a_step].
  - apply canon0_add; assumption.
  - apply canon0_add; assumption.
  - apply canon0_add; assumption.
  - apply canon0_remove; assumption.
Qed.

Lemma canon0_fold : forall ops s m, Canon0 s m ->
  Canon0 (fold_left (step vh R) ops s) (fold_left (a_step R) ops m).
Proof.
  induction ops as [|o ops IH]; intros s m Hc; cbn [fold_left]; [exact Hc|].
  apply IH. apply canon0_step. exact Hc.
Qed.

Lemma canon0_run : forall ops, Canon0 (run vh R ops) (amap_run R ops).
Proof. intros ops. apply canon0_fold. apply canon0_init. Qed.

(* Get on a ring that is an image of the node map m *)
Lemma canon0_get : forall s m hp ihp, Canon0 s m ->
  (forall x, get s hp ihp = GSome x -> exists k, Live vh m x k /\ is_succ (live_hash vh m) hp k) /\
  (get s hp ihp = GNone <-> forall h, ~ live_hash vh m h) /\
  get s hp ihp <> GPanic.
Proof.
  intros s m hp ihp [I L N].
  assert (Hkeys : forall h, In h (keys s) <-> live_hash vh m h).
  { intros h. split.
    - intros Hk. destruct (key_bucket vh R s h I Hk) as [x Hx]. exists x. apply L. exact Hx.
    - intros [x Hx]. apply L in Hx. eapply bucket_key; eauto. }
  destruct (get_inv vh R s hp ihp I) as (NP & NoneIff & _).
  split; [|split; [|exact NP]].
  - intros x G. destruct (get_succ vh R s hp ihp x I G) as [k [Sk Hx]]. exists k.
    split; [apply L; exact Hx|]. eapply is_succ_ext; [|exact Sk]. exact Hkeys.
  - rewrite NoneIff. split.
    + intros E h [z Hz]. apply L in Hz. rewrite E in Hz. exact Hz.
    + intros Hno. destruct (nil_or _ (ring s)) as [E|E]; [exact E|]. exfalso.
      pose proof (inv_keys_nonempty vh R s I E) as Hk.
      assert (Hex : exists a, In a (keys s)).
      { destruct (keys s) as [|a l]; [congruence | exists a; left; reflexivity]. }
      destruct Hex as [a Ha]. apply (Hno a). apply Hkeys. exact Ha.
Qed.

(* For every hash function and every history: Get never panics; it answers none iff the node
   map has no live virtual node; otherwise it answers a value x of a node of the map that owns
   the cyclic successor (first live hash >= the key's hash, wrapping to the least) slot. *)
Lemma get_owner_any_hash_l : forall ops hp ihp,
  let m := amap_run R ops in
  (forall x, get (run vh R ops) hp ihp = GSome x ->
             exists k, Live vh m x k /\ is_succ (live_hash vh m) hp k) /\
  (get (run vh R ops) hp ihp = GNone <-> forall h, ~ live_hash vh m h) /\
  get (run vh R ops) hp ihp <> GPanic.
Proof. intros ops hp ihp m. apply canon0_get. apply canon0_run. Qed.

End AnyHash.

(* ======== (2) what the boolean clauses of Check.prop_ok mean ================================= *)
Section FoldSpecs.
Variable hp : Z.

Lemma better_ge_cases : forall acc x,
  (hp <= fst x /\ ((acc = None /\ better_ge hp acc x = Some x) \/
                   (exists a, acc = Some a /\ fst x < fst a /\ better_ge hp acc x = Some x) \/
                   (exists a, acc = Some a /\ fst a <= fst x /\ better_ge hp acc x = acc))) \/
  (fst x < hp /\ better_ge hp acc x = acc).
Proof.
  intros acc x. unfold better_ge. destruct (hp <=? fst x) eqn:E.
  - apply Z.leb_le in E. left. split; [exact E|]. destruct acc as [a|]; [|left; auto].
    destruct (fst x <? fst a) eqn:E2; [apply Z.ltb_lt in E2 | apply Z.ltb_ge in E2].
    + right. left. exists a. auto.
    + right. right. exists a. auto.
  - apply Z.leb_gt in E. right. auto.
Qed.

Lemma fold_ge_spec : forall vs acc,
  (forall a, acc = Some a -> hp <= fst a) ->
  match fold_left (better_ge hp) vs acc with
  | None => acc = None /\ forall x, In x vs -> fst x < hp
  | Some b => hp <= fst b /\ (acc = Some b \/ In b vs) /\
              (forall a, acc = Some a -> fst b <= fst a) /\
              (forall x, In x vs -> hp <= fst x -> fst b <= fst x)
  end.
Proof.
  induction vs as [|x vs IH]; intros acc Hacc; cbn [fold_left].
  - destruct acc as [b|]; [|split; [reflexivity | intros x []]].
    split; [apply Hacc; reflexivity|]. split; [left; reflexivity|].
    split; [intros a E; inversion E; lia | intros x []].
  - pose proof (better_ge_cases acc x) as C.
    assert (Hacc' : forall a, better_ge hp acc x = Some a -> hp <= fst a).
    { intros a E. destruct C as [[Hx [[_ C]|[[a0 (Ea & _ & C)]|[a0 (Ea & _ & C)]]]]|[_ C]]; rewrite C in E.
      - inversion E; subst; exact Hx.
      - inversion E; subst; exact Hx.
      - apply Hacc. exact E.
      - apply Hacc. exact E. }
    specialize (IH _ Hacc').
    destruct (fold_left (better_ge hp) vs (better_ge hp acc x)) as [b|].
    + destruct IH as (B1 & B2 & B3 & B4). split; [exact B1|].
      destruct C as [[Hx [[Ea C]|[[a0 (Ea & Hlt & C)]|[a0 (Ea & Hle & C)]]]]|[Hx C]]; rewrite C in *.
      * subst acc. split; [destruct B2 as [E|H]; [inversion E; right; left; reflexivity | right; right; exact H]|].
        split; [intros a E; discriminate|].
        intros y [<-|Hy] Hy2; [apply B3; reflexivity | apply B4; assumption].
      * subst acc. split; [destruct B2 as [E|H]; [inversion E; right; left; reflexivity | right; right; exact H]|].
        split; [intros a E; inversion E; subst; specialize (B3 _ eq_refl); lia|].
        intros y [<-|Hy] Hy2; [apply B3; reflexivity | apply B4; assumption].
      * subst acc. split; [destruct B2 as [E|H]; [left; exact E | right; right; exact H]|].
        split; [exact B3|].
        intros y [<-|Hy] Hy2; [specialize (B3 _ eq_refl); lia | apply B4; assumption].
      * split; [destruct B2 as [E|H]; [left; exact E | right; right; exact H]|].
        split; [exact B3|].
        intros y [<-|Hy] Hy2; [lia | apply B4; assumption].
    + destruct IH as [E H].
      destruct C as [[Hx [[Ea C]|[[a0 (Ea & Hlt & C)]|[a0 (Ea & Hle & C)]]]]|[Hx C]]; rewrite C in E; try discriminate.
      * subst acc. discriminate.
      * split; [exact E|]. intros y [<-|Hy]; [exact Hx | apply H; exact Hy].
Qed.

Lemma fold_min_spec : forall vs acc,
  match fold_left better_min vs acc with
  | None => acc = None /\ vs = []
  | Some b => (acc = Some b \/ In b vs) /\
              (forall a, acc = Some a -> fst b <= fst a) /\
              (forall x, In x vs -> fst b <= fst x)
  end.
Proof.
  induction vs as [|x vs IH]; intros acc; cbn [fold_left].
  - destruct acc as [b|]; [|auto]. split; [left; reflexivity|].
    split; [intros a E; inversion E; lia | intros x []].
  - specialize (IH (better_min acc x)).
    destruct (fold_left better_min vs (better_min acc x)) as [b|].
    + destruct IH as (B2 & B3 & B4). unfold better_min in B2, B3.
      destruct acc as [a|].
      * destruct (fst x <? fst a) eqn:E; [apply Z.ltb_lt in E | apply Z.ltb_ge in E].
        -- split; [destruct B2 as [E2|H]; [inversion E2; right; left; reflexivity | right; right; exact H]|].
           split; [intros a' E'; inversion E'; subst; specialize (B3 _ eq_refl); lia|].
           intros y [<-|Hy]; [apply B3; reflexivity | apply B4; exact Hy].
        -- split; [destruct B2 as [E2|H]; [left; exact E2 | right; right; exact H]|].
           split; [exact B3|].
           intros y [<-|Hy]; [specialize (B3 _ eq_refl); lia | apply B4; exact Hy].
      * split; [destruct B2 as [E2|H]; [inversion E2; right; left; reflexivity | right; right; exact H]|].
        split; [intros a E; discriminate|].
        intros y [<-|Hy]; [apply B3; reflexivity | apply B4; exact Hy].
    + destruct IH as [E _]. unfold better_min in E. destruct acc as [a|]; [destruct (fst x <? fst a)|]; discriminate.
Qed.
End FoldSpecs.

Definition slot_of (vs : list (Z * Z)) (h : Z) : Prop := exists v, In (h, v) vs.

Lemma in_pair : forall (b : Z * Z) vs, In b vs -> In (fst b, snd b) vs.
Proof. intros [h v] vs H. exact H. Qed.

(* [succ_hash] computes the cyclic successor slot of the key's hash *)
Lemma succ_hash_spec : forall vs hp,
  match succ_hash vs hp with
  | Some k => is_succ (slot_of vs) hp k /\ In (k, spec_get_vs vs hp) vs
  | None => vs = [] /\ spec_get_vs vs hp = -1
  end.
Proof.
  intros vs hp. unfold succ_hash, spec_get_vs.
  pose proof (fold_ge_spec hp vs None) as G.
  destruct (fold_left (better_ge hp) vs None) as [b|].
  - destruct G as (B1 & B2 & _ & B4); [intros a E; discriminate|].
    destruct B2 as [E|Hb]; [discriminate|]. split; [|apply in_pair; exact Hb].
    split; [exists (snd b); apply in_pair; exact Hb|]. left. split; [exact B1|].
    intros k' [v Hv] Hle. exact (B4 (k', v) Hv Hle).
  - destruct G as [_ Hlt]; [intros a E; discriminate|].
    pose proof (fold_min_spec vs None) as M.
    destruct (fold_left better_min vs None) as [b|].
    + destruct M as (B2 & _ & B4). destruct B2 as [E|Hb]; [discriminate|].
      split; [|apply in_pair; exact Hb].
      split; [exists (snd b); apply in_pair; exact Hb|]. right. split.
      * intros k' [v Hv]. exact (Hlt (k', v) Hv).
      * intros k' [v Hv]. exact (B4 (k', v) Hv).
    + destruct M as [_ E]. auto.
Qed.

(* the clause [owner_ok]: the answer is none and there is no slot, or it is one of the values
   sitting at the cyclic successor slot *)
Lemma owner_ok_list_spec : forall vs hp g,
  owner_ok vs hp g = true <->
  (vs = [] /\ g = -1) \/ (exists k, is_succ (slot_of vs) hp k /\ In (k, g) vs).
Proof.
  intros vs hp g. unfold owner_ok. pose proof (succ_hash_spec vs hp) as S.
  destruct (succ_hash vs hp) as [k|].
  - destruct S as [Sk _]. rewrite existsb_exists. split.
    + intros [[h v] [Hin E]]. cbn [fst snd] in E. apply andb_true_iff in E. destruct E as [E1 E2].
      apply Z.eqb_eq in E1, E2. subst. right. exists k. auto.
    + intros [[E _]|[k' [Sk' Hin]]].
      * subst vs. destruct Sk as [[v []] _].
      * pose proof (is_succ_unique _ _ _ _ Sk Sk'). subst k'. exists (k, g). split; [exact Hin|].
        cbn [fst snd]. rewrite !Z.eqb_refl. reflexivity.
  - destruct S as [E _]. rewrite Z.eqb_eq. split; [auto|].
    intros [[_ H]|[k [[[v Hv] _] _]]]; [exact H | subst vs; contradiction].
Qed.

Lemma nodup_app_intro : forall (l1 l2 : list Z), NoDup l1 -> NoDup l2 ->
  (forall x, In x l1 -> In x l2 -> False) -> NoDup (l1 ++ l2).
Proof.
  induction l1 as [|a l1 IH]; intros l2 N1 N2 D; cbn [app]; [exact N2|].
  inversion N1 as [|? ? Ha N1']; subst. constructor.
  - intros H. apply in_app_or in H. destruct H as [H|H]; [exact (Ha H) | exact (D a (or_introl eq_refl) H)].
  - apply IH; [exact N1' | exact N2 | intros x H1 H2; exact (D x (or_intror H1) H2)].
Qed.

(* ---- the virtual nodes of a node map ---------------------------------------------------- *)
(* a node map over the table: one entry per repr, replica counts within 0..R, reprs of the table *)
Definition amap_wf (t : list (Z * list Z)) (R : Z) (m : amap) : Prop :=
  NoDup (map fst m) /\ forall n r v, In (n, (r, v)) m -> 0 <= r <= R /\ In n (map fst t).

Lemma in_alookup : forall (m : amap) n rv, NoDup (map fst m) -> (In (n, rv) m <-> alookup n m = Some rv).
Proof.
  induction m as [|[k rv0] m IH]; intros n rv ND; cbn [alookup]; [split; [contradiction | discriminate]|].
  cbn [map fst] in ND. inversion ND as [|? ? Hk ND']; subst.
  destruct (k =? n) eqn:E.
  - apply Z.eqb_eq in E. subst k. split.
    + intros [H|H]; [inversion H; reflexivity|]. exfalso. apply Hk. apply in_map_iff. exists (n, rv). auto.
    + intros H. inversion H. left. reflexivity.
  - apply Z.eqb_neq in E. rewrite <- (IH n rv ND'). split.
    + intros [H|H]; [inversion H; congruence | exact H].
    + intros H. right. exact H.
Qed.

Lemma a_del_fst : forall n (m : amap) k, In k (map fst (a_del n m)) <-> In k (map fst m) /\ k <> n.
Proof.
  intros n m k. unfold a_del. rewrite !in_map_iff. split.
  - intros [e [<- He]]. apply filter_In in He. destruct He as [He Hn].
    apply negb_true_iff, Z.eqb_neq in Hn. split; [exists e; auto | exact Hn].
  - intros [[e [<- He]] Hn]. exists e. split; [reflexivity|]. apply filter_In. split; [exact He|].
    apply negb_true_iff, Z.eqb_neq. exact Hn.
Qed.

Lemma a_del_nodup : forall n (m : amap), NoDup (map fst m) -> NoDup (map fst (a_del n m)).
Proof.
  intros n m. unfold a_del. induction m as [|e m IH]; intros ND; cbn [filter map]; [constructor|].
  cbn [map] in ND. inversion ND as [|? ? He ND']; subst.
  destruct (negb (fst e =? n)); [|apply IH; exact ND'].
  cbn [map]. constructor; [|apply IH; exact ND'].
  intros H. apply He. apply in_map_iff in H. destruct H as [e' [E' H]]. apply filter_In in H.
  apply in_map_iff. exists e'. tauto.
Qed.

Lemma amap_wf_del : forall t R m n, amap_wf t R m -> amap_wf t R (a_del n m).
Proof.
  intros t R m n [ND H]. split; [apply a_del_nodup; exact ND|].
  intros k r v Hin. unfold a_del in Hin. apply filter_In in Hin. apply (H k r v). tauto.
Qed.

Lemma amap_wf_set : forall t R m n r v, amap_wf t R m -> 0 <= r <= R -> In n (map fst t) ->
  amap_wf t R (a_set n (r, v) m).
Proof.
  intros t R m n r v Hwf Hr Hn. destruct (amap_wf_del t R m n Hwf) as [ND H]. unfold a_set. split.
  - rewrite map_app. cbn [map fst]. apply nodup_app_intro; [exact ND | constructor; [intros [] | constructor] |].
    intros k Hk [<-|[]]. apply a_del_fst in Hk. destruct Hk as [_ Hk]. congruence.
  - intros k r' v' Hin. apply in_app_or in Hin. destruct Hin as [Hin|[E|[]]]; [exact (H _ _ _ Hin)|].
    inversion E; subst. auto.
Qed.

Lemma clamp_range : forall R r, 0 <= R -> 0 <= clamp R r <= R.
Proof. intros R r HR. unfold clamp. lia. Qed.

Lemma amap_wf_step : forall t R m o, 0 <= R -> amap_wf t R m -> In (nrepr (op_node o)) (map fst t) ->
  amap_wf t R (a_step R m o).
Proof.
  intros t R m o HR Hwf Hn. destruct o as [x|x r|x w|x]; cbn [a_step op_node] in *;
    try (apply amap_wf_set; [exact Hwf | apply clamp_range; exact HR | exact Hn]).
  apply amap_wf_del. exact Hwf.
Qed.

Lemma amap_wf_run : forall t R ops, 0 <= R -> ops_in_U (fun n => In n (map fst t)) ops ->
  amap_wf t R (amap_run R ops).
Proof.
  intros t R ops HR Hu. unfold amap_run.
  assert (H0 : amap_wf t R []) by (split; [constructor | intros n r v []]).
  revert H0. generalize (@nil (Z * (Z * Z))). induction Hu as [|o ops Ho Hu IH]; intros m Hm; cbn [fold_left]; [exact Hm|].
  apply IH. apply amap_wf_step; assumption.
Qed.

Lemma firstn_in_nth : forall (l : list Z) k h,
  In h (firstn k l) <-> exists j, (j < k)%nat /\ (j < length l)%nat /\ nth j l 0 = h.
Proof.
  induction l as [|a l IH]; intros k h.
  - rewrite firstn_nil. split; [contradiction | intros (j & _ & H & _); cbn in H; lia].
  - destruct k as [|k]; cbn [firstn].
    + split; [contradiction | intros (j & H & _); lia].
    + cbn [In length]. rewrite IH. split.
      * intros [<-|(j & H1 & H2 & H3)]; [exists 0%nat; cbn; repeat split; lia | exists (S j); cbn [nth]; repeat split; try lia; exact H3].
      * intros (j & H1 & H2 & H3). destruct j as [|j]; [left; exact H3 | right; exists j; cbn [nth] in H3; repeat split; try lia; exact H3].
Qed.

Lemma vnodes_in : forall t (m : amap) h v,
  In (h, v) (vnodes t m) <->
  exists n r, In (n, (r, v)) m /\ 0 < r /\ In h (firstn (Z.to_nat r) (row n t)).
Proof.
  intros t m h v. unfold vnodes, members. rewrite in_flat_map. split.
  - intros [[n [r v']] [He Hin]]. apply filter_In in He. destruct He as [He Hr].
    cbn [fst snd] in *. apply Z.ltb_lt in Hr. apply in_map_iff in Hin. destruct Hin as [h' [E Hh]].
    inversion E; subst. exists n, r. auto.
  - intros (n & r & He & Hr & Hh). exists (n, (r, v)). split.
    + apply filter_In. split; [exact He|]. cbn [fst snd]. apply Z.ltb_lt. exact Hr.
    + cbn [fst snd]. apply in_map_iff. exists h. auto.
Qed.

Section Reflect.
Variable t : list (Z * list Z).
Variable R : Z.
Hypothesis Htab : table_ok t R = true.

Lemma table_row_length : forall n, In n (map fst t) -> Z.of_nat (length (row n t)) = R.
Proof.
  intros n Hn. unfold table_ok in Htab. apply andb_true_iff in Htab. destruct Htab as [_ Hlen].
  apply (row_length t R n Hlen Hn).
Qed.

(* a pair (slot, value) of [vnodes t m] is a live virtual node of the node map, and conversely *)
Lemma vnodes_live : forall m h v, amap_wf t R m ->
  (In (h, v) (vnodes t m) <-> exists x, nval x = v /\ Live (vh_of t) m x h).
Proof.
  intros m h v [ND Hm]. rewrite vnodes_in. split.
  - intros (n & r & He & Hr & Hh). destruct (Hm n r v He) as [Hr2 Hn].
    apply firstn_in_nth in Hh. destruct Hh as (j & J1 & J2 & J3).
    exists (mkNode n v). split; [reflexivity|]. exists r, (Z.of_nat j). cbn [nrepr nval].
    split; [apply in_alookup; assumption|]. split; [lia|].
    unfold vh_of. rewrite Nat2Z.id. symmetry. exact J3.
  - intros (x & Ev & r & i & Ha & Hi & Eh). subst v.
    apply in_alookup in Ha; [|exact ND]. destruct (Hm _ _ _ Ha) as [Hr2 Hn].
    exists (nrepr x), r. split; [exact Ha|]. split; [lia|].
    apply firstn_in_nth. exists (Z.to_nat i). pose proof (table_row_length _ Hn) as L.
    split; [lia|]. split; [lia|]. subst h. reflexivity.
Qed.

Lemma slot_live : forall m h, amap_wf t R m -> (slot_of (vnodes t m) h <-> live_hash (vh_of t) m h).
Proof.
  intros m h Hwf. unfold slot_of, live_hash. split.
  - intros [v Hv]. apply (vnodes_live m h v Hwf) in Hv. destruct Hv as [x [_ Hx]]. exists x. exact Hx.
  - intros [x Hx]. exists (nval x). apply (vnodes_live m h (nval x) Hwf). exists x. auto.
Qed.

(* [owner_ok] on an observed answer g, for ANY hash: g is none and the map has no live virtual
   node, or g is the value of a node of the map owning the cyclic successor slot of the key *)
Lemma owner_ok_iff : forall m hp g, amap_wf t R m ->
  (owner_ok (vnodes t m) hp g = true <->
   ((forall h, ~ live_hash (vh_of t) m h) /\ g = -1) \/
   (exists x k, g = nval x /\ Live (vh_of t) m x k /\ is_succ (live_hash (vh_of t) m) hp k)).
Proof.
  intros m hp g Hwf. rewrite owner_ok_list_spec. split.
  - intros [[E Hg]|[k [Sk Hin]]].
    + left. split; [|exact Hg]. intros h Hh. apply (slot_live m h Hwf) in Hh. destruct Hh as [v Hv].
      rewrite E in Hv. exact Hv.
    + right. apply (vnodes_live m k g Hwf) in Hin. destruct Hin as [x [Ex Lx]].
      exists x, k. split; [auto|]. split; [exact Lx|].
      eapply is_succ_ext; [|exact Sk]. intros h. apply slot_live. exact Hwf.
  - intros [[Hno Hg]|(x & k & Eg & Lx & Sk)].
    + left. split; [|exact Hg]. destruct (vnodes t m) as [|[h v] vs] eqn:E; [reflexivity|]. exfalso.
      apply (Hno h). apply (slot_live m h Hwf). exists v. rewrite E. left. reflexivity.
    + right. exists k. split.
      * eapply is_succ_ext; [|exact Sk]. intros h. symmetry. apply slot_live. exact Hwf.
      * apply (vnodes_live m k g Hwf). exists x. auto.
Qed.

(* [member_only]: the answer is the value of a node with at least one virtual node; none iff there is none *)
Lemma member_only_iff : forall (m : amap) g,
  member_only m g = true <->
  (members m = [] /\ g = -1) \/ (exists n r, In (n, (r, g)) m /\ 0 < r).
Proof.
  intros m g. unfold member_only. destruct (members m) as [|e ms] eqn:E.
  - rewrite Z.eqb_eq. split; [auto|]. intros [[_ H]|(n & r & Hin & Hr)]; [exact H|]. exfalso.
    assert (H : In (n, (r, g)) (members m)).
    { unfold members. apply filter_In. split; [exact Hin|]. cbn. apply Z.ltb_lt. exact Hr. }
    rewrite E in H. exact H.
  - rewrite existsb_exists. rewrite <- E. split.
    + intros [[n [r v]] [Hin Ev]]. cbn [snd] in Ev. apply Z.eqb_eq in Ev. subst v. right.
      unfold members in Hin. apply filter_In in Hin. destruct Hin as [Hin Hr]. cbn in Hr. apply Z.ltb_lt in Hr.
      exists n, r. auto.
    + intros [[E2 _]|(n & r & Hin & Hr)]; [rewrite E2 in E; discriminate|].
      exists (n, (r, g)). split; [|cbn; apply Z.eqb_refl].
      unfold members. apply filter_In. split; [exact Hin|]. cbn. apply Z.ltb_lt. exact Hr.
Qed.

(* ---- the model's own answers pass the clauses, for every hash and every history ------------- *)
Hypothesis HR : 0 <= R.

Lemma model_passes_l : forall ops hp ihp, ops_in_U (fun n => In n (map fst t)) ops ->
  let m := amap_run R ops in
  let g := gres_z (get (run (vh_of t) R ops) hp ihp) in
  member_only m g = true /\ owner_ok (vnodes t m) hp g = true.
Proof.
  intros ops hp ihp Hu m g. pose proof (amap_wf_run t R ops HR Hu) as Hwf. fold m in Hwf.
  destruct (get_owner_any_hash_l (vh_of t) R ops hp ihp) as (Hs & Hn & Hp). fold m in Hs, Hn.
  pose proof Hwf as [ND Hm].
  subst g. destruct (get (run (vh_of t) R ops) hp ihp) as [|x|] eqn:G; [| |congruence]; cbn [gres_z].
  - assert (Hno : forall h, ~ live_hash (vh_of t) m h) by (apply Hn; reflexivity).
    split.
    + apply member_only_iff. left. split; [|reflexivity].
      destruct (members m) as [|[n [r v]] ms] eqn:E; [reflexivity|]. exfalso.
      assert (Hin : In (n, (r, v)) (members m)) by (rewrite E; left; reflexivity).
      unfold members in Hin. apply filter_In in Hin. destruct Hin as [Hin Hr]. cbn in Hr. apply Z.ltb_lt in Hr.
      apply (Hno (vh_of t n 0)). exists (mkNode n v). exists r, 0. cbn [nrepr nval].
      split; [apply in_alookup; assumption|]. split; [lia | reflexivity].
    + apply owner_ok_iff; [exact Hwf|]. left. auto.
  - destruct (Hs x eq_refl) as [k [Lx Sk]]. split.
    + apply member_only_iff. right. destruct Lx as (r & i & Ha & Hi & _).
      apply in_alookup in Ha; [|exact ND]. exists (nrepr x), r. split; [exact Ha | lia].
    + apply owner_ok_iff; [exact Hwf|]. right. exists x, k. auto.
Qed.

(* ---- on a collision-free table the clauses determine the answer: it is [spec_get] ----------- *)
Hypothesis Hcf : collision_free t = true.

Lemma owner_ok_unique_l : forall ops hp g, ops_in_U (fun n => In n (map fst t)) ops ->
  owner_ok (vnodes t (amap_run R ops)) hp g = true -> g = spec_get_vs (vnodes t (amap_run R ops)) hp.
Proof.
  intros ops hp g Hu Hok. pose proof (amap_wf_run t R ops HR Hu) as Hwf.
  set (m := amap_run R ops) in *. set (vs := vnodes t m) in *.
  pose proof (collision_free_spec_l t R Hcf Htab) as CF.
  pose proof (succ_hash_spec vs hp) as S. apply owner_ok_list_spec in Hok.
  destruct (succ_hash vs hp) as [k|].
  - destruct S as [Sk Hin]. destruct Hok as [[E _]|[k' [Sk' Hin']]].
    + rewrite E in Hin. contradiction.
    + pose proof (is_succ_unique _ _ _ _ Sk Sk'). subst k'.
      apply (vnodes_live m k _ Hwf) in Hin. apply (vnodes_live m k _ Hwf) in Hin'.
      destruct Hin as (x & Ex & r & i & Ha & Hi & Eh). destruct Hin' as (x' & Ex' & r' & i' & Ha' & Hi' & Eh').
      destruct Hwf as [ND Hm].
      pose proof Ha as Ia. apply in_alookup in Ia; [|exact ND]. pose proof Ha' as Ia'. apply in_alookup in Ia'; [|exact ND].
      destruct (Hm _ _ _ Ia) as [Hr Hn]. destruct (Hm _ _ _ Ia') as [Hr' Hn'].
      destruct (CF (nrepr x) (nrepr x') i i' Hn Hn') as [En _]; [lia | lia | congruence|].
      rewrite En in Ha. rewrite Ha in Ha'. inversion Ha'. congruence.
  - destruct S as [E Es]. destruct Hok as [[_ Hg]|[k [_ Hin]]]; [congruence|]. rewrite E in Hin. contradiction.
Qed.

End Reflect.

(* every row of answers the model gives passes [step_ok] — membership, owner of the successor
   slot, and on a collision-free table equality with [spec_get] — for every hash and history *)
Lemma step_ok_model_l : forall t R ops ps,
  table_ok t R = true -> 0 <= R -> ops_in_U (fun n => In n (map fst t)) ops ->
  step_ok t (collision_free t && table_ok t R) ps (amap_run R ops)
          (gets_of t (run (vh_of t) R ops) ps) = true.
Proof.
  intros t R ops ps Htab HR Hu. unfold step_ok, gets_of.
  induction ps as [|p ps IH]; cbn [map forall2b]; [reflexivity|].
  rewrite IH, andb_true_r.
  destruct (model_passes_l t R Htab HR ops (fst p) (snd p) Hu) as [H1 H2].
  rewrite H1, H2. cbn [andb]. rewrite Htab, andb_true_r.
  destruct (collision_free t) eqn:Hcf; [|reflexivity].
  apply Z.eqb_eq. apply (owner_ok_unique_l t R Htab HR Hcf ops (fst p) _ Hu). exact H2.
Qed.

(* ======== (3) the users of the ring ========================================================== *)
Section ClusterProofs.
Variable insts : list inst.
Variable keys : list (Z * Z).
Variable delays : list Z.

Notation own := (owner insts keys).

(* the touch (instance i, key k, server s) is where dispatcher.Get(k) of instance i points *)
Definition touch_owned (t : touch) : Prop := own (fst (fst t)) (snd (fst t)) = Some (snd t).
Definition pending_owned (p : pending) : Prop :=
  Forall (fun k => own (pinst p) k = Some (psrv p)) (pkeys p).
(* every retry that is waiting carries keys of the node that will retry them *)
Definition pend_ok (st : cstate) : Prop := Forall pending_owned (cpend st).

Definition good (r : cstate * list touch) : Prop := pend_ok (fst r) /\ Forall touch_owned (snd r).

Lemma touches_owned : forall i s ks, Forall (fun k => own i k = Some s) ks ->
  Forall touch_owned (map (fun k => (i, k, s)) ks).
Proof.
  intros i s ks H. rewrite Forall_forall in *. intros t Ht. apply in_map_iff in Ht.
  destruct Ht as [k [<- Hk]]. unfold touch_owned. cbn. auto.
Qed.

Lemma del_cmd_ok : forall retry i s ks st,
  Forall (fun k => own i k = Some s) ks -> pend_ok st -> good (del_cmd delays retry i s ks st).
Proof.
  intros retry i s ks st Hks Hst. unfold del_cmd, good.
  pose proof (touches_owned i s ks Hks) as Ht.
  destruct (fails st s).
  - destruct retry; [|split; assumption]. destruct delays as [|d0 ds]; [split; assumption|].
    cbn [fst snd]. split; [|exact Ht]. unfold pend_ok, add_pending. cbn [cpend].
    apply Forall_app. split; [exact Hst|]. constructor; [exact Hks | constructor].
  - cbn [fst snd]. split; [exact Hst | exact Ht].
Qed.

Lemma seq_cmds_ok : forall A (f : A -> cstate -> cstate * list touch) (Q : A -> Prop),
  (forall a st, Q a -> pend_ok st -> good (f a st)) ->
  forall l st, Forall Q l -> pend_ok st -> good (seq_cmds f l st).
Proof.
  intros A f Q Hf l st Hl Hst. unfold seq_cmds.
  assert (G : good (st, @nil touch)) by (split; [exact Hst | constructor]).
  revert G. generalize (st, @nil touch). induction l as [|a l IH]; intros acc G; cbn [fold_left]; [exact G|].
  inversion Hl; subst. apply IH; [assumption|].
  destruct G as [G1 G2]. destruct (Hf a (fst acc) H1 G1) as [F1 F2].
  split; cbn [fst snd]; [exact F1 | apply Forall_app; split; assumption].
Qed.

Definition group_ok (i : Z) (g : list (Z * list Z)) : Prop :=
  Forall (fun e => Forall (fun k => own i k = Some (fst e)) (snd e)) g.

Lemma add_to_ok : forall i s k acc, own i k = Some s -> group_ok i acc -> group_ok i (add_to s k acc).
Proof.
  intros i s k acc Hk. induction acc as [|[s' l] acc IH]; intros H; cbn [add_to].
  - constructor; [|constructor]. cbn. constructor; [exact Hk | constructor].
  - inversion H; subst. destruct (s' =? s) eqn:E.
    + apply Z.eqb_eq in E. subst s'. constructor; [|assumption]. cbn [fst snd] in *.
      apply Forall_app. split; [assumption | constructor; [exact Hk | constructor]].
    + constructor; [assumption | apply IH; assumption].
Qed.

Lemma group_ok_l : forall i ks acc, group_ok i acc -> group_ok i (group insts keys i ks acc).
Proof.
  intros i ks. induction ks as [|k ks IH]; intros acc H; cbn [group]; [exact H|].
  destruct (own i k) as [s|] eqn:E; [apply IH; apply add_to_ok; assumption | apply IH; exact H].
Qed.

Lemma del_keys_ok : forall i ks st, pend_ok st -> good (del_keys insts keys delays i ks st).
Proof.
  intros i ks st Hst. unfold del_keys. destruct (is_cache insts i).
  - destruct ks as [|k [|k2 ks]].
    + split; [exact Hst | constructor].
    + destruct (own i k) as [s|] eqn:E; [|split; [exact Hst | constructor]].
      apply del_cmd_ok; [constructor; [exact E | constructor] | exact Hst].
    + apply (seq_cmds_ok _ _ (fun g => Forall (fun k => own i k = Some (fst g)) (snd g))).
      * intros g st' Hg Hst'. apply del_cmd_ok; assumption.
      * apply group_ok_l. constructor.
      * exact Hst.
  - apply (seq_cmds_ok _ _ (fun _ => True)).
    + intros k st' _ Hst'. destruct (own i k) as [s|] eqn:E; [|split; [exact Hst' | constructor]].
      apply del_cmd_ok; [constructor; [exact E | constructor] | exact Hst'].
    + rewrite Forall_forall. auto.
    + exact Hst.
Qed.

Lemma delx_keys_ok : forall i ks st, pend_ok st -> good (delx_keys insts keys delays i ks st).
Proof.
  intros i ks st Hst. unfold delx_keys. destruct (is_cache insts i); [|split; [exact Hst | constructor]].
  apply (seq_cmds_ok _ _ (fun g => Forall (fun k => own i k = Some (fst g)) (snd g))).
  - intros g st' Hg Hst'. unfold del_unsent. destruct delays as [|d0 ds]; [split; [exact Hst' | constructor]|].
    split; cbn [fst snd]; [|constructor]. unfold pend_ok, add_pending. cbn [cpend].
    apply Forall_app. split; [exact Hst'|]. constructor; [exact Hg | constructor].
  - apply group_ok_l. constructor.
  - exact Hst.
Qed.

Lemma fire_ok : forall p st, pending_owned p -> pend_ok st -> good (fire delays p st).
Proof.
  intros p st Hp Hst. unfold fire, good.
  pose proof (touches_owned (pinst p) (psrv p) (pkeys p) Hp) as Ht.
  destruct (fails st (psrv p)).
  - destruct (next_delay delays (pdelay p)) as [d|]; cbn [fst snd]; (split; [|exact Ht]); [|exact Hst].
    unfold pend_ok, add_pending. cbn [cpend]. apply Forall_app. split; [exact Hst|].
    constructor; [exact Hp | constructor].
  - cbn [fst snd]. split; [exact Hst | exact Ht].
Qed.

Lemma tick_one_ok : forall p st, pending_owned p -> pend_ok st -> good (tick_one delays p st).
Proof.
  intros p st Hp Hst. unfold tick_one. destruct (pcount p <=? 1); [apply fire_ok; assumption|].
  split; cbn [fst snd]; [|constructor].
  unfold pend_ok, add_pending. cbn [cpend]. apply Forall_app. split; [exact Hst|].
  constructor; [exact Hp | constructor].
Qed.

(* one step: the waiting retries stay owned, and every command sent goes to Get(key)'s node *)
Lemma cstep_ok : forall st o, pend_ok st -> good (cstep insts keys delays st o).
Proof.
  intros st o Hst. destruct o as [i k|i ks|i ks|s on| | |]; cbn [cstep].
  - destruct (own i k) as [s|] eqn:E; [|split; [exact Hst | constructor]].
    split; cbn [fst snd]; [exact Hst|]. constructor; [exact E | constructor].
  - apply del_keys_ok. exact Hst.
  - apply delx_keys_ok. exact Hst.
  - split; [exact Hst | constructor].
  - apply (seq_cmds_ok _ _ pending_owned).
    + intros p st' Hp Hst'. apply tick_one_ok; assumption.
    + exact Hst.
    + constructor.
  - split; [exact Hst | constructor].
  - split; [exact Hst | constructor].
Qed.

Lemma crun_ok : forall ops st, pend_ok st ->
  Forall (fun r => Forall touch_owned (snd r)) (crun insts keys delays st ops).
Proof.
  induction ops as [|o ops IH]; intros st Hst; cbn [crun]; [constructor|].
  destruct (cstep_ok st o Hst) as [H1 H2]. constructor; [exact H2 | apply IH; exact H1].
Qed.

(* For every configuration of instances, every key set, every retry-delay table and EVERY script
   of operations, faults, ticks: each command that reaches a server for key k on behalf of instance
   i reaches the server that dispatcher.Get(k) of instance i returns — also the delayed retries. *)
Lemma cluster_dispatch_l : forall ops r i k s,
  In r (crun insts keys delays cinit ops) -> In (i, k, s) (snd r) -> own i k = Some s.
Proof.
  intros ops r i k s Hr Ht.
  pose proof (crun_ok ops cinit (Forall_nil _)) as H. rewrite Forall_forall in H.
  specialize (H r Hr). rewrite Forall_forall in H. exact (H _ Ht).
Qed.

(* ---- coverage: a Del reaches the owner of each of its keys, a single-key operation its key's --- *)
Lemma seq_cmds_in : forall A (f : A -> cstate -> cstate * list touch) t a,
  (forall st, In t (snd (f a st))) ->
  forall l st, In a l -> In t (snd (seq_cmds f l st)).
Proof.
  intros A f t a Hf l st Hin. unfold seq_cmds.
  assert (Hmono : forall l acc, In t (snd acc) ->
            In t (snd (fold_left (fun acc a => let r := f a (fst acc) in (fst r, snd acc ++ snd r)) l acc))).
  { induction l0 as [|b l0 IH]; intros acc H; cbn [fold_left]; [exact H|].
    apply IH. cbn [snd]. apply in_or_app. left. exact H. }
  generalize (st, @nil touch). induction l as [|b l IH]; intros acc; [contradiction|].
  cbn [fold_left]. destruct Hin as [->|Hin].
  - apply Hmono. cbn [snd]. apply in_or_app. right. apply Hf.
  - apply IH. exact Hin.
Qed.

Lemma del_cmd_in : forall retry i s ks st k, In k ks -> In (i, k, s) (snd (del_cmd delays retry i s ks st)).
Proof.
  intros retry i s ks st k Hk. unfold del_cmd.
  assert (H : In (i, k, s) (map (fun k => (i, k, s)) ks)) by (apply in_map_iff; exists k; auto).
  destruct (fails st s); [destruct retry; [destruct delays|]|]; exact H.
Qed.

Definition in_group (g : list (Z * list Z)) (s k : Z) : Prop := exists l, In (s, l) g /\ In k l.

Lemma add_to_keeps : forall s k acc s' k', in_group acc s' k' -> in_group (add_to s k acc) s' k'.
Proof.
  intros s k acc s' k'. induction acc as [|[s0 l0] acc IH]; intros [l [Hl Hk]]; [contradiction|].
  cbn [add_to]. destruct Hl as [E|Hl].
  - inversion E; subst. destruct (s' =? s).
    + exists (l ++ [k]). split; [left; reflexivity | apply in_or_app; left; exact Hk].
    + exists l. split; [left; reflexivity | exact Hk].
  - destruct (s0 =? s).
    + exists l. split; [right; exact Hl | exact Hk].
    + destruct (IH (ex_intro _ l (conj Hl Hk))) as [l' [Hl' Hk']]. exists l'. split; [right; exact Hl' | exact Hk'].
Qed.

Lemma add_to_adds : forall s k acc, in_group (add_to s k acc) s k.
Proof.
  intros s k acc. induction acc as [|[s0 l0] acc IH]; cbn [add_to].
  - exists [k]. split; left; reflexivity.
  - destruct (s0 =? s) eqn:E.
    + apply Z.eqb_eq in E. subst s0. exists (l0 ++ [k]). split; [left; reflexivity | apply in_or_app; right; left; reflexivity].
    + destruct IH as [l [Hl Hk]]. exists l. split; [right; exact Hl | exact Hk].
Qed.

Lemma group_keeps : forall i ks acc s k, in_group acc s k -> in_group (group insts keys i ks acc) s k.
Proof.
  intros i ks. induction ks as [|k0 ks IH]; intros acc s k H; cbn [group]; [exact H|].
  destruct (own i k0); apply IH; [apply add_to_keeps|]; exact H.
Qed.

Lemma group_covers : forall i ks acc s k, In k ks -> own i k = Some s -> in_group (group insts keys i ks acc) s k.
Proof.
  intros i ks. induction ks as [|k0 ks IH]; intros acc s k Hin Ho; [contradiction|]. cbn [group].
  destruct Hin as [->|Hin].
  - rewrite Ho. apply group_keeps. apply add_to_adds.
  - destruct (own i k0); apply IH; assumption.
Qed.

Lemma del_covers_l : forall st i ks k s, In k ks -> own i k = Some s ->
  In (i, k, s) (snd (cstep insts keys delays st (CDel i ks))).
Proof.
  intros st i ks k s Hin Ho. cbn [cstep]. unfold del_keys. destruct (is_cache insts i).
  - destruct ks as [|k1 [|k2 ks]]; [contradiction | |].
    + destruct Hin as [->|[]]. rewrite Ho. apply del_cmd_in. left. reflexivity.
    + destruct (group_covers i (k1 :: k2 :: ks) [] s k Hin Ho) as [l [Hl Hk]].
      apply (seq_cmds_in _ _ _ (s, l)); [|exact Hl].
      intros st'. cbn [fst snd]. apply del_cmd_in. exact Hk.
  - apply (seq_cmds_in _ _ _ k); [|exact Hin].
    intros st'. rewrite Ho. apply del_cmd_in. left. reflexivity.
Qed.

Lemma single_covers_l : forall st i k s, own i k = Some s ->
  snd (cstep insts keys delays st (CSingle i k)) = [(i, k, s)].
Proof. intros st i k s Ho. cbn [cstep]. rewrite Ho. reflexivity. Qed.

End ClusterProofs.

(* ======== the two together: what a cluster built by the constructors touches ================== *)
Lemma owner_unfold : forall insts keys i k s, owner insts keys i k = Some s ->
  exists it hp ihp x, nth_error insts (Z.to_nat i) = Some it /\ nth_error keys (Z.to_nat k) = Some (hp, ihp) /\
                      get (iring it) hp ihp = GSome x /\ nval x = s.
Proof.
  intros insts keys i k s H. unfold owner in H.
  destruct ((i <? 0) || (k <? 0)); [discriminate|].
  destruct (nth_error insts (Z.to_nat i)) as [it|]; [|discriminate].
  destruct (nth_error keys (Z.to_nat k)) as [[hp ihp]|]; [|discriminate].
  destruct (get (iring it) hp ihp) as [|x|] eqn:G; try discriminate.
  inversion H. exists it, hp, ihp, x. auto.
Qed.

(* every command of every script reaches, for its key, a server that is a member of the instance's
   ring and owns the cyclic successor slot of the key's hash in the instance's node map — whatever
   the hash function, the configuration histories, the faults and the retry delays *)
Lemma cluster_touch_member_l : forall vh R (cfg : list (bool * list op)) keys delays ops r i k s,
  let insts := map (fun c => mkInst (fst c) (run vh R (snd c))) cfg in
  In r (crun insts keys delays cinit ops) -> In (i, k, s) (snd r) ->
  exists ic hp ihp x,
    nth_error cfg (Z.to_nat i) = Some ic /\ nth_error keys (Z.to_nat k) = Some (hp, ihp) /\
    get (run vh R (snd ic)) hp ihp = GSome x /\ nval x = s /\
    In (nrepr x) (nodes (run vh R (snd ic))) /\
    exists kk, Live vh (amap_run R (snd ic)) x kk /\ is_succ (live_hash vh (amap_run R (snd ic))) hp kk.
Proof.
  intros vh R cfg keys delays ops r i k s insts Hr Ht.
  pose proof (cluster_dispatch_l insts keys delays ops r i k s Hr Ht) as Ho.
  destruct (owner_unfold _ _ _ _ _ Ho) as (it & hp & ihp & x & Hi & Hk & G & Ev).
  unfold insts in Hi. rewrite nth_error_map in Hi.
  destruct (nth_error cfg (Z.to_nat i)) as [ic|] eqn:Ec; [|discriminate]. cbn in Hi. inversion Hi; subst it.
  cbn [iring] in G. exists ic, hp, ihp, x. split; [reflexivity|]. split; [exact Hk|]. split; [exact G|]. split; [exact Ev|].
  destruct (get_member_only_l vh R (snd ic) hp ihp) as (_ & _ & Hm). destruct (Hm x G) as [Hn _].
  split; [exact Hn|].
  destruct (get_owner_any_hash_l vh R (snd ic) hp ihp) as (Hs & _). exact (Hs x G).
Qed.

(* ---- the statements of Props.v ---------------------------------------------------------------- *)
Lemma owner_ok_run_iff_l : forall t R ops hp g,
  table_ok t R = true -> 0 <= R -> ops_in_U (fun n => In n (map fst t)) ops ->
  let m := amap_run R ops in
  owner_ok (vnodes t m) hp g = true <->
  ((forall h, ~ live_hash (vh_of t) m h) /\ g = -1) \/
  (exists x k, g = nval x /\ Live (vh_of t) m x k /\ is_succ (live_hash (vh_of t) m) hp k).
Proof.
  intros t R ops hp g Htab HR Hu m. apply (owner_ok_iff t R Htab). apply amap_wf_run; assumption.
Qed.

Lemma owner_ok_determines_l : forall t R ops hp g,
  table_ok t R = true -> 0 <= R -> collision_free t = true ->
  ops_in_U (fun n => In n (map fst t)) ops ->
  owner_ok (vnodes t (amap_run R ops)) hp g = true -> g = spec_get_vs (vnodes t (amap_run R ops)) hp.
Proof. intros t R ops hp g Htab HR Hcf Hu. apply owner_ok_unique_l; assumption. Qed.

Lemma del_reaches_l : forall insts keys delays st i ks k s,
  In k ks -> owner insts keys i k = Some s ->
  In (i, k, s) (snd (cstep insts keys delays st (CDel i ks))).
Proof. intros insts keys delays st i ks k s. apply del_covers_l. Qed.

Lemma single_touches_l : forall insts keys delays st i k s,
  owner insts keys i k = Some s -> snd (cstep insts keys delays st (CSingle i k)) = [(i, k, s)].
Proof. intros insts keys delays st i k s. apply single_covers_l. Qed.
