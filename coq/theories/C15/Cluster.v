(* C15 — the users of the ring: executable model of the dispatch done by
   core/stores/cache/cache.go (cacheCluster) and core/stores/kv/store.go (clusterStore),
   including what happens to a DEL that a cache node could not execute
   (cachenode.go DelCtx -> asyncRetryDelCache -> cleaner.go AddCleanTask / clean / nextDelay).
   No proofs in this file.

   Several instances (clusters) live at once over the same redis servers; each has its own
   ring (a Model.state, built by the constructor with AddWithWeight(node_i, weight_i) in
   configuration order; the value of a ring node is the server's index).  A key is given by
   the two hashes Get computes for it.  What is observable at the servers is the set of
   TOUCHES: (instance, key, server) — a command naming that key arrived at that server.

     every single-key operation            cc.dispatcher.Get(key) -> that node, every command
     cacheCluster.Del(k)                   the same; a failing DEL is retried by the node
     cacheCluster.Del(k1..kn), n >= 2      keys grouped per node (map[any][]string), one
                                           DEL per node; a failing DEL is retried by that node
                                           with that node's keys
     clusterStore.Del(k1..kn)              one DEL per key on its node; no retry
     cleaner                               a failed DEL is re-issued after delays[0] ticks (1 s);
                                           if it fails again, after the next delay of the list
                                           (nextDelay: 1s -> 5s -> 1m -> 5m -> 1h -> give up)

   [cgone] tracks the effect the servers show: the (key, server) pairs on which a DEL succeeded
   since every key was last written on every server ([CPopulate]); it is meaningful ([cclean])
   as long as only Del / fault / tick steps happened since. *)
From Coq Require Import List ZArith Bool.
From GZ Require Import C15.Model.
Import ListNotations.
Open Scope Z_scope.

Record inst := mkInst { icache : bool; iring : state }.

Definition touch := (Z * Z * Z)%type.      (* instance, key, server *)

Inductive cop :=
| CSingle (i k : Z)            (* any single-key operation other than Del, on key k of instance i *)
| CDel (i : Z) (ks : list Z)   (* Del(ks...) on instance i: zero, one or several keys *)
| CDelX (i : Z) (ks : list Z)  (* DelCtx(ctx, ks...) with ctx already cancelled: no command leaves; a cache
                                  node schedules the retry of its keys (the retry uses its own context) *)
| CFault (s : Z) (on : bool)   (* server s rejects every keyed command / accepts them again *)
| CTick                        (* one tick of the cleaner's timing wheel *)
| CPopulate                    (* every key is (re)written on every server, behind the clusters' back *)
| CSnap.                       (* observation only *)

Record pending := mkPend
  { pcount : Z;                (* ticks until it fires *)
    pdelay : Z;                (* the delay it was scheduled with (input of nextDelay) *)
    pinst : Z; psrv : Z; pkeys : list Z }.

Record cstate := mkC
  { cfaults : list Z;
    cpend : list pending;
    cgone : list (Z * Z);
    cclean : bool }.

Definition cinit : cstate := mkC [] [] [] false.

(* nextDelay as a chain: the delay following d in the list, none after the last *)
Fixpoint next_delay (ds : list Z) (d : Z) : option Z :=
  match ds with
  | a :: ((b :: _) as ds') => if a =? d then Some b else next_delay ds' d
  | _ => None
  end.

Section Cluster.
Variable insts : list inst.
Variable keys : list (Z * Z).          (* key |-> hashFunc(repr(key)), hashFunc(innerRepr(key)) *)
Variable delays : list Z.              (* in ticks: [1; 5; 60; 300; 3600] today (C15Consts.cleanDelays) *)

(* dispatcher.Get(key) of instance i, as the server index; none when !ok *)
Definition owner (i k : Z) : option Z :=
  if (i <? 0) || (k <? 0) then None else
  match nth_error insts (Z.to_nat i), nth_error keys (Z.to_nat k) with
  | Some it, Some (hp, ihp) =>
    match get (iring it) hp ihp with GSome x => Some (nval x) | _ => None end
  | _, _ => None
  end.

Definition is_cache (i : Z) : bool :=
  if i <? 0 then false else
  match nth_error insts (Z.to_nat i) with Some it => icache it | None => false end.

Definition fails (st : cstate) (s : Z) : bool := mem s (cfaults st).

Definition add_pending (p : pending) (st : cstate) : cstate :=
  mkC (cfaults st) (cpend st ++ [p]) (cgone st) (cclean st).

Definition add_gone (s : Z) (ks : list Z) (st : cstate) : cstate :=
  mkC (cfaults st) (cpend st) (cgone st ++ map (fun k => (k, s)) ks) (cclean st).

(* one DEL of instance i arriving at server s with keys ks *)
Definition del_cmd (retry : bool) (i s : Z) (ks : list Z) (st : cstate) : cstate * list touch :=
  let ts := map (fun k => (i, k, s)) ks in
  if fails st s then
    match retry, delays with
    | true, d0 :: _ => (add_pending (mkPend d0 d0 i s ks) st, ts)
    | _, _ => (st, ts)
    end
  else (add_gone s ks st, ts).

(* nodes[c] = append(nodes[c], key), the nodes in order of first appearance *)
Fixpoint add_to (s k : Z) (acc : list (Z * list Z)) : list (Z * list Z) :=
  match acc with
  | [] => [(s, [k])]
  | (s', l) :: acc' => if s' =? s then (s', l ++ [k]) :: acc' else (s', l) :: add_to s k acc'
  end.

Fixpoint group (i : Z) (ks : list Z) (acc : list (Z * list Z)) : list (Z * list Z) :=
  match ks with
  | [] => acc
  | k :: ks' => match owner i k with
                | Some s => group i ks' (add_to s k acc)
                | None => group i ks' acc
                end
  end.

Definition seq_cmds {A} (f : A -> cstate -> cstate * list touch) (l : list A) (st : cstate)
  : cstate * list touch :=
  fold_left (fun acc a => let r := f a (fst acc) in (fst r, snd acc ++ snd r)) l (st, []).

Definition del_keys (i : Z) (ks : list Z) (st : cstate) : cstate * list touch :=
  if is_cache i then
    match ks with
    | [] => (st, [])
    | [k] => match owner i k with
             | Some s => del_cmd true i s [k] st
             | None => (st, [])
             end
    | _ => seq_cmds (fun g => del_cmd true i (fst g) (snd g)) (group i ks []) st
    end
  else
    seq_cmds (fun k st' => match owner i k with
                           | Some s => del_cmd false i s [k] st'
                           | None => (st', [])
                           end) ks st.

(* the DEL of a node could not even be sent *)
Definition del_unsent (i s : Z) (ks : list Z) (st : cstate) : cstate * list touch :=
  match delays with
  | d0 :: _ => (add_pending (mkPend d0 d0 i s ks) st, [])
  | [] => (st, [])
  end.

Definition delx_keys (i : Z) (ks : list Z) (st : cstate) : cstate * list touch :=
  if is_cache i then seq_cmds (fun g => del_unsent i (fst g) (snd g)) (group i ks []) st
  else (st, []).

(* a pending retry whose time has come *)
Definition fire (p : pending) (st : cstate) : cstate * list touch :=
  let ts := map (fun k => (pinst p, k, psrv p)) (pkeys p) in
  if fails st (psrv p) then
    match next_delay delays (pdelay p) with
    | Some d => (add_pending (mkPend d d (pinst p) (psrv p) (pkeys p)) st, ts)
    | None => (st, ts)
    end
  else (add_gone (psrv p) (pkeys p) st, ts).

Definition tick_one (p : pending) (st : cstate) : cstate * list touch :=
  if pcount p <=? 1 then fire p st
  else (add_pending (mkPend (pcount p - 1) (pdelay p) (pinst p) (psrv p) (pkeys p)) st, []).

Definition set_fault (s : Z) (on : bool) (l : list Z) : list Z :=
  if on then s :: del s l else del s l.

Definition cstep (st : cstate) (o : cop) : cstate * list touch :=
  match o with
  | CSingle i k =>
    match owner i k with
    | Some s => (mkC (cfaults st) (cpend st) (cgone st) false, [(i, k, s)])
    | None => (st, [])
    end
  | CDel i ks => del_keys i ks st
  | CDelX i ks => delx_keys i ks st
  | CFault s on => (mkC (set_fault s on (cfaults st)) (cpend st) (cgone st) (cclean st), [])
  | CTick => seq_cmds tick_one (cpend st) (mkC (cfaults st) [] (cgone st) (cclean st))
  | CPopulate => (mkC (cfaults st) (cpend st) [] true, [])
  | CSnap => (st, [])
  end.

(* per step: the touches, and the state after it *)
Fixpoint crun (st : cstate) (ops : list cop) : list (cstate * list touch) :=
  match ops with
  | [] => []
  | o :: ops' => let r := cstep st o in r :: crun (fst r) ops'
  end.

End Cluster.
