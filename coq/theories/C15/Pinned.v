(* C15 — (1) Remove as it was at the pinned commit (before fix 18b2068, finding
   F18-remove-deletes-foreign-keys): it deleted one key per index i < h.replicas whether
   or not the removed node owned a ring entry at that hash.  Refuted by a concrete
   history, evaluated with vm_compute; the same history was replayed on the real code
   (notes/C15.md).
   (2) The repaired model still depends on the insertion order inside a collision
   bucket: history independence fails without the collision_free hypothesis. *)
From Coq Require Import List ZArith Bool.
From GZ Require Import C15.Model.
Import ListNotations.
Open Scope Z_scope.

Section Pinned.
Variable vh : Z -> Z -> Z.
Variable R : Z.

Definition pinned_remove_vnode (n : Z) (s : state) (i : Z) : state :=
  let h := vh n i in
  let b := bucket h (ring s) in
  let b' := filter (fun x => negb (has_repr n x)) b in
  let ring' := match b with
               | [] => ring s
               | _ => match b' with
                      | [] => drop_bucket h (ring s)
                      | _ => set_bucket h b' (ring s)
                      end
               end in
  mkState (remove_one h (keys s)) ring' (nodes s).

Definition pinned_remove (n : Z) (s : state) : state :=
  if mem n (nodes s) then
    let s' := fold_left (pinned_remove_vnode n) (indices R) s in
    mkState (keys s') (ring s') (del n (nodes s'))
  else s.

Definition pinned_add (x : node) (r : Z) (s : state) : state :=
  let s1 := pinned_remove (nrepr x) s in
  let r' := if R <? r then R else r in
  let s2 := mkState (keys s1) (ring s1)
                    (if mem (nrepr x) (nodes s1) then nodes s1 else nodes s1 ++ [nrepr x]) in
  let s3 := fold_left (add_vnode vh x) (indices r') s2 in
  mkState (sort (keys s3)) (ring s3) (nodes s3).

Definition pinned_step (s : state) (o : op) : state :=
  match o with
  | OAdd x => pinned_add x R s
  | OAddR x r => pinned_add x r s
  | OAddW x w => pinned_add x (Z.quot (R * w) 100) s
  | ORemove x => pinned_remove (nrepr x) s
  end.

Definition pinned_run (ops : list op) : state := fold_left pinned_step ops init.
End Pinned.

(* a hash with the ambiguity of repr + itoa(i): the decimal concatenation itself, so that
   node 1 / index 10 and node 11 / index 0 are both "110" *)
Definition concat_hash (n i : Z) : Z := if i <? 10 then n * 10 + i else n * 100 + i.

Example concat_ambiguous : concat_hash 1 10 = concat_hash 11 0.
Proof. reflexivity. Qed.

(* AddWithWeight("11", 1); AddWithWeight("1", 10); Remove("1"); Get(x) *)
Definition f18_history : list op :=
  [OAddW (mkNode 11 0) 1; OAddW (mkNode 1 1) 10; ORemove (mkNode 1 1)].

Theorem pinned_get_panics_refuted :
  exists vh R ops hp ihp, get (pinned_run vh R ops) hp ihp = GPanic.
Proof. exists concat_hash, 100, f18_history, 5, 7. vm_compute. reflexivity. Qed.

(* node 11 is still a member but lost its only key: stale ring entry, no key *)
Example f18_state :
  let s := pinned_run concat_hash 100 f18_history in
  keys s = [] /\ ring s = [(110, [mkNode 11 0])] /\ nodes s = [11].
Proof. vm_compute. auto. Qed.

(* the repaired model on the same history *)
Example f18_fixed :
  let s := run concat_hash 100 f18_history in
  keys s = [110] /\ ring s = [(110, [mkNode 11 0])] /\ get s 5 7 = GSome (mkNode 11 0).
Proof. vm_compute. auto. Qed.

(* removing a low-weight node moves keys that were not assigned to it:
   Add(11); Add(2); AddWithWeight(1, 10); a key hashing to 110 is served by 11; after
   Remove(1) the pinned algorithm serves it from the next key on the ring *)
Definition f18_history2 : list op := [OAdd (mkNode 11 0); OAdd (mkNode 2 1); OAddW (mkNode 1 2) 10].
Theorem pinned_remove_moves_foreign_keys_refuted :
  exists vh R pre x hp ihp a b,
    get (pinned_run vh R pre) hp ihp = GSome a /\
    get (pinned_run vh R (pre ++ [ORemove x])) hp ihp = GSome b /\
    a <> b /\ nrepr a <> nrepr x.
Proof.
  exists concat_hash, 100, f18_history2, (mkNode 1 2), 110, 0, (mkNode 11 0), (mkNode 2 1).
  vm_compute. repeat split; try reflexivity; try discriminate.
Qed.

(* (2) insertion order inside a collision bucket: Add(1); Add(11) versus Add(11); Add(1)
   — same final node map, different answer for a key whose hash lands in the shared
   slot 110 (the two nodes share the ten strings "110".."119") *)
Theorem bucket_order_refuted :
  exists vh R ops1 ops2 hp ihp,
    (forall n, In n (nodes (run vh R ops1)) <-> In n (nodes (run vh R ops2))) /\
    get (run vh R ops1) hp ihp <> get (run vh R ops2) hp ihp.
Proof.
  exists concat_hash, 100, [OAdd (mkNode 1 0); OAdd (mkNode 11 1)], [OAdd (mkNode 11 1); OAdd (mkNode 1 0)], 110, 0.
  split.
  - intros n. vm_compute. tauto.
  - vm_compute. discriminate.
Qed.
