(* C15 — (1) Remove as it was at the pinned commit (before fix 18b2068, finding
   F18-remove-deletes-foreign-keys): it deleted one key per index i < h.replicas whether
   or not the removed node owned a ring entry at that hash.  Refuted by a concrete
   history, evaluated with vm_compute; the same history was replayed on the real code
   (notes/C15.md).
   (2) The repaired model still depends on the insertion order inside a collision
   bucket: history independence fails without the collision_free hypothesis. *)
From Coq Require Import List ZArith Bool.
From GZ Require Import C15.Model C15.Cluster C15.Conc C15.Check C15.Proofs C15.ProofsB.
Import ListNotations.
Open Scope Z_scope.

Section Pinned.
Variable vh : Z -> Z -> Z.
Variable R : Z.

Definition pinned_remove_vnode (n : Z) (s : state) (i : Z) : state :=
  let h := vh n i in
  let b := bucket h (ring s) in
  let b' := filter (fun x => negb (has_repr n x)) b in
  let ring' := match b with
               | [] => ring s
               | _ => match b' with
                      | [] => drop_bucket h (ring s)
                      | _ => set_bucket h b' (ring s)
                      end
               end in
  mkState (remove_one h (keys s)) ring' (nodes s).

Definition pinned_remove (n : Z) (s : state) : state :=
  if mem n (nodes s) then
    let s' := fold_left (pinned_remove_vnode n) (indices R) s in
    mkState (keys s') (ring s') (del n (nodes s'))
  else s.

Definition pinned_add (x : node) (r : Z) (s : state) : state :=
  let s1 := pinned_remove (nrepr x) s in
  let r' := if R <? r then R else r in
  let s2 := mkState (keys s1) (ring s1)
                    (if mem (nrepr x) (nodes s1) then nodes s1 else nodes s1 ++ [nrepr x]) in
  let s3 := fold_left (add_vnode vh x) (indices r') s2 in
  mkState (sort (keys s3)) (ring s3) (nodes s3).

Definition pinned_step (s : state) (o : op) : state :=
  match o with
  | OAdd x => pinned_add x R s
  | OAddR x r => pinned_add x r s
  | OAddW x w => pinned_add x (Z.quot (R * w) 100) s
  | ORemove x => pinned_remove (nrepr x) s
  end.

Definition pinned_run (ops : list op) : state := fold_left pinned_step ops init.
End Pinned.

(* a hash with the ambiguity of repr + itoa(i): the decimal concatenation itself, so that
   node 1 / index 10 and node 11 / index 0 are both "110" *)
Definition concat_hash (n i : Z) : Z := if i <? 10 then n * 10 + i else n * 100 + i.

Example concat_ambiguous : concat_hash 1 10 = concat_hash 11 0.
Proof. reflexivity. Qed.

(* AddWithWeight("11", 1); AddWithWeight("1", 10); Remove("1"); Get(x) *)
Definition f18_history : list op :=
  [OAddW (mkNode 11 0) 1; OAddW (mkNode 1 1) 10; ORemove (mkNode 1 1)].

Theorem pinned_get_panics_refuted :
  exists vh R ops hp ihp, get (pinned_run vh R ops) hp ihp = GPanic.
Proof. exists concat_hash, 100, f18_history, 5, 7. vm_compute. reflexivity. Qed.

(* node 11 is still a member but lost its only key: stale ring entry, no key *)
Example f18_state :
  let s := pinned_run concat_hash 100 f18_history in
  keys s = [] /\ ring s = [(110, [mkNode 11 0])] /\ nodes s = [11].
Proof. vm_compute. auto. Qed.

(* the repaired model on the same history *)
Example f18_fixed :
  let s := run concat_hash 100 f18_history in
  keys s = [110] /\ ring s = [(110, [mkNode 11 0])] /\ get s 5 7 = GSome (mkNode 11 0).
Proof. vm_compute. auto. Qed.

(* removing a low-weight node moves keys that were not assigned to it:
   Add(11); Add(2); AddWithWeight(1, 10); a key hashing to 110 is served by 11; after
   Remove(1) the pinned algorithm serves it from the next key on the ring *)
Definition f18_history2 : list op := [OAdd (mkNode 11 0); OAdd (mkNode 2 1); OAddW (mkNode 1 2) 10].
Theorem pinned_remove_moves_foreign_keys_refuted :
  exists vh R pre x hp ihp a b,
    get (pinned_run vh R pre) hp ihp = GSome a /\
    get (pinned_run vh R (pre ++ [ORemove x])) hp ihp = GSome b /\
    a <> b /\ nrepr a <> nrepr x.
Proof.
  exists concat_hash, 100, f18_history2, (mkNode 1 2), 110, 0, (mkNode 11 0), (mkNode 2 1).
  vm_compute. repeat split; try reflexivity; try discriminate.
Qed.

(* (2) insertion order inside a collision bucket: Add(1); Add(11) versus Add(11); Add(1)
   — same final node map, different answer for a key whose hash lands in the shared
   slot 110 (the two nodes share the ten strings "110".."119") *)
Theorem bucket_order_refuted :
  exists vh R ops1 ops2 hp ihp,
    (forall n, In n (nodes (run vh R ops1)) <-> In n (nodes (run vh R ops2))) /\
    get (run vh R ops1) hp ihp <> get (run vh R ops2) hp ihp.
Proof.
  exists concat_hash, 100, [OAdd (mkNode 1 0); OAdd (mkNode 11 1)], [OAdd (mkNode 11 1); OAdd (mkNode 1 0)], 110, 0.
  split.
  - intros n. vm_compute. tauto.
  - vm_compute. discriminate.
Qed.

(* (3) seeded change C15-3 — cacheCluster.DelCtx rewritten to "resolve the owners first, then delete
   node by node" with ONE scratch slice (batch = batch[:0]) passed variadically to every node's
   DelCtx.  A node whose DEL fails keeps that very slice for its delayed retry
   (asyncRetryDelCache's closure); when the retry fires the slice holds what the nodes processed
   later wrote into it.  [overlay] is the aliasing: a node's batch overwrites a prefix of the
   buffer; the failed node re-reads its prefix length from the final buffer. *)
Section PinnedCluster.
Variable insts : list inst.
Variable keys : list (Z * Z).
Variable delays : list Z.

Definition overlay (buf new : list Z) : list Z := new ++ skipn (length new) buf.

Definition shared_del_cmd (final : list Z) (i s : Z) (ks : list Z) (st : cstate) : cstate * list touch :=
  let ts := map (fun k => (i, k, s)) ks in
  if fails st s then
    match delays with
    | d0 :: _ => (add_pending (mkPend d0 d0 i s (firstn (length ks) final)) st, ts)
    | [] => (st, ts)
    end
  else (add_gone s ks st, ts).

Definition shared_del_keys (i : Z) (ks : list Z) (st : cstate) : cstate * list touch :=
  match ks with
  | _ :: _ :: _ =>
    if is_cache insts i then
      let g := group insts keys i ks [] in
      let final := fold_left overlay (map snd g) [] in
      seq_cmds (fun e => shared_del_cmd final i (fst e) (snd e)) g st
    else del_keys insts keys delays i ks st
  | _ => del_keys insts keys delays i ks st
  end.

Definition shared_cstep (st : cstate) (o : cop) : cstate * list touch :=
  match o with
  | CDel i ks => shared_del_keys i ks st
  | _ => cstep insts keys delays st o
  end.

Fixpoint shared_crun (st : cstate) (ops : list cop) : list (cstate * list touch) :=
  match ops with
  | [] => []
  | o :: ops' => let r := shared_cstep st o in r :: shared_crun (fst r) ops'
  end.
End PinnedCluster.

(* two nodes (servers 0 and 1) with virtual nodes 100..199 and 200..299; key 0 hashes to 150
   (node 0), key 1 to 250 (node 1) *)
Definition sc_insts : list inst :=
  [mkInst true (run (fun n i => n * 100 + i) 100 [OAdd (mkNode 1 0); OAdd (mkNode 2 1)])].
Definition sc_keys : list (Z * Z) := [(150, 0); (250, 0)].
(* server 0 is down while Del(key0, key1) runs; it is up again when the cleaner ticks *)
Definition sc_script : list cop := [CFault 0 true; CDel 0 [0; 1]; CFault 0 false; CTick].

Example sc_owners : owner sc_insts sc_keys 0 0 = Some 0 /\ owner sc_insts sc_keys 0 1 = Some 1.
Proof. vm_compute. auto. Qed.

(* the retry of node 0 deletes key 1 — which the ring assigns to node 1 — on server 0 *)
Theorem shared_scratch_refuted :
  exists insts keys delays ops r i k s,
    In r (shared_crun insts keys delays cinit ops) /\ In (i, k, s) (snd r) /\ owner insts keys i k <> Some s.
Proof.
  exists sc_insts, sc_keys, [1; 5], sc_script.
  eexists. exists 0, 1, 0. split; [|split].
  - vm_compute. right. right. right. left. reflexivity.
  - cbn [snd]. left. reflexivity.
  - vm_compute. discriminate.
Qed.

(* the model of the code as it is, on the same script: the retry deletes key 0 on server 0 *)
Example sc_as_is :
  map snd (crun sc_insts sc_keys [1; 5] cinit sc_script) = [[]; [(0, 0, 0); (0, 1, 1)]; []; [(0, 0, 0)]].
Proof. vm_compute. reflexivity. Qed.

(* (4) minimal disruption without collision-freeness: three nodes share one slot (as "a"+"120",
   "a1"+"20", "a12"+"0" do under murmur3 with 150 replicas); the bucket is [1; 2] and the key's inner
   hash picks index 4 mod 2 = 0; once node 3 joined the bucket is [1; 2; 3] and 4 mod 3 = 1: ADDING
   node 3 moved the key from node 1 to node 2.  (Replayed on the real code: corpus history
   Add(a); Add(a1); Add(a12), key85.) *)
Definition three_way_hash (n i : Z) : Z := if i =? 0 then 7 else n * 1000 + i.

Theorem add_moves_between_others_refuted :
  exists vh R ops x hp ihp a b,
    ~ In (nrepr x) (nodes (run vh R ops)) /\
    get (run vh R ops) hp ihp = GSome a /\
    get (step vh R (run vh R ops) (OAdd x)) hp ihp = GSome b /\
    a <> b /\ nrepr a <> nrepr x /\ nrepr b <> nrepr x.
Proof.
  exists three_way_hash, 3, [OAdd (mkNode 1 1); OAdd (mkNode 2 2)], (mkNode 3 3), 5, 4, (mkNode 1 1), (mkNode 2 2).
  vm_compute. repeat split; try reflexivity; try discriminate.
  intros [H|[H|[]]]; discriminate.
Qed.

(* (5) seeded change C15-5 — h.nodes records with how many virtual nodes a member was added, and
   Remove walks only i < that count instead of i < h.replicas.  Sequentially equivalent; but between
   the two critical sections of AddWithReplicas other calls run: when two weight updates of one node
   race (both past their Remove, the larger insertion first, the smaller last) the ring holds both
   layers and the recorded count is the smaller one — Remove then leaves the surplus of the larger
   layer in the ring and forgets the node. *)
Section Pinned5.
Variable vh : Z -> Z -> Z.
Variable R : Z.

Record pstate := mkP { pst : state; pcnt : list (Z * Z) }.   (* repr |-> recorded count *)

Fixpoint pcount (n : Z) (l : list (Z * Z)) : option Z :=
  match l with
  | [] => None
  | (k, c) :: l' => if k =? n then Some c else pcount n l'
  end.

Definition p5_remove (n : Z) (p : pstate) : pstate :=
  match pcount n (pcnt p) with
  | None => p
  | Some c =>
    let s' := fold_left (remove_vnode vh n) (indices c) (pst p) in
    mkP (mkState (keys s') (ring s') (del n (nodes s')))
        (filter (fun kc => negb (fst kc =? n)) (pcnt p))
  end.

Definition p5_insert (x : node) (r : Z) (p : pstate) : pstate :=
  let r' := if R <? r then R else r in
  mkP (ring_insert vh R x r (pst p))
      ((nrepr x, r') :: filter (fun kc => negb (fst kc =? nrepr x)) (pcnt p)).

Definition p5_step (p : pstate) (a : act) : pstate :=
  match a with ARemove n => p5_remove n p | AInsert x r => p5_insert x r p end.

Definition p5_run (acts : list act) : pstate := fold_left p5_step acts (mkP init []).
End Pinned5.

(* updater A (50 replicas) and updater B (100) of node 1 both ran their Remove; B inserts, then A;
   then the node is removed *)
Definition race_acts : list act :=
  [ARemove 1; ARemove 1; AInsert (mkNode 1 0) 100; AInsert (mkNode 1 0) 50; ARemove 1].

Theorem recorded_count_remove_refuted :
  exists vh R pre n post hp ihp y,
    forallb (fun a => match a with AInsert x _ => negb (nrepr x =? n) | ARemove _ => true end) post = true /\
    nrepr y = n /\
    get (pst (p5_run vh R (pre ++ ARemove n :: post))) hp ihp = GSome y.
Proof.
  exists (fun n i => n * 1000 + i), 100,
         [ARemove 1; ARemove 1; AInsert (mkNode 1 0) 100; AInsert (mkNode 1 0) 50], 1, [], 1075, 0, (mkNode 1 0).
  vm_compute. auto.
Qed.

(* the code as it is, on the same actions: the mixed state holds 150 entries of node 1, Remove takes
   all of them out *)
Example race_as_is :
  length (keys (arun (fun n i => n * 1000 + i) 100 [ARemove 1; ARemove 1; AInsert (mkNode 1 0) 100; AInsert (mkNode 1 0) 50])) = 150%nat /\
  get (arun (fun n i => n * 1000 + i) 100 race_acts) 1075 0 = GNone /\
  ring (arun (fun n i => n * 1000 + i) 100 race_acts) = [].
Proof. vm_compute. auto. Qed.

(* (6) seeded change C15-7 — two edits, each fine alone.  (a) Get takes the read lock only to fetch
   the slot (slotOf) and picks nodes[pos] AFTER releasing it: the lookup is split into [lookup] and
   [pick], and membership actions can run in between; the pick reads the slot's backing array as it is
   THEN, with the length it had at the lookup.  (b) removeRingNode filters with slices.DeleteFunc,
   which (Go >= 1.22) zeroes the tail of the backing array.  [backing]: what the array captured at the
   lookup holds at the pick, after removals in that slot — the surviving entries first, then either
   the stale old entries (in-place filter of HEAD) or nils (DeleteFunc). *)
Inductive pick := PNone | PNode (x : node) | PNil.

Section Pinned7.
Variable vh : Z -> Z -> Z.
Variable R : Z.

Definition backing (zero_tail : bool) (old new : list node) : list (option node) :=
  map Some new ++
  (if zero_tail then repeat None (length old - length new)
   else map Some (skipn (length new) old)).

(* the slot of the key in state s *)
Definition slot_key (s : state) (hp : Z) : option Z :=
  match keys s with
  | [] => None
  | k0 :: _ => Some (nth (Nat.modulo (search hp (keys s)) (length (keys s))) (keys s) k0)
  end.

(* lookup in [s1]; membership actions (removals only touch the array in place) lead to [s2]; pick *)
Definition split_get (zero_tail : bool) (s1 s2 : state) (hp ihp : Z) : pick :=
  match ring s1, slot_key s1 hp with
  | [], _ | _, None => PNone
  | _, Some k =>
    let old := bucket k (ring s1) in
    let arr := backing zero_tail old (bucket k (ring s2)) in
    match old with
    | [] => PNone
    | [_] => match nth 0 arr None with Some x => PNode x | None => PNil end
    | _ => match nth (Z.to_nat (ihp mod Z.of_nat (length old))) arr None with Some x => PNode x | None => PNil end
    end
  end.
End Pinned7.

(* nodes 1 and 2 share slot 7 (their virtual node 0); the key lands on it and its inner hash picks
   index 1 = node 2; Remove(2) runs between the lookup and the pick *)
Definition c157_pre : list act :=
  [ARemove 1; AInsert (mkNode 1 1) 3; ARemove 2; AInsert (mkNode 2 2) 3].

Theorem split_get_with_zeroing_delete_refuted :
  exists vh R pre mid hp ihp,
    split_get true (arun vh R pre) (arun vh R (pre ++ mid)) hp ihp = PNil /\
    get (arun vh R pre) hp ihp <> GNone /\ get (arun vh R (pre ++ mid)) hp ihp <> GNone.
Proof.
  exists three_way_hash, 3, c157_pre, [ARemove 2], 5, 1. vm_compute. repeat split; discriminate.
Qed.

(* each edit alone stays linearisable on this execution: with the in-place filter the split lookup
   still answers node 2 (the answer before the Remove); the atomic lookup answers node 2 before and
   node 1 after *)
Example c157_each_edit_alone :
  split_get false (arun three_way_hash 3 c157_pre) (arun three_way_hash 3 (c157_pre ++ [ARemove 2])) 5 1
    = PNode (mkNode 2 2) /\
  get (arun three_way_hash 3 c157_pre) 5 1 = GSome (mkNode 2 2) /\
  get (arun three_way_hash 3 (c157_pre ++ [ARemove 2])) 5 1 = GSome (mkNode 1 1) /\
  split_get true (arun three_way_hash 3 c157_pre) (arun three_way_hash 3 c157_pre) 5 1 = PNode (mkNode 2 2).
Proof. vm_compute. auto. Qed.

(* (7) seeded change C15-9 — AddWithReplicas copies h.keys under the read lock, hashes and sorts the
   copy with no lock held, and under the write lock publishes the prepared slice if len(h.keys) is
   still the length it copied (else appends and sorts the current keys).  The insertion becomes
   [snapshot] ... [publish]; the length test is an ABA check: a Remove of one node and an Add of
   another with the same number of virtual nodes in between leave the length unchanged. *)
Section Pinned9.
Variable vh : Z -> Z -> Z.
Variable R : Z.

(* publish: ring slots on the current ring; keys from the stale snapshot if the count matches *)
Definition p9_publish (x : node) (r : Z) (snapshot : list Z) (s : state) : state :=
  let r' := if R <? r then R else r in
  let hashes := map (vh (nrepr x)) (indices r') in
  let s2 := mkState (keys s) (ring s)
                    (if mem (nrepr x) (nodes s) then nodes s else nodes s ++ [nrepr x]) in
  let s3 := fold_left (fun st i => mkState (keys st)
                         (set_bucket (vh (nrepr x) i) (bucket (vh (nrepr x) i) (ring st) ++ [x]) (ring st)) (nodes st))
                      (indices r') s2 in
  mkState (if Nat.eqb (length (keys s)) (length snapshot) then sort (snapshot ++ hashes) else sort (keys s ++ hashes))
          (ring s3) (nodes s3).
End Pinned9.

(* ring {keep = 1, b = 2}; Add(a = 3) takes its snapshot; Remove(b); Add(c = 4) (same count); publish *)
Definition p9_hash (n i : Z) : Z := n * 1000 + i.
Definition p9_before : state := arun p9_hash 3 [AInsert (mkNode 1 1) 3; AInsert (mkNode 2 2) 3].
Definition p9_swapped : state := arun p9_hash 3 [AInsert (mkNode 1 1) 3; AInsert (mkNode 2 2) 3; ARemove 2; AInsert (mkNode 4 4) 3].
Definition p9_after : state := p9_publish p9_hash 3 (mkNode 3 3) 3 (keys p9_before) p9_swapped.

(* the ring is not empty, node 4 is a member with three ring slots — and a key hashing just below the
   removed node's dangling hash gets NO node; node 4 is never the answer for its own hashes *)
Theorem count_check_publish_refuted :
  ring p9_after <> [] /\ In 4 (nodes p9_after) /\
  get p9_after 2000 0 = GNone /\
  get p9_after 4001 0 <> GSome (mkNode 4 4) /\
  get (arun p9_hash 3 [AInsert (mkNode 1 1) 3; AInsert (mkNode 2 2) 3; ARemove 2; AInsert (mkNode 4 4) 3; AInsert (mkNode 3 3) 3]) 4001 0
    = GSome (mkNode 4 4).
Proof. vm_compute. repeat split; try discriminate; auto. Qed.

(* without the swap the count differs or the content is the same: the variant agrees with the code as it is *)
Example p9_no_interference :
  p9_publish p9_hash 3 (mkNode 3 3) 3 (keys p9_before) p9_before = astep p9_hash 3 p9_before (AInsert (mkNode 3 3) 3).
Proof. vm_compute. reflexivity. Qed.

(* (8) seeded change C15-10 — "re-adding a node with an unchanged replica count is a no-op": next to the
   node set the ring records, per repr, the number of virtual nodes the member was added with;
   AddWithReplicas clamps the count and RETURNS when the repr is registered with exactly that count.
   Membership is keyed by the repr, but a lookup returns the VALUE stored in the slots: a later add of a
   different value with the same repr (another pointer with the same String(), 1 vs "1") and the same
   effective count must replace the former value — here the former value stays. *)
Section Pinned10.
Variable vh : Z -> Z -> Z.
Variable R : Z.

Definition p10_remove (n : Z) (p : pstate) : pstate :=
  mkP (remove vh R n (pst p)) (filter (fun kc => negb (fst kc =? n)) (pcnt p)).

Definition p10_add (x : node) (r : Z) (p : pstate) : pstate :=
  let r' := if R <? r then R else r in
  let fresh := mkP (add_with_replicas vh R x r' (pst p))
                   ((nrepr x, r') :: filter (fun kc => negb (fst kc =? nrepr x)) (pcnt p)) in
  match pcount (nrepr x) (pcnt p) with
  | Some c => if c =? r' then p else fresh        (* holds(repr, replicas): nothing to do *)
  | None => fresh
  end.

Definition p10_step (p : pstate) (o : op) : pstate :=
  match o with
  | OAdd x => p10_add x R p
  | OAddR x r => p10_add x r p
  | OAddW x w => p10_add x (Z.quot (wrap64 (R * w)) 100) p
  | ORemove x => p10_remove (nrepr x) p
  end.

Definition p10_run (ops : list op) : state := pst (fold_left p10_step ops (mkP init [])).
End Pinned10.

Definition p10_hash (n i : Z) : Z := n * 1000 + i.

(* the statement of Props.latest_value_wins fails for the variant: Add(value 0 of repr 1), then
   AddWithReplicas(value 1 of repr 1, 150) — 150 is truncated to h.replicas = 100, the recorded count —
   and the lookup is still answered with value 0, which is no longer in the ring's membership *)
Theorem same_count_skip_refuted :
  exists vh R pre o post hp ihp y,
    is_add o = true /\
    forallb (fun o' => negb (nrepr (op_node o') =? nrepr (op_node o))) post = true /\
    get (p10_run vh R (pre ++ o :: post)) hp ihp = GSome y /\
    nrepr y = nrepr (op_node o) /\ y <> op_node o.
Proof.
  exists p10_hash, 100, [OAdd (mkNode 1 0)], (OAddR (mkNode 1 1) 150), [OAdd (mkNode 2 2)], 1050, 0, (mkNode 1 0).
  vm_compute. repeat split; try reflexivity. discriminate.
Qed.

(* ... and so does history independence over (repr |-> replicas, value): two histories with the same
   final node map, different answers (the result depends on the registration history) *)
Theorem same_count_skip_history_dependent_refuted :
  exists vh R ops1 ops2 hp ihp,
    (forall n, alookup n (amap_run R ops1) = alookup n (amap_run R ops2)) /\
    get (p10_run vh R ops1) hp ihp <> get (p10_run vh R ops2) hp ihp.
Proof.
  exists p10_hash, 100, [OAddW (mkNode 1 0) 50; OAddW (mkNode 1 1) 50], [OAddW (mkNode 1 1) 50], 1010, 0.
  split; [intros n; vm_compute; reflexivity | vm_compute; discriminate].
Qed.

(* the code as it is, on the same histories: the later value answers, both histories agree; and the
   variant is the code as it is whenever the count changes or a Remove comes in between *)
Example p10_as_is :
  get (run p10_hash 100 [OAdd (mkNode 1 0); OAddR (mkNode 1 1) 150; OAdd (mkNode 2 2)]) 1050 0 = GSome (mkNode 1 1) /\
  get (run p10_hash 100 [OAddW (mkNode 1 0) 50; OAddW (mkNode 1 1) 50]) 1010 0 = GSome (mkNode 1 1) /\
  p10_run p10_hash 100 [OAdd (mkNode 1 0); OAddW (mkNode 1 1) 50] = run p10_hash 100 [OAdd (mkNode 1 0); OAddW (mkNode 1 1) 50] /\
  p10_run p10_hash 100 [OAdd (mkNode 1 0); ORemove (mkNode 1 0); OAdd (mkNode 1 1)] =
    run p10_hash 100 [OAdd (mkNode 1 0); ORemove (mkNode 1 0); OAdd (mkNode 1 1)].
Proof. vm_compute. auto. Qed.

(* (9) seeded change C15-11 — the hash input is assembled in ONE scratch buffer of the ring ("guarded by lock"),
   which Get fills and hashes while holding only the READ lock: two lookups overlap, the second one's bytes
   replace the first one's before they are hashed, and the first lookup answers the second key's owner although
   the ring did not change.  [lrun true]: the shared buffer. *)
Definition p11_ring : state := run p10_hash 100 [OAdd (mkNode 1 0); OAdd (mkNode 2 1)].
Definition p11_keys : list (Z * Z) := [(1050, 0); (2050, 0)].

Theorem shared_buffer_gets_refuted :
  exists s keys steps t g,
    In (t, g) (lrun true s keys (fun _ => None) steps) /\
    g <> get s (fst (key_of keys t)) (snd (key_of keys t)).
Proof.
  exists p11_ring, p11_keys, [LCopy 0; LCopy 1; LHash 1; LHash 0]%nat, 0%nat, (GSome (mkNode 2 1)).
  split; [vm_compute; auto | vm_compute; discriminate].
Qed.

(* the same interleaving with private bytes (the code as it is), and the shared buffer without overlap *)
Example p11_as_is :
  lrun false p11_ring p11_keys (fun _ => None) [LCopy 0; LCopy 1; LHash 1; LHash 0]%nat =
    [(1%nat, GSome (mkNode 2 1)); (0%nat, GSome (mkNode 1 0))] /\
  lrun true p11_ring p11_keys (fun _ => None) [LCopy 0; LHash 0; LCopy 1; LHash 1]%nat =
    [(0%nat, GSome (mkNode 1 0)); (1%nat, GSome (mkNode 2 1))].
Proof. vm_compute. auto. Qed.
