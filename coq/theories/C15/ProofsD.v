(* C15 — Check.prop_ok is implied by Check.agrees on ring histories: whatever the model answers
   passes every clause of the property check (membership, owner of the successor slot, equality
   with spec_get, moves only to/from the operation's node, same node map => same answers).
   So a property alarm always comes with (or from) a difference between implementation and
   model, and the decidable clauses are consequences of the theorems of Props.v. *)
From Coq Require Import List ZArith Bool Sorted Lia.
From GZ Require Import C15.Model C15.Cluster C15.Check C15.Proofs C15.ProofsB C15.ProofsC.
Import ListNotations.
Open Scope Z_scope.

(* ---- boolean equalities ---------------------------------------------------------------------- *)
Lemma list_eqb_eq : forall A (eqb : A -> A -> bool),
  (forall a b, eqb a b = true <-> a = b) ->
  forall l1 l2, list_eqb eqb l1 l2 = true <-> l1 = l2.
Proof.
  intros A eqb H. induction l1 as [|a l1 IH]; intros [|b l2]; cbn [list_eqb]; try (split; [discriminate | discriminate]).
  - split; reflexivity.
  - rewrite andb_true_iff, H, IH. split; [intros [-> ->]; reflexivity | intros E; inversion E; auto].
Qed.

Lemma zs_eqb_eq : forall l1 l2, zs_eqb l1 l2 = true <-> l1 = l2.
Proof. apply list_eqb_eq. intros a b. apply Z.eqb_eq. Qed.

Lemma zss_eqb_eq : forall l1 l2, list_eqb zs_eqb l1 l2 = true <-> l1 = l2.
Proof. apply list_eqb_eq. exact zs_eqb_eq. Qed.

Lemma e_eqb_eq : forall a b, e_eqb a b = true <-> a = b.
Proof.
  intros [n [r v]] [n' [r' v']]. unfold e_eqb. cbn [fst snd].
  rewrite !andb_true_iff, !Z.eqb_eq. split; [intros [[-> ->] ->]; reflexivity | intros E; inversion E; auto].
Qed.

(* ---- value_of, canon_map ---------------------------------------------------------------------- *)
Lemma members_in : forall (m : amap) n r v, In (n, (r, v)) (members m) <-> In (n, (r, v)) m /\ 0 < r.
Proof. intros m n r v. unfold members. rewrite filter_In. cbn [fst snd]. rewrite Z.ltb_lt. tauto. Qed.

Lemma find_first : forall (m : amap) n rv, NoDup (map fst m) -> In (n, rv) m ->
  find (fun e => fst e =? n) m = Some (n, rv).
Proof.
  induction m as [|[k rv0] m IH]; intros n rv ND Hin; [contradiction|]. cbn [find fst].
  cbn [map fst] in ND. inversion ND as [|? ? Hk ND']; subst.
  destruct (k =? n) eqn:E.
  - apply Z.eqb_eq in E. subst k. destruct Hin as [H|H]; [inversion H; reflexivity|].
    exfalso. apply Hk. apply in_map_iff. exists (n, rv). auto.
  - apply Z.eqb_neq in E. destruct Hin as [H|H]; [inversion H; congruence|]. apply IH; assumption.
Qed.

Lemma members_nodup : forall (m : amap), NoDup (map fst m) -> NoDup (map fst (members m)).
Proof.
  unfold members. induction m as [|e m IH]; intros ND; cbn [filter map]; [constructor|].
  cbn [map] in ND. inversion ND as [|? ? He ND']; subst.
  destruct (0 <? fst (snd e)); [|apply IH; exact ND'].
  cbn [map]. constructor; [|apply IH; exact ND'].
  intros H. apply He. apply in_map_iff in H. destruct H as [e' [E' H]]. apply filter_In in H.
  apply in_map_iff. exists e'. tauto.
Qed.

Lemma value_of_member : forall (m : amap) n r v, NoDup (map fst m) -> In (n, (r, v)) m -> 0 < r ->
  value_of n m = Some v.
Proof.
  intros m n r v ND Hin Hr. unfold value_of.
  rewrite (find_first (members m) n (r, v)); [reflexivity | apply members_nodup; exact ND | apply members_in; auto].
Qed.

Lemma ins_e_in : forall e l x, In x (ins_e e l) <-> x = e \/ In x l.
Proof.
  intros e l x. induction l as [|y l IH]; cbn [ins_e]; [cbn; intuition|].
  destruct (fst e <=? fst y); cbn [In]; [intuition | rewrite IH; intuition].
Qed.

Lemma canon_map_in : forall (m : amap) x, In x (canon_map m) <-> In x (members m).
Proof.
  intros m x. unfold canon_map. induction (members m) as [|e l IH]; cbn [fold_right]; [tauto|].
  rewrite ins_e_in, IH. cbn [In]. intuition.
Qed.

(* ---- history independence from the LIVE virtual nodes only ------------------------------------- *)
(* a node's entry of the map, if it has at least one replica *)
Definition member_lookup (n : Z) (m : amap) : option (Z * Z) :=
  match alookup n m with
  | Some (r, v) => if 0 <? r then Some (r, v) else None
  | None => None
  end.

Section LiveEquiv.
Variable vh : Z -> Z -> Z.
Variable R : Z.
Variable U : Z -> Prop.
Hypothesis cf : collision_free_on vh R U.

Lemma live_equiv_get_eq : forall s1 m1 s2 m2,
  Canon vh R U s1 m1 -> Canon vh R U s2 m2 ->
  (forall x h, Live vh m1 x h <-> Live vh m2 x h) ->
  keys s1 = keys s2 /\ (forall h, bucket h (ring s1) = bucket h (ring s2)) /\
  forall hp ihp, get s1 hp ihp = get s2 hp ihp.
Proof.
  intros s1 m1 s2 m2 [I1 L1 _ Le1 _] [I2 L2 _ Le2 _] Hl.
  assert (Hb : forall h, bucket h (ring s1) = bucket h (ring s2)).
  { intros h. apply le1_eq; auto. intros x. rewrite L1, L2. apply Hl. }
  assert (Hk : keys s1 = keys s2).
  { apply sorted_cnt_eq; [exact (inv_sorted _ _ _ I1) | exact (inv_sorted _ _ _ I2)|].
    intros h. rewrite (inv_cnt _ _ _ I1), (inv_cnt _ _ _ I2), Hb. reflexivity. }
  split; [exact Hk|]. split; [exact Hb|]. intros hp ihp.
  assert (Hempty : forall s, Inv vh R s -> (ring s = [] <-> keys s = [])).
  { intros s I. split.
    - intros Er. destruct (keys s) as [|a l] eqn:Ek; [reflexivity|]. exfalso.
      pose proof (inv_cnt _ _ _ I a) as Hc. rewrite Er, Ek in Hc. cbn [count_occ bucket length] in Hc.
      destruct (Z.eq_dec a a); [discriminate | congruence].
    - intros Ek. destruct (nil_or _ (ring s)) as [Er|Er]; [exact Er|].
      exfalso. exact (inv_keys_nonempty vh R s I Er Ek). }
  destruct (nil_or _ (ring s1)) as [E1|E1].
  - assert (E2 : ring s2 = []).
    { apply (Hempty s2 I2). rewrite <- Hk. apply (Hempty s1 I1). exact E1. }
    rewrite !get_unfold, E1, E2. reflexivity.
  - assert (E2 : ring s2 <> []).
    { intros Er. apply E1. apply (Hempty s1 I1). rewrite Hk. apply (Hempty s2 I2). exact Er. }
    rewrite (get_unfold_ne s1 hp ihp E1), (get_unfold_ne s2 hp ihp E2).
    unfold get_ne. rewrite Hk. destruct (keys s2); [reflexivity|]. rewrite Hb. reflexivity.
Qed.

Lemma member_lookup_live : forall m1 m2 x h,
  (forall n, member_lookup n m1 = member_lookup n m2) -> Live vh m1 x h -> Live vh m2 x h.
Proof.
  intros m1 m2 x h Hm (r & i & Ha & Hi & Eh). exists r, i. split; [|auto].
  specialize (Hm (nrepr x)). unfold member_lookup in Hm. rewrite Ha in Hm.
  assert (Hr : (0 <? r) = true) by (apply Z.ltb_lt; lia). rewrite Hr in Hm.
  destruct (alookup (nrepr x) m2) as [[r2 v2]|]; [|discriminate].
  destruct (0 <? r2); [inversion Hm; reflexivity | discriminate].
Qed.

(* The ring and every Get depend only on the nodes that have at least one replica, their replica
   counts and values: entries with zero replicas (AddWithWeight(node, 0), AddWithReplicas(node, 0))
   and the order of everything do not matter. *)
Lemma history_independent_members_l : forall ops1 ops2,
  ops_in_U U ops1 -> ops_in_U U ops2 ->
  (forall n, member_lookup n (amap_run R ops1) = member_lookup n (amap_run R ops2)) ->
  keys (run vh R ops1) = keys (run vh R ops2) /\
  (forall h, bucket h (ring (run vh R ops1)) = bucket h (ring (run vh R ops2))) /\
  forall hp ihp, get (run vh R ops1) hp ihp = get (run vh R ops2) hp ihp.
Proof.
  intros ops1 ops2 U1 U2 Hm.
  apply (live_equiv_get_eq _ (amap_run R ops1) _ (amap_run R ops2));
    [apply canon_run; assumption | apply canon_run; assumption|].
  intros x h. split; apply member_lookup_live; [exact Hm | intros n; symmetry; apply Hm].
Qed.
End LiveEquiv.

Section OrderClauses.
Variable t : list (Z * list Z).
Variable R : Z.
Hypothesis Htab : table_ok t R = true.
Hypothesis HR : 0 <= R.

Notation U := (fun n => In n (map fst t)).
Notation vh := (vh_of t).

Lemma live_members : forall (m : amap) x h, NoDup (map fst m) ->
  (Live vh m x h <-> exists r i, In (nrepr x, (r, nval x)) (members m) /\ 0 <= i < r /\ h = vh (nrepr x) i).
Proof.
  intros m x h ND. unfold Live. split.
  - intros (r & i & Ha & Hi & Eh). apply in_alookup in Ha; [|exact ND]. exists r, i.
    split; [apply members_in; split; [exact Ha | lia] | auto].
  - intros (r & i & Hin & Hi & Eh). apply members_in in Hin. destruct Hin as [Hin _].
    exists r, i. split; [apply in_alookup; assumption | auto].
Qed.

(* equal canonical maps (the members, sorted) have the same live virtual nodes *)
Lemma canon_map_live : forall (m1 m2 : amap) x h, NoDup (map fst m1) -> NoDup (map fst m2) ->
  canon_map m1 = canon_map m2 -> (Live vh m1 x h <-> Live vh m2 x h).
Proof.
  intros m1 m2 x h N1 N2 E. rewrite (live_members m1 x h N1), (live_members m2 x h N2).
  assert (Hm : forall e, In e (members m1) <-> In e (members m2)).
  { intros e. rewrite <- !canon_map_in, E. tauto. }
  split; intros (r & i & Hin & H); exists r, i; (split; [apply Hm; exact Hin | exact H]).
Qed.

Hypothesis Hcf : collision_free t = true.

Lemma cf_on : collision_free_on vh R U.
Proof. exact (collision_free_spec_l t R Hcf Htab). Qed.

(* history independence in the form the check uses: same canonical map => same answers *)
Lemma same_canon_same_get : forall ops1 ops2 hp ihp,
  ops_in_U U ops1 -> ops_in_U U ops2 ->
  canon_map (amap_run R ops1) = canon_map (amap_run R ops2) ->
  get (run vh R ops1) hp ihp = get (run vh R ops2) hp ihp.
Proof.
  intros ops1 ops2 hp ihp U1 U2 E.
  destruct (amap_wf_run t R ops1 HR U1) as [N1 _]. destruct (amap_wf_run t R ops2 HR U2) as [N2 _].
  apply (live_equiv_get_eq vh R U _ (amap_run R ops1) _ (amap_run R ops2));
    [apply canon_run; [exact cf_on | exact U1] | apply canon_run; [exact cf_on | exact U2]|].
  intros x h. apply canon_map_live; assumption.
Qed.

(* minimal disruption in the form the check uses *)
Lemma moved_ok_model : forall pre o hp ihp, ops_in_U U (pre ++ [o]) ->
  moved_ok (op_repr o) (amap_run R pre) (amap_run R (pre ++ [o]))
           (gres_z (get (run vh R pre) hp ihp)) (gres_z (get (run vh R (pre ++ [o])) hp ihp)) = true.
Proof.
  intros pre o hp ihp Hu.
  assert (Upre : ops_in_U U pre).
  { unfold ops_in_U in *. apply Forall_app in Hu. tauto. }
  assert (Erun : run vh R (pre ++ [o]) = step vh R (run vh R pre) o).
  { unfold run. rewrite fold_left_app. reflexivity. }
  assert (Erepr : op_repr o = nrepr (op_node o)) by (destruct o; reflexivity).
  pose proof (op_moves_only_its_node_l vh R U cf_on pre o hp ihp Upre) as M. cbv zeta in M.
  rewrite <- Erun in M. unfold moved_ok.
  destruct (amap_wf_run t R pre HR Upre) as [N1 _]. destruct (amap_wf_run t R (pre ++ [o]) HR Hu) as [N2 _].
  destruct M as [E | [[y [G Ey]] | [x' [G Ex]]]].
  - rewrite E, Z.eqb_refl. reflexivity.
  - destruct (get_owner_any_hash_l vh R pre hp ihp) as (Hs & _). destruct (Hs y G) as [k [(r & i & Ha & Hi & _) _]].
    apply in_alookup in Ha; [|exact N1].
    rewrite G. cbn [gres_z]. rewrite Erepr, <- Ey, (value_of_member _ _ r (nval y) N1 Ha) by lia.
    cbn [opt_eqb]. rewrite Z.eqb_refl, orb_true_r. reflexivity.
  - destruct (get_owner_any_hash_l vh R (pre ++ [o]) hp ihp) as (Hs & _).
    destruct (Hs x' G) as [k [(r & i & Ha & Hi & _) _]].
    apply in_alookup in Ha; [|exact N2].
    rewrite G. cbn [gres_z]. rewrite Erepr, <- Ex, (value_of_member _ _ r (nval x') N2 Ha) by lia.
    cbn [opt_eqb]. rewrite Z.eqb_refl, orb_true_r. reflexivity.
Qed.

End OrderClauses.

(* ---- the whole history ------------------------------------------------------------------------ *)
Section History.
Variable t : list (Z * list Z).
Variable R : Z.
Variable ps : list (Z * Z).
Hypothesis Htab : table_ok t R = true.
Hypothesis HR : 0 <= R.

Notation U := (fun n => In n (map fst t)).
Notation vh := (vh_of t).
Notation cf := (collision_free t && table_ok t R).

Lemma run_snoc : forall pre o, run vh R (pre ++ [o]) = step vh R (run vh R pre) o.
Proof. intros pre o. unfold run. rewrite fold_left_app. reflexivity. Qed.

Lemma amap_run_snoc : forall pre o, amap_run R (pre ++ [o]) = a_step R (amap_run R pre) o.
Proof. intros pre o. unfold amap_run. rewrite fold_left_app. reflexivity. Qed.

Lemma model_gets_unfold : forall s ops,
  model_gets t R s ops ps = gets_of t s ps :: tl (model_gets t R s ops ps).
Proof. intros s ops. destruct ops; reflexivity. Qed.

(* what the check has seen so far: canonical node map and answers of earlier prefixes *)
Definition seen_wf (seen : list (amap * list Z)) : Prop :=
  Forall (fun p => exists q, ops_in_U U q /\ fst p = canon_map (amap_run R q) /\
                             snd p = gets_of t (run vh R q) ps) seen.

Lemma moved_rows : forall pre o, collision_free t = true -> ops_in_U U (pre ++ [o]) ->
  forall2b (moved_ok (op_repr o) (amap_run R pre) (amap_run R (pre ++ [o])))
           (gets_of t (run vh R pre) ps) (gets_of t (run vh R (pre ++ [o])) ps) = true.
Proof.
  intros pre o Hcf Hu. unfold gets_of. induction ps as [|p l IH]; cbn [map forall2b]; [reflexivity|].
  rewrite IH, andb_true_r. apply (moved_ok_model t R Htab HR Hcf pre o (fst p) (snd p) Hu).
Qed.

Lemma seen_rows : forall seen q, collision_free t = true -> ops_in_U U q -> seen_wf seen ->
  seen_ok seen (canon_map (amap_run R q)) (gets_of t (run vh R q) ps) = true.
Proof.
  intros seen q Hcf Hq Hs. unfold seen_ok. apply forallb_forall. intros p Hp. cbv beta.
  unfold seen_wf in Hs. rewrite Forall_forall in Hs. destruct (Hs p Hp) as (q0 & Hq0 & E1 & E2). cbv beta in E1, E2.
  destruct (list_eqb e_eqb (fst p) (canon_map (amap_run R q))) eqn:E; [|reflexivity].
  apply (proj1 (list_eqb_eq _ e_eqb e_eqb_eq _ _)) in E.
  assert (E3 : canon_map (amap_run R q0) = canon_map (amap_run R q)) by (rewrite <- E1; exact E).
  apply zs_eqb_eq. apply (eq_trans E2). unfold gets_of. apply map_ext. intros a.
  f_equal. apply (same_canon_same_get t R Htab HR Hcf); assumption.
Qed.

Lemma hist_ok_model : forall ops pre seen,
  ops_in_U U (pre ++ ops) -> seen_wf seen ->
  hist_ok t R cf cf ps (amap_run R pre) (gets_of t (run vh R pre) ps) seen ops
          (tl (model_gets t R (run vh R pre) ops ps)) = true.
Proof.
  induction ops as [|o ops IH]; intros pre seen Hu Hs; [reflexivity|].
  cbn [model_gets tl]. rewrite model_gets_unfold. cbn [hist_ok].
  assert (Hu1 : ops_in_U U (pre ++ [o])).
  { unfold ops_in_U in *. apply Forall_app in Hu. destruct Hu as [A B]. inversion B; subst.
    apply Forall_app. split; [exact A | constructor; [assumption | constructor]]. }
  assert (Hu2 : ops_in_U U ((pre ++ [o]) ++ ops)) by (rewrite <- app_assoc; exact Hu).
  rewrite <- run_snoc, <- amap_run_snoc.
  rewrite (step_ok_model_l t R (pre ++ [o]) ps Htab HR Hu1). cbn [andb].
  assert (Hord : (if cf then forall2b (moved_ok (op_repr o) (amap_run R pre) (amap_run R (pre ++ [o])))
                                      (gets_of t (run vh R pre) ps) (gets_of t (run vh R (pre ++ [o])) ps) &&
                           seen_ok seen (canon_map (amap_run R (pre ++ [o]))) (gets_of t (run vh R (pre ++ [o])) ps)
                  else true) = true).
  { destruct (collision_free t) eqn:Hcf; cbn [andb]; [|reflexivity]. rewrite Htab.
    rewrite (moved_rows pre o Hcf Hu1), (seen_rows seen (pre ++ [o]) Hcf Hu1 Hs). reflexivity. }
  rewrite Hord. cbn [andb].
  apply (IH (pre ++ [o])); [exact Hu2|].
  constructor; [|exact Hs]. exists (pre ++ [o]). cbn [fst snd]. auto.
Qed.

End History.

(* agrees => prop_ok, for ring histories (not the strict exhibits of the known finding) and for the
   cluster cases of kind "final": on a well-formed table, whenever the implementation's answers
   equal the model's, every clause of the property check holds. *)
Lemma agrees_implies_prop_ok_l : forall c,
  cstrict c = false -> table_ok (cvh c) (cR c) = true -> 0 <= cR c ->
  ops_in_U (fun n => In n (map fst (cvh c))) (cops c) ->
  agrees_r c = true -> prop_ok_r c = true.
Proof.
  intros c Hstrict Htab HR Hu Ha. unfold agrees_r in Ha. unfold prop_ok_r.
  destruct (negb (weights_in_domain (cR c) (cops c))); [reflexivity|].
  destruct (cfinal c).
  - apply andb_true_iff in Ha. destruct Ha as [Hne Hall]. rewrite Hne. cbn [andb].
    apply forallb_forall. intros g Hg. rewrite forallb_forall in Hall. specialize (Hall g Hg).
    apply zs_eqb_eq in Hall. subst g. unfold final_map, final_state.
    exact (step_ok_model_l (cvh c) (cR c) (cops c) (cprobes c) Htab HR Hu).
  - apply zss_eqb_eq in Ha. unfold model_obs_r in Ha. rewrite <- Ha.
    rewrite (model_gets_unfold (cvh c) (cR c) (cprobes c)).
    rewrite Hstrict, orb_false_r.
    pose proof (step_ok_model_l (cvh c) (cR c) [] (cprobes c) Htab HR (Forall_nil _)) as S0.
    cbn [amap_run run fold_left] in S0. unfold amap_run, run in S0. cbn [fold_left] in S0. rewrite S0. cbn [andb].
    apply (hist_ok_model (cvh c) (cR c) (cprobes c) Htab HR (cops c) [] _ Hu).
    constructor; [|constructor]. exists []. cbn [fst snd]. split; [constructor|]. split; reflexivity.
Qed.
