(* C15 — facts about the constants of core/hash/consistenthash.go as they are TODAY
   (coq/gen/C15Consts.v is regenerated from the source on every run): the arithmetic of
   AddWithWeight that the model and the check rely on. *)
From Coq Require Import List ZArith Bool Lia.
From GZgen Require Import C15Consts.
From GZ Require Import C15.Model C15.Cluster C15.Check.
Import ListNotations.
Open Scope Z_scope.

(* the model's OAddW divides by the literal 100: that is TopWeight *)
Lemma model_divides_by_TopWeight : forall vh R s x w,
  step vh R s (OAddW x w) = add_with_replicas vh R x (Z.quot (wrap64 (R * w)) TopWeight) s.
Proof. reflexivity. Qed.

(* no wrap-around while the product fits Go's int: every weight up to 2^63 / h.replicas *)
Lemma wrap64_id : forall z, -9223372036854775808 <= z < 9223372036854775808 -> wrap64 z = z.
Proof. intros z Hz. unfold wrap64. rewrite Z.mod_small by lia. lia. Qed.

(* ... beyond that it does wrap: with h.replicas = 100, weight 92233720368547759 (> 2^63 / 100) gives a
   NEGATIVE product, hence no virtual node at all (replayed on the real code: the node owns no key) *)
Example weight_overflow :
  clamp 100 (Z.quot (wrap64 (100 * 92233720368547759)) TopWeight) = 0 /\
  clamp 100 (Z.quot (wrap64 (100 * 92233720368547758)) TopWeight) = 100.
Proof. vm_compute. auto. Qed.

(* h.replicas >= minReplicas >= TopWeight: a node added with weight >= 1 gets at least one
   virtual node — so cache.New / kv.NewStore (which require a positive total weight) never
   build an empty ring, and ErrNoRedisNode / errNotFound-for-no-node are unreachable through
   them *)
Lemma positive_weight_gets_a_virtual_node : forall R w,
  minReplicas <= R -> 1 <= w -> R * w < 9223372036854775808 ->
  1 <= clamp R (Z.quot (wrap64 (R * w)) TopWeight).
Proof.
  unfold minReplicas, TopWeight, clamp. intros R w HR Hw Hfit. rewrite wrap64_id by nia.
  assert (1 <= Z.quot (R * w) 100).
  { rewrite Z.quot_div_nonneg by nia. apply Z.div_le_lower_bound; nia. }
  lia.
Qed.

(* weight = TopWeight (and anything above) gives all h.replicas virtual nodes *)
Lemma top_weight_gets_all_replicas : forall R w,
  0 <= R -> TopWeight <= w -> R * w < 9223372036854775808 ->
  clamp R (Z.quot (wrap64 (R * w)) TopWeight) = R.
Proof.
  unfold TopWeight, clamp. intros R w HR Hw Hfit. rewrite wrap64_id by nia.
  assert (R <= Z.quot (R * w) 100).
  { rewrite Z.quot_div_nonneg by nia. apply Z.div_le_lower_bound; nia. }
  lia.
Qed.

(* weight <= 0 gives none: the node is in the node set but owns no key *)
Lemma nonpositive_weight_gets_nothing : forall R w,
  0 <= R -> w <= 0 -> -9223372036854775808 <= R * w ->
  clamp R (Z.quot (wrap64 (R * w)) TopWeight) = 0.
Proof.
  unfold TopWeight, clamp. intros R w HR Hw Hfit. rewrite wrap64_id by nia.
  assert (Z.quot (R * w) 100 <= 0).
  { rewrite <- (Z.opp_involutive (R * w)), Z.quot_opp_l by lia.
    assert (0 <= Z.quot (- (R * w)) 100) by (apply Z.quot_pos; nia). lia. }
  lia.
Qed.

(* the replica count is monotone in the weight *)
Lemma weight_monotone : forall R w1 w2,
  0 <= R -> 0 <= w1 <= w2 -> R * w2 < 9223372036854775808 ->
  clamp R (Z.quot (wrap64 (R * w1)) TopWeight) <= clamp R (Z.quot (wrap64 (R * w2)) TopWeight).
Proof.
  unfold TopWeight, clamp. intros R w1 w2 HR Hw Hfit. rewrite !wrap64_id by nia.
  assert (Z.quot (R * w1) 100 <= Z.quot (R * w2) 100).
  { rewrite !Z.quot_div_nonneg by nia. apply Z.div_le_mono; nia. }
  lia.
Qed.

(* ---- the cleaner's retry delays (core/stores/cache/cleaner.go, regenerated) ------------------ *)
Fixpoint increasing (l : list Z) : Prop :=
  match l with
  | a :: ((b :: _) as l') => a < b /\ increasing l'
  | _ => True
  end.

(* a failed DEL is retried (the table is not empty), every delay is at least one tick of the wheel
   (the countdown of Cluster.tick_one is meaningful), and the delays grow strictly: nextDelay's
   `switch` has distinct labels, so reading it as "the next element of the list" (Cluster.next_delay)
   is faithful *)
Lemma clean_delays_wellformed :
  cleanDelays <> [] /\ Forall (fun d => 1 <= d) cleanDelays /\ increasing cleanDelays.
Proof.
  unfold cleanDelays. split; [discriminate|]. split; [repeat constructor; lia | cbn; lia].
Qed.

(* the chain ends: after the last delay the cleaner gives up (and reports), it does not loop *)
Lemma clean_delays_end : next_delay cleanDelays (last cleanDelays 0) = None.
Proof. vm_compute. reflexivity. Qed.

(* the first retry comes one tick after the failed DEL *)
Lemma clean_first_retry_next_tick : hd 0 cleanDelays = 1.
Proof. reflexivity. Qed.
