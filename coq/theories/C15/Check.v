(* C15 — correspondence / property evaluation on what was observed on the
   implementation (harness/cmd/c15).  Executable only. *)
From Coq Require Import List ZArith Bool.
From GZ Require Export Lib.CheckLib C15.Model C15.Cluster C15.Conc C15.Repr.
From GZgen Require Import C15Consts.
Import ListNotations.
Open Scope Z_scope.

Record rcase := mkCase
  { cR : Z;                       (* h.replicas *)
    cvh : list (Z * list Z);      (* repr id |-> hashFunc(repr+itoa(i)), i = 0 .. R-1 *)
    cops : list op;
    cprobes : list (Z * Z);       (* per probe: hashFunc(repr(v)), hashFunc(innerRepr(v)) *)
    cgets : list (list Z);        (* observed Get per probe, before any op and after each op:
                                     value id | -1 none | -2 panic | -3 a value never added *)
    cfinal : bool;                (* cluster cases (cache.New / kv.NewStore): every row of [cgets] is
                                     an observation of the FINAL ring — the server read by Get,
                                     written by Set, reached by the multi-key Del, per key *)
    cstrict : bool }.             (* evaluate the order clauses (history independence, moves) even
                                     though the universe has collisions: used by the corpus
                                     histories that exhibit the known finding
                                     collision-bucket-insertion-order *)

Fixpoint row (n : Z) (t : list (Z * list Z)) : list Z :=
  match t with
  | [] => []
  | (k, r) :: t' => if k =? n then r else row n t'
  end.
(* indices outside the table do not occur: the model asks for i < R only *)
Definition vh_of (t : list (Z * list Z)) (n i : Z) : Z := nth (Z.to_nat i) (row n t) 0.

Definition gres_z (g : gres) : Z :=
  match g with GNone => -1 | GSome x => nval x | GPanic => -2 end.

Definition gets_of (t : list (Z * list Z)) (s : state) (ps : list (Z * Z)) : list Z :=
  map (fun p => gres_z (get s (fst p) (snd p))) ps.

Fixpoint model_gets (t : list (Z * list Z)) (R : Z) (s : state) (ops : list op) (ps : list (Z * Z))
  : list (list Z) :=
  gets_of t s ps ::
  match ops with
  | [] => []
  | o :: ops' => model_gets t R (step (vh_of t) R s o) ops' ps
  end.

Definition model_obs_r (c : rcase) : list (list Z) :=
  model_gets (cvh c) (cR c) init (cops c) (cprobes c).

(* the model reproduces exactly what the implementation answered *)
Definition final_state (c : rcase) : state := fold_left (step (vh_of (cvh c)) (cR c)) (cops c) init.

Definition agrees_r (c : rcase) : bool :=
  if cfinal c then
    let g := gets_of (cvh c) (final_state c) (cprobes c) in
    negb (match cgets c with [] => true | _ => false end) && forallb (zs_eqb g) (cgets c)
  else list_eqb zs_eqb (model_obs_r c) (cgets c).

(* ---- the property on the observed answers ------------------------------------
   Stated against the specification "node |-> (replica count, value)", not against
   the ring: nothing below calls [step] or [get]. *)

(* the node map: repr |-> (effective replicas, value id) *)
Definition amap := list (Z * (Z * Z)).

Definition a_del (n : Z) (m : amap) : amap := filter (fun e => negb (fst e =? n)) m.
Definition a_set (n : Z) (rv : Z * Z) (m : amap) : amap := a_del n m ++ [(n, rv)].
Definition clamp (R r : Z) : Z := Z.max 0 (Z.min r R).

Definition a_step (R : Z) (m : amap) (o : op) : amap :=
  match o with
  | OAdd x => a_set (nrepr x) (clamp R R, nval x) m
  | OAddR x r => a_set (nrepr x) (clamp R r, nval x) m
  | OAddW x w => a_set (nrepr x) (clamp R (Z.quot (wrap64 (R * w)) 100), nval x) m
  | ORemove x => a_del (nrepr x) m
  end.

Definition op_repr (o : op) : Z :=
  match o with OAdd x | OAddR x _ | OAddW x _ | ORemove x => nrepr x end.

Definition members (m : amap) : amap := filter (fun e => 0 <? fst (snd e)) m.

Definition value_of (n : Z) (m : amap) : option Z :=
  match find (fun e => fst e =? n) (members m) with
  | Some e => Some (snd (snd e))
  | None => None
  end.

(* Get returns a current member, and none iff there is no member (never panics) *)
Definition member_only (m : amap) (g : Z) : bool :=
  match members m with
  | [] => g =? -1
  | ms => existsb (fun e => snd (snd e) =? g) ms
  end.

(* the assignment as a function of the node map alone: the owner of the first
   virtual-node hash >= the key's hash, wrapping to the smallest *)
Definition vnodes (t : list (Z * list Z)) (m : amap) : list (Z * Z) :=
  flat_map (fun e => map (fun h => (h, snd (snd e))) (firstn (Z.to_nat (fst (snd e))) (row (fst e) t)))
           (members m).

Definition better_ge (hp : Z) (acc : option (Z * Z)) (x : Z * Z) : option (Z * Z) :=
  if hp <=? fst x then
    match acc with
    | Some a => if fst x <? fst a then Some x else acc
    | None => Some x
    end
  else acc.
Definition better_min (acc : option (Z * Z)) (x : Z * Z) : option (Z * Z) :=
  match acc with
  | Some a => if fst x <? fst a then Some x else acc
  | None => Some x
  end.

Definition spec_get_vs (vs : list (Z * Z)) (hp : Z) : Z :=
  match fold_left (better_ge hp) vs None with
  | Some x => snd x
  | None => match fold_left better_min vs None with
            | Some x => snd x
            | None => -1
            end
  end.
Definition spec_get (t : list (Z * list Z)) (m : amap) (hp : Z) : Z := spec_get_vs (vnodes t m) hp.

(* for EVERY hash, colliding or not: the answer is one of the owners of the first
   virtual-node hash >= the key's hash (wrapping), and none iff there is no virtual node *)
Definition succ_hash (vs : list (Z * Z)) (hp : Z) : option Z :=
  match fold_left (better_ge hp) vs None with
  | Some x => Some (fst x)
  | None => match fold_left better_min vs None with
            | Some x => Some (fst x)
            | None => None
            end
  end.
Definition owner_ok (vs : list (Z * Z)) (hp g : Z) : bool :=
  match succ_hash vs hp with
  | None => g =? -1
  | Some k => existsb (fun x => (fst x =? k) && (snd x =? g)) vs
  end.

(* distinct (node, index) pairs hash differently *)
Fixpoint nodup_sorted (l : list Z) : bool :=
  match l with
  | x :: ((y :: _) as l') => negb (x =? y) && nodup_sorted l'
  | _ => true
  end.
Definition collision_free (t : list (Z * list Z)) : bool :=
  nodup_sorted (sort_z (flat_map snd t)).

(* the table is a function on the universe: one row per repr, R hashes per row *)
Definition table_ok (t : list (Z * list Z)) (R : Z) : bool :=
  nodup_sorted (sort_z (map fst t)) && forallb (fun kr => Z.of_nat (length (snd kr)) =? R) t.

(* an operation on node n moves a key only to or from n *)
Definition moved_ok (n : Z) (mb ma : amap) (b a : Z) : bool :=
  (a =? b) ||
  opt_eqb Z.eqb (value_of n mb) (Some b) ||
  opt_eqb Z.eqb (value_of n ma) (Some a).

Fixpoint forall2b {A B} (f : A -> B -> bool) (l1 : list A) (l2 : list B) : bool :=
  match l1, l2 with
  | [], [] => true
  | x :: l1', y :: l2' => f x y && forall2b f l1' l2'
  | _, _ => false
  end.

(* the node map up to order, members only: "the current set of nodes and their replica counts" *)
Definition e_eqb (a b : Z * (Z * Z)) : bool :=
  (fst a =? fst b) && (fst (snd a) =? fst (snd b)) && (snd (snd a) =? snd (snd b)).
Fixpoint ins_e (e : Z * (Z * Z)) (l : amap) : amap :=
  match l with
  | [] => [e]
  | y :: l' => if fst e <=? fst y then e :: l else y :: ins_e e l'
  end.
Definition canon_map (m : amap) : amap := fold_right ins_e [] (members m).

(* history independence on the observations themselves: whenever the node map is the
   same as at an earlier moment of the history, every key is answered as it was then *)
Definition seen_ok (seen : list (amap * list Z)) (cm : amap) (gs : list Z) : bool :=
  forallb (fun p => if list_eqb e_eqb (fst p) cm then zs_eqb (snd p) gs else true) seen.

Definition step_ok (t : list (Z * list Z)) (cf : bool) (ps : list (Z * Z)) (m : amap) (gs : list Z) : bool :=
  let vs := vnodes t m in
  forall2b (fun p g => member_only m g && owner_ok vs (fst p) g &&
                       (if cf then g =? spec_get_vs vs (fst p) else true)) ps gs.

(* [cf]: the universe is collision-free; [ord]: evaluate the order clauses *)
Fixpoint hist_ok (t : list (Z * list Z)) (R : Z) (cf ord : bool) (ps : list (Z * Z))
         (m : amap) (prev : list Z) (seen : list (amap * list Z))
         (ops : list op) (obs : list (list Z)) : bool :=
  match ops, obs with
  | [], [] => true
  | o :: ops', gs :: obs' =>
    let m' := a_step R m o in
    let cm := canon_map m' in
    step_ok t cf ps m' gs &&
    (if ord then forall2b (moved_ok (op_repr o) m m') prev gs && seen_ok seen cm gs else true) &&
    hist_ok t R cf ord ps m' gs ((cm, gs) :: seen) ops' obs'
  | _, _ => false
  end.

(* clauses that hold for every hash function *)
Definition core_ok (c : rcase) : bool :=
  match cgets c with
  | g0 :: obs => step_ok (cvh c) false (cprobes c) [] g0 &&
                 hist_ok (cvh c) (cR c) false false (cprobes c) [] g0 [] (cops c) obs
  | [] => false
  end.

(* [cf] = the hypothesis of the collision-free theorems holds for this case:
   ProofsB.collision_free_spec turns it into [collision_free_on (vh_of (cvh c)) (cR c) universe] *)
Definition final_map (c : rcase) : amap := fold_left (a_step (cR c)) (cops c) [].

(* The replica count AddWithWeight derives from a weight is specified as h.replicas * weight / TopWeight
   while that product fits Go's int.  Beyond (|weight| > ~2^63 / h.replicas) the product wraps; the model
   follows the code there too ([wrap64], checked by [agrees]), but the property is not judged on such
   histories: which replica count an absurd weight "should" give is not part of the property. *)
Definition fits64 (z : Z) : bool := (-9223372036854775808 <=? z) && (z <? 9223372036854775808).
Definition weights_in_domain (R : Z) (ops : list op) : bool :=
  forallb (fun o => match o with OAddW _ w => fits64 (R * w) | _ => true end) ops.

Definition prop_ok_r (c : rcase) : bool :=
  let cf := collision_free (cvh c) && table_ok (cvh c) (cR c) in
  if negb (weights_in_domain (cR c) (cops c)) then true else
  if cfinal c then
    (* a key is served — read, written, deleted — by the node the ring designates *)
    negb (match cgets c with [] => true | _ => false end) &&
    forallb (step_ok (cvh c) cf (cprobes c) (final_map c)) (cgets c)
  else
  match cgets c with
  | g0 :: obs => step_ok (cvh c) cf (cprobes c) [] g0 &&
                 hist_ok (cvh c) (cR c) cf (cf || cstrict c) (cprobes c) [] g0 [([], g0)] (cops c) obs
  | [] => false
  end.

(* ==== users of the ring: cluster scripts (harness/cmd/c15/script.go) =========================
   Several clusters (cache.New / kv.NewStore) over the same servers, driven through their public
   API; observed: per step the set of touches (key, server) logged by the servers, and at [CSnap]
   steps the (key, server) pairs where a key is missing.  Pairs are encoded key * 64 + server. *)
Record ucase := mkUser
  { uR : Z;
    uvh : list (Z * list Z);            (* server repr id |-> hashes of its virtual-node strings *)
    uinsts : list (bool * list op);     (* per instance: is it a cache cluster; the constructor's ring operations *)
    ukeys : list (Z * (Z * Z));         (* per key: the instance it belongs to, its two hashes *)
    uops : list cop;
    utouch : list (list Z);             (* per step: observed touches, sorted, without duplicates *)
    usnaps : list (list Z);             (* per CSnap step: observed missing pairs, sorted *)
    ures : list Z }.                    (* per step: 0 no error; 1 the NO-NODE error (kv.ErrNoRedisNode, the
                                           errNotFound handed to cache.New, a batch of them); 2 another error *)

Definition enc (k s : Z) : Z := k * 64 + s.

Fixpoint dedup_sorted (l : list Z) : list Z :=
  match l with
  | x :: ((y :: _) as l') => if x =? y then dedup_sorted l' else x :: dedup_sorted l'
  | _ => l
  end.
Definition canon_zs (l : list Z) : list Z := dedup_sorted (sort_z l).

Definition u_insts (u : ucase) : list inst :=
  map (fun ic => mkInst (fst ic) (fold_left (step (vh_of (uvh u)) (uR u)) (snd ic) init)) (uinsts u).
Definition u_keys (u : ucase) : list (Z * Z) := map snd (ukeys u).

Definition u_run (u : ucase) : list (cstate * list touch) :=
  crun (u_insts u) (u_keys u) cleanDelays cinit (uops u).

Definition enc_touches (ts : list touch) : list Z :=
  canon_zs (map (fun t => enc (snd (fst t)) (snd t)) ts).

Fixpoint model_snaps (ops : list cop) (rs : list (cstate * list touch)) : list (option (list Z)) :=
  match ops, rs with
  | CSnap :: ops', r :: rs' =>
    (if cclean (fst r) then Some (canon_zs (map (fun g => enc (fst g) (snd g)) (cgone (fst r)))) else None)
    :: model_snaps ops' rs'
  | _ :: ops', _ :: rs' => model_snaps ops' rs'
  | _, _ => []
  end.

Definition model_obs_u (u : ucase) : list (list Z) :=
  map (fun r => enc_touches (snd r)) (u_run u) ++
  map (fun o => match o with Some g => g | None => [-1] end) (model_snaps (uops u) (u_run u)).

(* the error path of the dispatch: an operation answers the no-node error iff dispatcher.Get finds no node
   for (one of) its key(s) — [owner] = none, i.e. the instance's ring is empty.  (A cache cluster WITH nodes
   answers its errNotFound for an ordinary miss as well: not determined there.) *)
Definition m_nonode (insts : list inst) (keys : list (Z * Z)) (o : cop) : option bool :=
  let lost i k := match owner insts keys i k with None => true | Some _ => false end in
  match o with
  | CSingle i k => if lost i k then Some true else if is_cache insts i then None else Some false
  | CDel i ks | CDelX i ks => Some (existsb (lost i) ks)
  | _ => Some false
  end.

Definition res_ok (pred : option bool) (r : Z) : bool :=
  match pred with Some b => Bool.eqb b (r =? 1) | None => true end.

Definition agrees_u (u : ucase) : bool :=
  list_eqb zs_eqb (map (fun r => enc_touches (snd r)) (u_run u)) (utouch u) &&
  forall2b (fun m o => match m with Some g => zs_eqb g o | None => true end)
           (model_snaps (uops u) (u_run u)) (usnaps u) &&
  (let insts := u_insts u in let keys := u_keys u in     (* the rings are built once *)
   forall2b (fun o r => res_ok (m_nonode insts keys o) r) (uops u) (ures u)).

(* ---- the property on the observed touches: against the node maps, not against the ring ---- *)
Definition u_maps (u : ucase) : list amap :=
  map (fun ic => fold_left (a_step (uR u)) (snd ic) []) (uinsts u).

Definition zmem (x : Z) (l : list Z) : bool := existsb (Z.eqb x) l.

(* a command naming key k arrived at server s: k is a key of the case, belonging to instance [io]
   if given and among [allowed] if given, and s is the node that the node map of k's instance
   designates for k (an owner of the successor slot; on a collision-free universe THE owner) *)
Definition touch_ok (u : ucase) (cf : bool) (io : option Z) (allowed : option (list Z)) (t : Z) : bool :=
  let k := t / 64 in
  let s := t mod 64 in
  (0 <=? k) &&
  match nth_error (ukeys u) (Z.to_nat k) with
  | Some (ik, (hp, _)) =>
    (match io with Some i => ik =? i | None => true end) &&
    (match allowed with Some ks => zmem k ks | None => true end) &&
    (0 <=? ik) &&
    match nth_error (u_maps u) (Z.to_nat ik) with
    | Some m =>
      let vs := vnodes (uvh u) m in
      member_only m s && owner_ok vs hp s && (if cf then s =? spec_get_vs vs hp else true)
    | None => false
    end
  | None => false
  end.

Definition covered (ts : list Z) (k : Z) : bool := existsb (fun t => t / 64 =? k) ts.

(* an instance none of whose nodes has a virtual node (reachable through the constructors only with
   weights whose product with h.replicas overflows Go's int): every operation fails, nothing is sent *)
Definition no_members (u : ucase) (i : Z) : bool :=
  if i <? 0 then false else
  match nth_error (u_maps u) (Z.to_nat i) with
  | Some m => match members m with [] => true | _ => false end
  | None => false
  end.

Definition ustep_ok (u : ucase) (cf : bool) (o : cop) (ts : list Z) : bool :=
  match o with
  | CSingle i k => forallb (touch_ok u cf (Some i) (Some [k])) ts && (no_members u i || covered ts k)
  | CDel i ks => forallb (touch_ok u cf (Some i) (Some ks)) ts && (no_members u i || forallb (covered ts) ks)
  | CDelX i ks => forallb (touch_ok u cf (Some i) (Some ks)) ts
  | CTick => forallb (touch_ok u cf None None) ts
  | _ => match ts with [] => true | _ => false end
  end.

(* snapshots are judged while only Del / fault / tick steps happened since the last populate *)
Fixpoint usnaps_ok (u : ucase) (cf : bool) (clean : bool) (ops : list cop) (snaps : list (list Z)) : bool :=
  match ops with
  | [] => match snaps with [] => true | _ => false end
  | CSnap :: ops' =>
    match snaps with
    | g :: snaps' => (if clean then forallb (touch_ok u cf None None) g else true) &&
                     usnaps_ok u cf clean ops' snaps'
    | [] => false
    end
  | CPopulate :: ops' => usnaps_ok u cf true ops' snaps
  | CSingle _ _ :: ops' => usnaps_ok u cf false ops' snaps
  | _ :: ops' => usnaps_ok u cf clean ops' snaps
  end.

(* the same from the node maps alone: the no-node error iff the instance has no member with a virtual node
   (and the operation names a key at all) *)
Definition u_is_cache (u : ucase) (i : Z) : bool :=
  if i <? 0 then false else match nth_error (uinsts u) (Z.to_nat i) with Some ic => fst ic | None => false end.
Definition no_members_in (maps : list amap) (i : Z) : bool :=
  if i <? 0 then false else
  match nth_error maps (Z.to_nat i) with
  | Some m => match members m with [] => true | _ => false end
  | None => false
  end.
Definition p_nonode (u : ucase) (maps : list amap) (o : cop) : option bool :=
  match o with
  | CSingle i _ => if no_members_in maps i then Some true else if u_is_cache u i then None else Some false
  | CDel i ks | CDelX i ks => Some (no_members_in maps i && match ks with [] => false | _ => true end)
  | _ => Some false
  end.

Definition prop_ok_u (u : ucase) : bool :=
  let cf := collision_free (uvh u) && table_ok (uvh u) (uR u) in
  if negb (forallb (fun ic => weights_in_domain (uR u) (snd ic)) (uinsts u)) then true else
  forall2b (ustep_ok u cf) (uops u) (utouch u) && usnaps_ok u cf false (uops u) (usnaps u) &&
  (let maps := u_maps u in forall2b (fun o r => res_ok (p_nonode u maps o) r) (uops u) (ures u)).

(* ==== concurrent executions (harness/cmd/c15/conc.go) ============================================
   Several goroutines call Add / AddWithReplicas / AddWithWeight / Remove on ONE ring; the executor
   forces a schedule at the granularity of Conc.v (an add-type call can be parked between its Remove
   and its insertion) and reports, per schedule step, the actions that really ran (none, one, or both
   actions of a call that could not be parked) and what Get answers for every probe afterwards. *)
(* A step may carry a lookup that OVERLAPS it: Get(probe p) was started first and parked between its
   two evaluations of the key (slot located / member picked — it holds the read lock there at HEAD),
   then the step's call was started, then the lookup was released.  Observed: the answer g; [ovl]: the
   lookup did park (its slot is shared), so the two calls overlap in real time; [ran]: the step's call
   completed while the lookup was parked (impossible while Get holds the read lock throughout). *)
Definition gobs := option (Z * Z * bool * bool).     (* p, g, ovl, ran *)

Record kcase := mkConc
  { kR : Z;
    kvh : list (Z * list Z);
    ksteps : list (list act * gobs);  (* per schedule step: the actions executed, in order; the overlapping lookup *)
    kprobes : list (Z * Z);
    kgets : list (list Z) }.          (* before any step, and after each step *)

Fixpoint conc_rows (t : list (Z * list Z)) (R : Z) (s : state) (steps : list (list act * gobs)) (ps : list (Z * Z))
  : list (list Z) :=
  match steps with
  | [] => []
  | (acts, _) :: steps' =>
    let s' := fold_left (astep (vh_of t) R) acts s in
    gets_of t s' ps :: conc_rows t R s' steps' ps
  end.

(* Get is one atomic step: the overlapping lookup answers as in the state before the step's actions;
   if the step's call did run while the lookup was parked, the state after is accepted as well (the
   harness cannot tell on which side of it the lookup's step fell) *)
Fixpoint conc_lookups (t : list (Z * list Z)) (R : Z) (s : state) (steps : list (list act * gobs)) (ps : list (Z * Z))
  : bool :=
  match steps with
  | [] => true
  | (acts, go) :: steps' =>
    let s' := fold_left (astep (vh_of t) R) acts s in
    match go with
    | None => true
    | Some (p, g, ovl, ran) =>
      match nth_error ps (Z.to_nat p) with
      | Some (hp, ihp) => (g =? gres_z (get s hp ihp)) || (ovl && ran && (g =? gres_z (get s' hp ihp)))
      | None => false
      end
    end && conc_lookups t R s' steps' ps
  end.

Definition model_obs_k (c : kcase) : list (list Z) :=
  gets_of (kvh c) init (kprobes c) :: conc_rows (kvh c) (kR c) init (ksteps c) (kprobes c).

Definition agrees_k (c : kcase) : bool :=
  list_eqb zs_eqb (model_obs_k c) (kgets c) && conc_lookups (kvh c) (kR c) init (ksteps c) (kprobes c).

(* the layered node map: Remove takes the node's layers away, every insertion adds one *)
Definition l_act (R : Z) (m : amap) (a : act) : amap :=
  match a with
  | ARemove n => a_del n m
  | AInsert x r => m ++ [(nrepr x, (clamp R r, nval x))]
  end.

Definition get_ok (t : list (Z * list Z)) (m : amap) (hp g : Z) : bool :=
  member_only m g && owner_ok (vnodes t m) hp g.

(* after every step: every answer is the value of a node that has a layer with >= 1 replica (so a
   node whose last action is a Remove is never returned), none iff there is no such node, and the
   value owns the cyclic successor slot of the key among the live virtual nodes of all layers.
   An overlapping lookup must answer like that for a membership state its call overlaps: the one
   before the step, or — when the calls overlap in real time — the one after.  Anything else (a value
   that was never added, a node of neither state) is not linearisable. *)
Fixpoint conc_ok (t : list (Z * list Z)) (R : Z) (ps : list (Z * Z)) (m : amap)
         (steps : list (list act * gobs)) (obs : list (list Z)) : bool :=
  match steps, obs with
  | [], [] => true
  | (acts, go) :: steps', gs :: obs' =>
    let m' := fold_left (l_act R) acts m in
    step_ok t false ps m' gs &&
    match go with
    | None => true
    | Some (p, g, ovl, _) =>
      match nth_error ps (Z.to_nat p) with
      | Some (hp, _) => get_ok t m hp g || (ovl && get_ok t m' hp g)
      | None => false
      end
    end &&
    conc_ok t R ps m' steps' obs'
  | _, _ => false
  end.

Definition prop_ok_k (c : kcase) : bool :=
  match kgets c with
  | g0 :: obs => step_ok (kvh c) false (kprobes c) [] g0 && conc_ok (kvh c) (kR c) (kprobes c) [] (ksteps c) obs
  | [] => false
  end.

(* ==== node identity: lang.Repr, the ring's repr / innerRepr / virtual-node strings (harness/cmd/c15/repr.go) ====
   Observed through a recording hash.Func: the byte strings the ring itself hashes for a value v —
   repr(v) and innerRepr(v) during Get on a shared slot, repr(v)+itoa(i) during Add(v) and during
   Remove(v) — and lang.Repr(v) asked directly after all other values were evaluated. *)
Record pval := mkPval
  { pv : gval;
    p_get : list Z;                      (* what Get hashed first: repr(v) *)
    p_direct : list Z;                   (* lang.Repr(v), evaluated again at the end *)
    p_inner : list Z;                    (* what Get hashed second: innerRepr(v) *)
    p_adds : list (Z * list Z);          (* (i, the i-th string Add(v) hashed) *)
    p_rems : list (Z * list Z) }.        (* (i, the i-th string Remove(v) hashed) *)

Definition vnode_text (v : gval) (i : Z) : list Z := repr_model v ++ dec i.

Definition pval_agrees (e : pval) : bool :=
  zs_eqb (repr_model (pv e)) (p_get e) && zs_eqb (repr_model (pv e)) (p_direct e) &&
  match p_inner e with
  | [] => true          (* not observed: the ring did not hash a second string of the form <digits>:<text> *)
  | i => match inner_model prime (pv e) with Some s => zs_eqb s i | None => true end
  end &&
  forallb (fun it => zs_eqb (vnode_text (pv e) (fst it)) (snd it)) (p_adds e) &&
  forallb (fun it => zs_eqb (vnode_text (pv e) (fst it)) (snd it)) (p_rems e).

Definition agrees_p (l : list pval) : bool := forallb pval_agrees l.

(* the property's side: node identity is a FUNCTION of the value, the same wherever it is evaluated
   (Get, Add, Remove, lang.Repr directly, again later), values the specification identifies /
   distinguishes are identified / distinguished by the implementation, Remove hashes exactly the
   strings Add hashed (or a removed node stays in the ring) and different indices give different strings *)
Fixpoint all_pairs {A} (f : A -> A -> bool) (l : list A) : bool :=
  match l with
  | [] => true
  | x :: l' => forallb (f x) l' && all_pairs f l'
  end.

Definition pval_ok (e : pval) : bool :=
  zs_eqb (p_get e) (p_direct e) &&
  list_eqb (fun a b => (fst a =? fst b) && zs_eqb (snd a) (snd b)) (p_adds e) (p_rems e) &&
  all_pairs (fun a b => negb (zs_eqb (snd a) (snd b))) (p_adds e) &&
  forallb (fun it => zs_eqb (firstn (length (p_get e)) (snd it)) (p_get e)) (p_adds e).

Definition prop_ok_p (l : list pval) : bool :=
  forallb pval_ok l &&
  all_pairs (fun a b => Bool.eqb (zs_eqb (repr_model (pv a)) (repr_model (pv b))) (zs_eqb (p_get a) (p_get b))) l.

Definition model_obs_p (l : list pval) : list (list Z) :=
  flat_map (fun e => [repr_model (pv e); match inner_model prime (pv e) with Some s => s | None => [] end]) l.

(* ==== the case type evaluated by the runner ==================================================== *)
Inductive case := RingCase (c : rcase) | UserCase (u : ucase) | ConcCase (k : kcase) | ReprCase (l : list pval).

Definition agrees (c : case) : bool :=
  match c with RingCase c => agrees_r c | UserCase u => agrees_u u | ConcCase k => agrees_k k | ReprCase l => agrees_p l end.
Definition prop_ok (c : case) : bool :=
  match c with RingCase c => prop_ok_r c | UserCase u => prop_ok_u u | ConcCase k => prop_ok_k k | ReprCase l => prop_ok_p l end.
Definition model_obs (c : case) : list (list Z) :=
  match c with RingCase c => model_obs_r c | UserCase u => model_obs_u u | ConcCase k => model_obs_k k | ReprCase l => model_obs_p l end.
