(* C15 — ConsistentHash as a concurrent object: the atomic steps the code really has.
   No proofs in this file.

   Remove(node) is one critical section (h.lock held throughout).  AddWithReplicas(node, r) is
   TWO: first h.Remove(node) (its own critical section), then — after the lock was released,
   repr(node) was computed again and the lock taken again — the insertion of the virtual nodes
   and the sort.  Calls of other goroutines can run between the two.  So the ring's transitions
   are [ARemove n] and [AInsert x r]; a call of the API is one or two of them, in order; a
   concurrent execution is an interleaving of the calls' actions.  Get takes the read lock: it
   observes the state between two actions. *)
From Coq Require Import List ZArith Bool.
From GZ Require Import C15.Model.
Import ListNotations.
Open Scope Z_scope.

Inductive act :=
| ARemove (n : Z)                 (* the critical section of Remove(node), node's repr = n *)
| AInsert (x : node) (r : Z).     (* the second critical section of AddWithReplicas(x, r) *)

Section WithHash.
Variable vh : Z -> Z -> Z.
Variable R : Z.

(* the part of AddWithReplicas after its h.Remove(node): clamp, addNode, the loop, the sort *)
Definition ring_insert (x : node) (r : Z) (s1 : state) : state :=
  let r' := if R <? r then R else r in
  let s2 := mkState (keys s1) (ring s1)
                    (if mem (nrepr x) (nodes s1) then nodes s1 else nodes s1 ++ [nrepr x]) in
  let s3 := fold_left (add_vnode vh x) (indices r') s2 in
  mkState (sort (keys s3)) (ring s3) (nodes s3).

Definition astep (s : state) (a : act) : state :=
  match a with
  | ARemove n => remove vh R n s
  | AInsert x r => ring_insert x r s
  end.

Definition arun (acts : list act) : state := fold_left astep acts init.

(* the actions of one API call, in program order *)
Definition acts_of (o : op) : list act :=
  match o with
  | OAdd x => [ARemove (nrepr x); AInsert x R]
  | OAddR x r => [ARemove (nrepr x); AInsert x r]
  | OAddW x w => [ARemove (nrepr x); AInsert x (Z.quot (wrap64 (R * w)) 100)]
  | ORemove x => [ARemove (nrepr x)]
  end.

(* ---- threads and schedules -------------------------------------------------------------------
   a thread is a script of API calls; a schedule names, step by step, the thread whose next action
   runs (a thread with nothing left to do idles) *)
Definition config := (list (list act) * state)%type.

Fixpoint set_nth {A} (n : nat) (v : A) (l : list A) : list A :=
  match l, n with
  | [], _ => []
  | _ :: l', O => v :: l'
  | a :: l', S n' => a :: set_nth n' v l'
  end.

Definition lts_step (c : config) (t : nat) : config :=
  match nth t (fst c) [] with
  | [] => c
  | a :: rest => (set_nth t rest (fst c), astep (snd c) a)
  end.

Definition lts_init (threads : list (list op)) : config := (map (flat_map acts_of) threads, init).

Definition lts_run (threads : list (list op)) (sched : list nat) : config :=
  fold_left lts_step sched (lts_init threads).

(* the actions a schedule executes, in order *)
Fixpoint lts_trace (pending : list (list act)) (sched : list nat) : list act :=
  match sched with
  | [] => []
  | t :: sched' =>
    match nth t pending [] with
    | [] => lts_trace pending sched'
    | a :: rest => a :: lts_trace (set_nth t rest pending) sched'
    end
  end.

(* ---- Get among the membership actions ---------------------------------------------------------
   Get(v) holds the READ lock from before the slot lookup until after the member is picked (the
   two evaluations of the key's repr included): against the write-locked critical sections it is ONE
   atomic step.  A concurrent execution with lookups is a sequence of [cact]; [grun] returns the
   final state and the answers of the lookups, in order. *)
Inductive cact :=
| CAct (a : act)
| CGet (hp ihp : Z).

Fixpoint grun (s : state) (l : list cact) : state * list gres :=
  match l with
  | [] => (s, [])
  | CAct a :: l' => grun (astep s a) l'
  | CGet hp ihp :: l' => let r := grun s l' in (fst r, get s hp ihp :: snd r)
  end.

Definition membership (l : list cact) : list act :=
  flat_map (fun c => match c with CAct a => [a] | CGet _ _ => [] end) l.

(* for every lookup of the execution: the membership actions executed before its step, and its key *)
Fixpoint gpoints (l : list cact) (done : list act) : list (list act * (Z * Z)) :=
  match l with
  | [] => []
  | CAct a :: l' => gpoints l' (done ++ [a])
  | CGet hp ihp :: l' => (done, (hp, ihp)) :: gpoints l' done
  end.

Definition finished (c : config) : bool := forallb (fun l => match l with [] => true | _ => false end) (fst c).

End WithHash.

(* ---- lookups among lookups, below the granularity of [CGet] (seeded C15-11) ----------------------
   a lookup first puts the bytes of its key somewhere, then hashes what is THERE.
   [LCopy t]: lookup t writes its key's bytes into its buffer; [LHash t]: it hashes the buffer's content (the
   result is the key hash of whichever lookup's bytes the buffer holds) and reads the ring with it.  At HEAD
   the buffer is the lookup's own ([]byte(repr(v)): a fresh slice per call) — [shared = false]; the seeded
   change assembles the bytes in ONE buffer of the ring, under the READ lock — [shared = true]. *)
Inductive lstep := LCopy (t : nat) | LHash (t : nat).

Section Buffers.
Variable shared : bool.
Variable s : state.
Variable keys : list (Z * Z).            (* lookup t's key: its two hashes *)

Definition buf_of (t : nat) : nat := if shared then O else S t.
Definition key_of (t : nat) : Z * Z := nth t keys (0, 0).

(* the buffers: buffer id |-> the lookup whose key bytes it holds *)
Fixpoint lrun (bufs : nat -> option nat) (steps : list lstep) : list (nat * gres) :=
  match steps with
  | [] => []
  | LCopy t :: r => lrun (fun b => if Nat.eqb b (buf_of t) then Some t else bufs b) r
  | LHash t :: r =>
    match bufs (buf_of t) with
    | Some u => (t, get s (fst (key_of u)) (snd (key_of u))) :: lrun bufs r
    | None => lrun bufs r          (* nothing copied yet: not a step of a lookup *)
    end
  end.
End Buffers.

