(* C15 — the ring as a concurrent object (Conc.v): every theorem of the sequential development that
   the property needs, re-proved for ARBITRARY sequences of the atomic actions ARemove / AInsert —
   hence for every interleaving of Add / AddWithReplicas / AddWithWeight / Remove calls at the
   granularity the code has (AddWithReplicas = [Remove] ; [insert]). *)
From Coq Require Import List ZArith Bool Sorted Lia.
From GZ Require Import C15.Model C15.Cluster C15.Check C15.Proofs C15.ProofsB C15.ProofsC C15.Conc.
Import ListNotations.
Open Scope Z_scope.

Section WithHash.
Variable vh : Z -> Z -> Z.
Variable R : Z.

(* a call of the API is the sequence of its actions *)
Lemma add_split : forall x r s,
  add_with_replicas vh R x r s = ring_insert vh R x r (remove vh R (nrepr x) s).
Proof. reflexivity. Qed.

Lemma step_as_actions : forall s o, step vh R s o = fold_left (astep vh R) (acts_of R o) s.
Proof. intros s o. destruct o; reflexivity. Qed.

Lemma run_as_actions : forall ops, run vh R ops = arun vh R (flat_map (acts_of R) ops).
Proof.
  intros ops. unfold run, arun. generalize init. induction ops as [|o ops IH]; intros s; cbn [fold_left flat_map]; [reflexivity|].
  rewrite fold_left_app, <- step_as_actions. apply IH.
Qed.

(* ---- the insertion alone, on ANY state satisfying the invariant (the node may be present) ------ *)
Lemma insert_inv : forall x r s, Inv vh R s ->
  Inv vh R (ring_insert vh R x r s) /\
  (forall y, In y (nodes (ring_insert vh R x r s)) -> In y (nodes s) \/ y = nrepr x) /\
  (forall h y, In y (bucket h (ring (ring_insert vh R x r s))) -> In y (bucket h (ring s)) \/ y = x).
Proof.
  intros x r s [Rs Rc Rn Re]. unfold ring_insert.
  set (r' := if R <? r then R else r).
  set (s2 := mkState (keys s) (ring s) (if mem (nrepr x) (nodes s) then nodes s else nodes s ++ [nrepr x])).
  assert (Hx2 : In (nrepr x) (nodes s2)).
  { cbn. destruct (mem (nrepr x) (nodes s)) eqn:E; [apply mem_in; exact E|].
    apply in_or_app. right. left. reflexivity. }
  assert (Hsub2 : forall y, In y (nodes s) -> In y (nodes s2)).
  { intros y Hy. cbn. destruct (mem (nrepr x) (nodes s)); [exact Hy | apply in_or_app; left; exact Hy]. }
  assert (H2 : Inv0 vh R s2).
  { split; cbn [keys ring nodes]; auto. intros h y Hy. destruct (Re _ _ Hy) as [Hn Hi]. split; auto. }
  assert (Hidx : forall i, In i (indices r') -> 0 <= i < R).
  { intros i Hi. apply in_indices in Hi. unfold r' in Hi. destruct (R <? r) eqn:E; [lia|].
    apply Z.ltb_ge in E. lia. }
  destruct (add_fold_inv0 vh R x (indices r') s2 Hidx Hx2 H2) as ([Ic In_ Ie] & N & B).
  set (s3 := fold_left (add_vnode vh x) (indices r') s2) in *.
  split; [|split].
  - split; cbn [keys ring nodes].
    + apply sort_sorted.
    + intros h. rewrite sort_cnt. apply Ic.
    + exact In_.
    + exact Ie.
  - cbn [nodes]. intros y Hy. rewrite N in Hy. cbn in Hy.
    destruct (mem (nrepr x) (nodes s)); [left; exact Hy|].
    apply in_app_or in Hy. destruct Hy as [Hy | [<- | []]]; [left; exact Hy | right; reflexivity].
  - cbn [ring]. intros h y Hy. destruct (B _ _ Hy) as [Hy' | ->]; [left; exact Hy' | right; reflexivity].
Qed.

Lemma astep_inv : forall s a, Inv vh R s -> Inv vh R (astep vh R s a).
Proof.
  intros s a H. destruct a as [n|x r]; cbn [astep]; [apply remove_inv; exact H | apply insert_inv; exact H].
Qed.

Lemma afold_inv : forall acts s, Inv vh R s -> Inv vh R (fold_left (astep vh R) acts s).
Proof. induction acts as [|a acts IH]; intros s H; cbn [fold_left]; [exact H | apply IH, astep_inv, H]. Qed.

(* after every sequence of actions — every interleaving, finished or not — the invariant holds *)
Lemma arun_inv : forall acts, Inv vh R (arun vh R acts).
Proof. intros acts. apply afold_inv, inv_init. Qed.

Lemma arun_get : forall acts hp ihp,
  let s := arun vh R acts in
  get s hp ihp <> GPanic /\
  (get s hp ihp = GNone <-> ring s = []) /\
  (forall x, get s hp ihp = GSome x ->
     In (nrepr x) (nodes s) /\ exists h, In h (keys s) /\ In x (bucket h (ring s))).
Proof. intros acts hp ihp. apply (get_inv vh R). apply arun_inv. Qed.

(* ---- a removed node is never returned ---------------------------------------------------------- *)
Definition inserts (n : Z) (a : act) : bool :=
  match a with AInsert x _ => nrepr x =? n | ARemove _ => false end.

Lemma nodes_after_acts : forall post s n,
  Inv vh R s -> ~ In n (nodes s) -> forallb (fun a => negb (inserts n a)) post = true ->
  ~ In n (nodes (fold_left (astep vh R) post s)).
Proof.
  induction post as [|a post IH]; intros s n Hinv Hn Hp; cbn [fold_left]; [exact Hn|].
  cbn [forallb] in Hp. apply andb_true_iff in Hp. destruct Hp as [Ha Hp].
  apply IH; [apply astep_inv; exact Hinv | | exact Hp].
  intros Hin. apply Hn. destruct a as [m|x r]; cbn [astep] in Hin; cbn [inserts] in Ha.
  - destruct (remove_inv vh R m s Hinv) as (_ & _ & Hsub & _). exact (Hsub _ Hin).
  - destruct (insert_inv x r s Hinv) as (_ & Hsub & _). destruct (Hsub _ Hin) as [H|H]; [exact H|].
    subst n. rewrite Z.eqb_refl in Ha. discriminate.
Qed.

(* the critical section of Remove(n) leaves NO ring entry of n — however many virtual nodes of n the
   ring held, and from however many insertions (the mixed state of two racing weight updates) *)
Lemma remove_action_cleans : forall acts n h x,
  In x (bucket h (ring (arun vh R (acts ++ [ARemove n])))) -> nrepr x <> n.
Proof.
  intros acts n h x Hx. unfold arun in Hx. rewrite fold_left_app in Hx. cbn [fold_left astep] in Hx.
  destruct (remove_inv vh R n _ (arun_inv acts)) as (_ & _ & _ & Hclean & _). exact (Hclean _ _ Hx).
Qed.

Lemma removed_never_returned_acts_l : forall pre n post hp ihp y,
  forallb (fun a => negb (inserts n a)) post = true -> nrepr y = n ->
  get (arun vh R (pre ++ ARemove n :: post)) hp ihp <> GSome y.
Proof.
  intros pre n post hp ihp y Hp Hy Hg. unfold arun in Hg. rewrite fold_left_app in Hg. cbn [fold_left astep] in Hg.
  pose proof (arun_inv pre) as Hinv. unfold arun in Hinv.
  destruct (remove_inv vh R n _ Hinv) as (Hinv1 & Hnot & _).
  pose proof (nodes_after_acts post _ n Hinv1 Hnot Hp) as Hn.
  destruct (get_inv vh R _ hp ihp (afold_inv post _ Hinv1)) as (_ & _ & Hsome).
  destruct (Hsome _ Hg) as [Hin _]. rewrite Hy in Hin. exact (Hn Hin).
Qed.

(* ---- the ring as the image of the LAYERED node map ---------------------------------------------
   between a node's Remove and the next one, every insertion of it adds a layer (replicas, value);
   sequentially there is at most one layer per node, under racing updates there can be more *)
Definition a_act (m : amap) (a : act) : amap :=
  match a with
  | ARemove n => a_del n m
  | AInsert x r => m ++ [(nrepr x, (clamp R r, nval x))]
  end.
Definition amap_acts (acts : list act) : amap := fold_left a_act acts [].

Definition LiveL (m : amap) (x : node) (h : Z) : Prop :=
  exists r i, In (nrepr x, (r, nval x)) m /\ 0 <= i < r /\ h = vh (nrepr x) i.
Definition live_hashL (m : amap) (h : Z) : Prop := exists z, LiveL m z h.

Lemma insert_bucket_iff : forall x r s h y,
  In y (bucket h (ring (ring_insert vh R x r s))) <->
  In y (bucket h (ring s)) \/ (y = x /\ exists i, 0 <= i < eff R r /\ vh (nrepr x) i = h).
Proof.
  intros x r s h y. unfold ring_insert. cbn [ring]. rewrite add_fold_bucket. cbn [ring].
  rewrite in_app_iff, in_map_iff. fold (eff R r). split.
  - intros [H|[i [<- Hi]]]; [left; exact H|]. right. split; [reflexivity|].
    apply filter_In in Hi. destruct Hi as [Hi E]. apply in_indices in Hi. apply Z.eqb_eq in E. exists i. auto.
  - intros [H|[-> [i [Hi E]]]]; [left; exact H|]. right. exists i. split; [reflexivity|].
    apply filter_In. split; [apply in_indices; exact Hi | apply Z.eqb_eq; exact E].
Qed.

Record CanonL (s : state) (m : amap) : Prop := mkCanonL
  { cl_inv : Inv vh R s;
    cl_live : forall h x, In x (bucket h (ring s)) <-> LiveL m x h }.

Lemma canonL_step : forall s m a, CanonL s m -> CanonL (astep vh R s a) (a_act m a).
Proof.
  intros s m a [I L]. split; [apply astep_inv; exact I|].
  intros h x. destruct a as [n|y r]; cbn [astep a_act].
  - rewrite (remove_bucket_iff vh R n s h x I), L. unfold LiveL, a_del. split.
    + intros [(r & i & Hin & H) Hne]. exists r, i. split; [|exact H].
      apply filter_In. split; [exact Hin|]. cbn [fst]. apply negb_true_iff, Z.eqb_neq. exact Hne.
    + intros (r & i & Hin & H). apply filter_In in Hin. destruct Hin as [Hin Hne]. cbn [fst] in Hne.
      apply negb_true_iff, Z.eqb_neq in Hne. split; [exists r, i; auto | exact Hne].
  - rewrite insert_bucket_iff, L. unfold LiveL. split.
    + intros [(r0 & i & Hin & H)|[-> (i & Hi & E)]].
      * exists r0, i. split; [apply in_or_app; left; exact Hin | exact H].
      * exists (clamp R r), i. split; [apply in_or_app; right; left; reflexivity|].
        split; [apply eff_clamp; exact Hi | symmetry; exact E].
    + intros (r0 & i & Hin & Hi & E). apply in_app_or in Hin. destruct Hin as [Hin|[Hin|[]]].
      * left. exists r0, i. auto.
      * inversion Hin; subst r0. right. split; [destruct x, y; cbn in *; congruence|].
        exists i. split; [apply eff_clamp; exact Hi|]. rewrite H0. symmetry. exact E.
Qed.

Lemma canonL_run : forall acts, CanonL (arun vh R acts) (amap_acts acts).
Proof.
  intros acts. unfold arun, amap_acts.
  assert (H0 : CanonL init []).
  { split; [apply inv_init|]. intros h x. cbn. split; [contradiction | intros (r & i & [] & _)]. }
  revert H0. generalize init. generalize (@nil (Z * (Z * Z))).
  induction acts as [|a acts IH]; intros m s H; cbn [fold_left]; [exact H|].
  apply IH. apply canonL_step. exact H.
Qed.

(* the ring after ANY sequence of actions is exactly the image of the layers: a value sits in the slot
   h iff a layer of its node has a live virtual node hashing to h; and keys holds one key per entry *)
Lemma arun_ring_image_l : forall acts,
  let s := arun vh R acts in
  (forall h x, In x (bucket h (ring s)) <-> LiveL (amap_acts acts) x h) /\
  (forall h, cnt (keys s) h = length (bucket h (ring s))) /\
  (forall h, In h (keys s) <-> live_hashL (amap_acts acts) h).
Proof.
  intros acts s. destruct (canonL_run acts) as [I L]. fold s in I, L.
  split; [exact L|]. split; [exact (inv_cnt _ _ _ I)|].
  intros h. split.
  - intros Hk. destruct (key_bucket vh R s h I Hk) as [x Hx]. exists x. apply L. exact Hx.
  - intros [x Hx]. apply L in Hx. eapply bucket_key; eauto.
Qed.

(* Get after ANY sequence of actions, for every hash: never a panic; none iff no layer has a live
   virtual node; otherwise a value of a layer owning the cyclic successor slot of the key's hash *)
Lemma arun_get_owner_l : forall acts hp ihp,
  let m := amap_acts acts in
  (forall x, get (arun vh R acts) hp ihp = GSome x ->
             exists k, LiveL m x k /\ is_succ (live_hashL m) hp k) /\
  (get (arun vh R acts) hp ihp = GNone <-> forall h, ~ live_hashL m h) /\
  get (arun vh R acts) hp ihp <> GPanic.
Proof.
  intros acts hp ihp m. destruct (canonL_run acts) as [I L]. fold m in L. set (s := arun vh R acts) in *.
  assert (Hkeys : forall h, In h (keys s) <-> live_hashL m h).
  { intros h. split.
    - intros Hk. destruct (key_bucket vh R s h I Hk) as [x Hx]. exists x. apply L. exact Hx.
    - intros [x Hx]. apply L in Hx. eapply bucket_key; eauto. }
  destruct (get_inv vh R s hp ihp I) as (NP & NoneIff & _).
  split; [|split; [|exact NP]].
  - intros x G. destruct (get_succ vh R s hp ihp x I G) as [k [Sk Hx]]. exists k.
    split; [apply L; exact Hx|]. eapply is_succ_ext; [|exact Sk]. exact Hkeys.
  - rewrite NoneIff. split.
    + intros E h [z Hz]. apply L in Hz. rewrite E in Hz. exact Hz.
    + intros Hno. destruct (nil_or _ (ring s)) as [E|E]; [exact E|]. exfalso.
      pose proof (inv_keys_nonempty vh R s I E) as Hk.
      destruct (keys s) as [|a l] eqn:Ek; [congruence|]. apply (Hno a). apply Hkeys. left. reflexivity.
Qed.

(* ---- schedules ----------------------------------------------------------------------------------- *)
Lemma lts_fold_trace : forall sched pending s,
  snd (fold_left (lts_step vh R) sched (pending, s)) =
  fold_left (astep vh R) (lts_trace pending sched) s.
Proof.
  induction sched as [|t sched IH]; intros pending s; cbn [fold_left lts_trace]; [reflexivity|].
  unfold lts_step at 2. cbn [fst snd]. destruct (nth t pending []) as [|a rest]; [apply IH|].
  cbn [fold_left]. apply IH.
Qed.

(* the state a schedule reaches is the state of the action sequence it executes *)
Lemma lts_state : forall threads sched,
  snd (lts_run vh R threads sched) = arun vh R (lts_trace (map (flat_map (acts_of R)) threads) sched).
Proof. intros threads sched. unfold lts_run, lts_init, arun. apply lts_fold_trace. Qed.

(* ---- lookups interleaved with the membership actions -------------------------------------------- *)
(* the answers of the lookups are the answers of Get in the membership states at their own steps *)
Lemma grun_answers : forall l done,
  snd (grun vh R (arun vh R done) l) =
  map (fun pq => get (arun vh R (fst pq)) (fst (snd pq)) (snd (snd pq))) (gpoints l done).
Proof.
  induction l as [|c l IH]; intros done; [reflexivity|]. destruct c as [a|hp ihp]; cbn [grun gpoints snd map fst].
  - replace (astep vh R (arun vh R done) a) with (arun vh R (done ++ [a])); [apply IH|].
    unfold arun. rewrite fold_left_app. reflexivity.
  - f_equal. apply IH.
Qed.

(* ... and each such state is one the execution really goes through: a prefix of its membership trace *)
Lemma gpoints_prefix : forall l done pq, In pq (gpoints l done) ->
  exists mid rest, fst pq = done ++ mid /\ membership l = mid ++ rest.
Proof.
  induction l as [|c l IH]; intros done pq Hin; [contradiction|]. destruct c as [a|hp ihp]; cbn [gpoints] in Hin.
  - change (membership (CAct a :: l)) with (a :: membership l).
    destruct (IH _ _ Hin) as (mid & rest & E1 & E2). exists (a :: mid), rest. split.
    + rewrite E1, <- app_assoc. reflexivity.
    + cbn [app]. rewrite E2. reflexivity.
  - change (membership (CGet hp ihp :: l)) with (membership l).
    destruct Hin as [<-|Hin].
    + exists [], (membership l). cbn [fst]. split; [rewrite app_nil_r; reflexivity | reflexivity].
    + destruct (IH _ _ Hin) as (mid & rest & E1 & E2). exists mid, rest. auto.
Qed.

(* Get is linearisable against the membership actions: every answer of every lookup of every
   interleaving is Get's answer in a membership state the execution goes through (the state at the
   lookup's own step, inside the call) — hence never a panic, never a value outside the ring of that
   moment: its node is in the node set, it sits in a bucket of an existing key, and it owns the cyclic
   successor slot among the layers present then. *)
Lemma get_linearizable_l : forall l g, In g (snd (grun vh R init l)) ->
  exists acts rest hp ihp,
    membership l = acts ++ rest /\ g = get (arun vh R acts) hp ihp /\ g <> GPanic /\
    (g = GNone <-> ring (arun vh R acts) = []) /\
    forall x, g = GSome x ->
      In (nrepr x) (nodes (arun vh R acts)) /\
      (exists h, In h (keys (arun vh R acts)) /\ In x (bucket h (ring (arun vh R acts)))) /\
      exists k, LiveL (amap_acts acts) x k /\ is_succ (live_hashL (amap_acts acts)) hp k.
Proof.
  intros l g Hin. change init with (arun vh R []) in Hin. rewrite grun_answers in Hin.
  apply in_map_iff in Hin. destruct Hin as [[acts [hp ihp]] [Eg Hpq]]. cbn [fst snd] in Eg.
  destruct (gpoints_prefix _ _ _ Hpq) as (mid & rest & E1 & E2). cbn [fst app] in E1. subst acts.
  exists mid, rest, hp, ihp. split; [exact E2|]. split; [symmetry; exact Eg|].
  destruct (arun_get mid hp ihp) as (NP & NoneIff & Hs). destruct (arun_get_owner_l mid hp ihp) as (Ho & _).
  rewrite <- Eg. split; [exact NP|]. split; [exact NoneIff|].
  intros x Gx. destruct (Hs x Gx) as [Hn Hb]. split; [exact Hn|]. split; [exact Hb | exact (Ho x Gx)].
Qed.

Lemma lts_inv_get_l : forall threads sched hp ihp,
  let s := snd (lts_run vh R threads sched) in
  Inv vh R s /\
  get s hp ihp <> GPanic /\
  (get s hp ihp = GNone <-> ring s = []) /\
  (forall x, get s hp ihp = GSome x ->
     In (nrepr x) (nodes s) /\ exists h, In h (keys s) /\ In x (bucket h (ring s))).
Proof.
  intros threads sched hp ihp s. unfold s. rewrite lts_state.
  split; [apply arun_inv | apply arun_get].
Qed.

End WithHash.
