(* C05 — MaxConns as a user of rest.Server sees it (rest/engine.go bindRoute +
   rest/handler/maxconnshandler.go): the engine assembles ONE middleware chain per route, when the
   routes are bound, so every route owns one latch of capacity n = RestConf.MaxConns
   (handler.MaxConnsHandler(n) is a constructor: each chain.Then calls it once).  The server is a
   list of independent Lim LTS, one per route; an actor is a pair (route, client thread of that
   route); a schedule is any interleaving of the atomic actions of all clients of all routes.
   Executable model + the projection lemma + the per-route theorems (proved here from the
   theorems of the single latch; Props.v restates them). *)
From Coq Require Import List ZArith Bool Arith Lia.
From GZ Require Import Lib.Sched C05.Model C05.Proofs C05.Proofs2.
Import ListNotations.

Definition estate := list lstate.

Definition einit (n : nat) (routes : list (list (list lop))) : estate :=
  map (linit n) routes.

Definition estep (es : estate) (a : nat * nat) : option estate :=
  match nth_error es (fst a) with
  | Some s => match lstep s (snd a) with
              | Some s' => Some (upd_nth es (fst a) s')
              | None => None
              end
  | None => None
  end.

Fixpoint erun (es : estate) (sched : list (nat * nat)) : estate :=
  match sched with
  | [] => es
  | a :: r => match estep es a with Some es' => erun es' r | None => erun es r end
  end.

Definition eexec (n : nat) (routes : list (list (list lop))) (sched : list (nat * nat)) : estate :=
  erun (einit n routes) sched.

(* the part of a schedule that concerns route r *)
Definition eproj (r : nat) (sched : list (nat * nat)) : list nat :=
  map snd (filter (fun a => Nat.eqb (fst a) r) sched).

Lemma nth_error_upd_nth_eq : forall {A} (l : list A) i x y,
  nth_error l i = Some y -> nth_error (upd_nth l i x) i = Some x.
Proof.
  induction l as [|h l IH]; intros [|i] x y H; cbn in *; try discriminate; auto.
  eapply IH; eauto.
Qed.

Lemma nth_error_upd_nth_neq : forall {A} (l : list A) i j x,
  i <> j -> nth_error (upd_nth l i x) j = nth_error l j.
Proof.
  induction l as [|h l IH]; intros [|i] [|j] x H; cbn in *; auto; try congruence.
Qed.

(* the state of route r after any interleaving is the state of its own latch after its own part of
   the schedule: routes do not interfere *)
Lemma erun_proj : forall sched es r s,
  nth_error es r = Some s ->
  nth_error (erun es sched) r = Some (run lstep s (eproj r sched)).
Proof.
  induction sched as [|[r' x] sched IH]; intros es r s H; cbn [erun eproj filter map fst snd].
  - exact H.
  - unfold estep. cbn [fst snd].
    destruct (Nat.eqb r' r) eqn:E.
    + apply Nat.eqb_eq in E. subst r'. rewrite H. cbn [map snd run].
      destruct (lstep s x) as [s'|].
      * apply IH. eapply nth_error_upd_nth_eq; eauto.
      * apply IH. exact H.
    + apply Nat.eqb_neq in E.
      destruct (nth_error es r') as [s0|]; [|apply IH; exact H].
      destruct (lstep s0 x) as [s0'|]; [|apply IH; exact H].
      apply IH. rewrite nth_error_upd_nth_neq; auto.
Qed.

Lemma eexec_route : forall n routes sched r scripts,
  nth_error routes r = Some scripts ->
  nth_error (eexec n routes sched) r = Some (lexec n scripts (eproj r sched)).
Proof.
  intros n routes sched r scripts H. unfold eexec, lexec. apply erun_proj.
  unfold einit. rewrite nth_error_map, H. reflexivity.
Qed.

(* Every route of the server, under every interleaving of the requests (handlers that return or
   panic, request contexts cancelled / hijacked connections closed meanwhile) of all routes: the
   permits out are exactly the requests inside THAT route's handler, at most n of them; no Return is
   ever rogue; and when no request of the route is inside, its full capacity is available. *)
Lemma engine_cap_per_route_l : forall n routes sched r scripts s,
  Forall (Forall is_req) scripts ->
  nth_error routes r = Some scripts ->
  nth_error (eexec n routes sched) r = Some s ->
  lrogue s = false /\ lc s = linbody s /\ linbody s <= n /\
  ((forall th, In th (lthreads s) -> lpcof th <> LInBody) -> lc s = 0).
Proof.
  intros n routes sched r scripts s Hreq Hr Hs.
  rewrite (eexec_route _ _ _ _ _ Hr) in Hs. inversion Hs; subst s. clear Hs.
  destruct (maxconns_idle_means_zero_l n scripts (eproj r sched) Hreq) as [Hrog [Hc Hidle]].
  destruct (lim_cap_l n scripts (eproj r sched)) as [_ [_ [_ Hh]]].
  destruct (Hh Hrog) as [_ [_ Hin]].
  repeat split; auto.
Qed.

(* a step of a client of one route changes nothing of any other route *)
Lemma engine_routes_independent_l : forall es a es' r,
  estep es a = Some es' -> r <> fst a -> nth_error es' r = nth_error es r.
Proof.
  intros es [r' x] es' r H Hne. unfold estep in H. cbn [fst snd] in *.
  destruct (nth_error es r') as [s|]; [|discriminate].
  destruct (lstep s x) as [s'|]; [|discriminate].
  inversion H; subst es'. apply nth_error_upd_nth_neq. auto.
Qed.
