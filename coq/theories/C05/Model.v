(* C05 — concurrency caps: executable interleaving models of
     core/syncx/limit.go, timeoutlimit.go (+ cond.go), rest/handler/maxconnshandler.go   [Lim]
     core/threading/taskrunner.go (Schedule, ScheduleImmediately, Wait)                   [TR]
     core/syncx/pool.go (Get keeps the lock across the user's create())                   [PL]
     core/mr/mapreduce.go executeMappers (behind ForEach / MapReduce / MapReduceVoid /
       MapReduceChan / Finish / FinishVoid) and core/fx/stream.go walkLimited (behind
       Walk / Parallel / Map / Filter)                                                     [WP]
     core/threading/workergroup.go                                                         [WG]
   No proofs in this file.  Threads are scripts of API calls; every call is split into the
   atomic actions of the Go code (one per channel operation / mutex section / callback start
   and end).  [step s x] performs the next atomic action of thread x (x < number of threads)
   or of pseudo-thread x - N (a timer of TimeoutLimit, a task goroutine of TaskRunner, a
   worker of a pool); [None] = disabled (blocked / finished / absent).  Schedules are
   [list nat] (Lib/Sched.run); theorems quantify over all of them. *)
From Coq Require Import List ZArith Bool Arith.
From GZ Require Export Lib.Sched.
Import ListNotations.

(* ================================================================== *)
(* Lim: Limit, TimeoutLimit, MaxConnsHandler                            *)

Inductive lop :=
| LBorrow                 (* Limit.Borrow *)
| LTry                    (* Limit.TryBorrow / TimeoutLimit.TryBorrow *)
| LReturn                 (* Limit.Return *)
| LTBorrow (short : bool) (* TimeoutLimit.Borrow(timeout) *)
| LTReturn                (* TimeoutLimit.Return *)
| LReq (panics : bool)    (* one HTTP request through MaxConnsHandler; the handler body returns or panics *)
| LCancel (k : nat).      (* an environment event aimed at thread k's (current or last) request: its context
                             is cancelled - the client went away; the handler, if still inside, stays
                             inside - or the connection its handler took over (http.Hijacker) is closed,
                             once more.  A holder's permit is given back at its return only: neither
                             event changes any capacity *)

Inductive lpc :=
| LIdle       (* between calls *)
| LBorrowing  (* Borrow invoked: blocked on the channel send until a slot is free *)
| LTWait      (* TimeoutLimit.Borrow: in Cond.WaitWithTimeout *)
| LTWoken     (* got the signal; next: TryBorrow again *)
| LTSignal    (* TimeoutLimit.Return: limit.Return succeeded; next: cond.Signal *)
| LInBody.    (* MaxConns: inside next.ServeHTTP, permit held, deferred Return pending *)

(* result codes: 1 = nil / true / 200, 0 = ErrLimitReturn / false / 503, 2 = ErrTimeout,
   3 = the handler's panic propagated (after the deferred Return) *)
Record lthread := mkLT
  { lpcof : lpc; lscript : list lop; lopi : nat;
    lheld : nat;          (* ghost: permits this thread holds *)
    lres : list Z }.

Record lstate := mkLS
  { lcap : nat;           (* n *)
    lc : nat;             (* elements in the channel = outstanding permits *)
    lsig : nat;           (* signals handed to waiters that have not run yet *)
    lacq : nat; lrel : nat;   (* ghost: successful acquisitions / releases so far *)
    lrogue : bool;        (* ghost: some Return succeeded for a thread holding nothing *)
    lthreads : list lthread }.

Definition linit (n : nat) (scripts : list (list lop)) : lstate :=
  mkLS n 0 0 0 0 false (map (fun sc => mkLT LIdle sc 0 0 []) scripts).

Definition lcur (th : lthread) : option lop := nth_error (lscript th) (lopi th).

Definition lwaiting (s : lstate) : nat := sumf (fun th => match lpcof th with LTWait => 1 | _ => 0 end) (lthreads s).

(* the thread finishes its call with result r *)
Definition ldone (th : lthread) (held : nat) (r : Z) : lthread :=
  mkLT LIdle (lscript th) (S (lopi th)) held (lres th ++ [r]).
Definition lgo (th : lthread) (p : lpc) (held : nat) : lthread :=
  mkLT p (lscript th) (lopi th) held (lres th).

Definition lset (s : lstate) (c sig acq rel : nat) (rogue : bool) (t : nat) (th : lthread) : lstate :=
  mkLS (lcap s) c sig acq rel rogue (upd_nth (lthreads s) t th).

(* successful non-blocking receive of Return by thread th *)
Definition lrelease (s : lstate) (t : nat) (th : lthread) (k : nat -> lthread) : lstate :=
  lset s (pred (lc s)) (lsig s) (lacq s) (S (lrel s))
       (lrogue s || Nat.eqb (lheld th) 0) t (k (pred (lheld th))).

Definition lacquire (s : lstate) (t : nat) (th' : lthread) : lstate :=
  lset s (S (lc s)) (lsig s) (S (lacq s)) (lrel s) (lrogue s) t th'.

Definition lkeep (s : lstate) (t : nat) (th' : lthread) : lstate :=
  lset s (lc s) (lsig s) (lacq s) (lrel s) (lrogue s) t th'.

Definition lstep_thread (s : lstate) (t : nat) (th : lthread) (o : lop) : option lstate :=
  let free := Nat.ltb (lc s) (lcap s) in
  match lpcof th with
  | LIdle =>
    match o with
    | LBorrow => Some (lkeep s t (lgo th LBorrowing (lheld th)))
    | LTry =>
      if free then Some (lacquire s t (ldone th (S (lheld th)) 1))
      else Some (lkeep s t (ldone th (lheld th) 0))
    | LReturn =>
      if Nat.ltb 0 (lc s) then Some (lrelease s t th (fun h => ldone th h 1))
      else Some (lkeep s t (ldone th (lheld th) 0))
    | LTBorrow _ =>
      if free then Some (lacquire s t (ldone th (S (lheld th)) 1))
      else Some (lkeep s t (lgo th LTWait (lheld th)))
    | LTReturn =>
      if Nat.ltb 0 (lc s) then Some (lrelease s t th (fun h => lgo th LTSignal h))
      else Some (lkeep s t (ldone th (lheld th) 0))
    | LReq _ =>
      if free then Some (lacquire s t (lgo th LInBody (S (lheld th))))
      else Some (lkeep s t (ldone th (lheld th) 0))
    | LCancel _ => Some (lkeep s t (ldone th (lheld th) 1))
    end
  | LBorrowing => if free then Some (lacquire s t (ldone th (S (lheld th)) 1)) else None
  | LTWait =>
    if Nat.ltb 0 (lsig s) then
      Some (lset s (lc s) (pred (lsig s)) (lacq s) (lrel s) (lrogue s) t (lgo th LTWoken (lheld th)))
    else None
  | LTWoken =>
    if free then Some (lacquire s t (ldone th (S (lheld th)) 1))
    else Some (lkeep s t (lgo th LTWait (lheld th)))
  | LTSignal =>
    (* non-blocking send on the unbuffered signal channel: taken iff a waiter is receiving *)
    let sig' := if Nat.ltb (lsig s) (lwaiting s) then S (lsig s) else lsig s in
    Some (lset s (lc s) sig' (lacq s) (lrel s) (lrogue s) t (ldone th (lheld th) 1))
  | LInBody =>
    let r := match o with LReq true => 3%Z | _ => 1%Z end in
    if Nat.ltb 0 (lc s) then Some (lrelease s t th (fun h => ldone th h r))
    else Some (lkeep s t (ldone th (lheld th) r))   (* Return's error is only logged *)
  end.

(* timer of thread t fires while it waits: Borrow returns ErrTimeout *)
Definition lstep_timer (s : lstate) (t : nat) : option lstate :=
  match nth_error (lthreads s) t with
  | Some th =>
    match lpcof th, lcur th with
    | LTWait, Some _ => Some (lkeep s t (ldone th (lheld th) 2))
    | _, _ => None
    end
  | None => None
  end.

Definition lstep (s : lstate) (x : nat) : option lstate :=
  let N := length (lthreads s) in
  if Nat.ltb x N then
    match nth_error (lthreads s) x with
    | Some th => match lcur th with Some o => lstep_thread s x th o | None => None end
    | None => None
    end
  else lstep_timer s (x - N).

Definition lexec (n : nat) (scripts : list (list lop)) (sched : list nat) : lstate :=
  run lstep (linit n scripts) sched.

Definition lholders (s : lstate) : nat := sumf lheld (lthreads s).
Definition linbody (s : lstate) : nat :=
  sumf (fun th => match lpcof th with LInBody => 1 | _ => 0 end) (lthreads s).

(* ================================================================== *)
(* TR: TaskRunner                                                       *)

Inductive rop := RSched (panics : bool) | RSchedNow (panics : bool) | RWait.
Inductive rpc :=
| RIdle
| RScheduling     (* Schedule: waitGroup.Add(1) done, blocked on the send into limitChan *)
| RWaitingWg.     (* Wait: blocked in waitGroup.Wait() until the counter is zero *)
(* the epilogue of a task goroutine (rescue.Recover's cleanup) in its real order: first
   <-limitChan (TRunning -> TReleased), then waitGroup.Done() (TReleased -> TDone) *)
Inductive tstate := TSpawned | TRunning | TReleased | TDone.

Record rthread := mkRT { rpcof : rpc; rscript : list rop; ropi : nat; rres : list Z }.
Record task := mkTask { tst : tstate; tpanics : bool }.

Record rstate := mkRS
  { rcap : nat; rc : nat;      (* limitChan: capacity, elements *)
    rwg : nat;                 (* waitGroup counter *)
    rtasks : list task;        (* task goroutines in order of creation *)
    rthreads : list rthread }.

Definition rinit (n : nat) (scripts : list (list rop)) : rstate :=
  mkRS n 0 0 [] (map (fun sc => mkRT RIdle sc 0 []) scripts).

Definition rcur (th : rthread) := nth_error (rscript th) (ropi th).
Definition rpanics (o : rop) : bool := match o with RSched p | RSchedNow p => p | RWait => false end.
Definition rdone (th : rthread) (r : Z) : rthread := mkRT RIdle (rscript th) (S (ropi th)) (rres th ++ [r]).

Definition rstep (s : rstate) (x : nat) : option rstate :=
  let N := length (rthreads s) in
  if Nat.ltb x N then
    match nth_error (rthreads s) x with
    | Some th =>
      match rcur th with
      | Some o =>
        let free := Nat.ltb (rc s) (rcap s) in
        let spawn := rtasks s ++ [mkTask TSpawned (rpanics o)] in
        match rpcof th, o with
        | RIdle, RSched _ =>       (* waitGroup.Add(1); then the blocking send *)
          Some (mkRS (rcap s) (rc s) (S (rwg s)) (rtasks s)
                     (upd_nth (rthreads s) x (mkRT RScheduling (rscript th) (ropi th) (rres th))))
        | RIdle, RSchedNow _ =>    (* Add(1); select send / default: Done, ErrTaskRunnerBusy *)
          if free then Some (mkRS (rcap s) (S (rc s)) (S (rwg s)) spawn (upd_nth (rthreads s) x (rdone th 1)))
          else Some (mkRS (rcap s) (rc s) (rwg s) (rtasks s) (upd_nth (rthreads s) x (rdone th 0)))
        | RIdle, RWait =>          (* Wait invoked *)
          Some (mkRS (rcap s) (rc s) (rwg s) (rtasks s)
                     (upd_nth (rthreads s) x (mkRT RWaitingWg (rscript th) (ropi th) (rres th))))
        | RScheduling, _ =>        (* limitChan <- ; go func *)
          if free then Some (mkRS (rcap s) (S (rc s)) (rwg s) spawn (upd_nth (rthreads s) x (rdone th 1)))
          else None
        | RWaitingWg, _ =>         (* waitGroup.Wait() returns only at counter zero *)
          if Nat.eqb (rwg s) 0
          then Some (mkRS (rcap s) (rc s) (rwg s) (rtasks s) (upd_nth (rthreads s) x (rdone th 1)))
          else None
        end
      | None => None
      end
    | None => None
    end
  else
    let k := x - N in
    match nth_error (rtasks s) k with
    | Some tk =>
      match tst tk with
      | TSpawned => Some (mkRS (rcap s) (rc s) (rwg s) (upd_nth (rtasks s) k (mkTask TRunning (tpanics tk))) (rthreads s))
      | TRunning =>  (* task returns or panics; rescue.Recover's cleanup, first step: <-limitChan *)
        Some (mkRS (rcap s) (pred (rc s)) (rwg s) (upd_nth (rtasks s) k (mkTask TReleased (tpanics tk))) (rthreads s))
      | TReleased => (* ... second step: waitGroup.Done() *)
        Some (mkRS (rcap s) (rc s) (pred (rwg s)) (upd_nth (rtasks s) k (mkTask TDone (tpanics tk))) (rthreads s))
      | TDone => None
      end
    | None => None
    end.

Definition rexec (n : nat) (scripts : list (list rop)) (sched : list nat) : rstate :=
  run rstep (rinit n scripts) sched.

Definition is_running (tk : task) : nat := match tst tk with TRunning => 1 | _ => 0 end.
(* holds a slot *)
Definition is_live (tk : task) : nat := match tst tk with TSpawned | TRunning => 1 | _ => 0 end.
(* slot given back, still counted by the WaitGroup *)
Definition is_released (tk : task) : nat := match tst tk with TReleased => 1 | _ => 0 end.
Definition rrunning (s : rstate) : nat := sumf is_running (rtasks s).
Definition rlive (s : rstate) : nat := sumf is_live (rtasks s).
Definition rreleased (s : rstate) : nat := sumf is_released (rtasks s).
Definition rscheduling (s : rstate) : nat :=
  sumf (fun th => match rpcof th with RScheduling => 1 | _ => 0 end) (rthreads s).

(* ================================================================== *)
(* PL: Pool                                                             *)

Inductive pop := PGet | PPut | PAdv (d : Z)
| PGetX.   (* a Get whose create(), if it comes to be called, panics (at once: nobody overlaps it) *)
Inductive ppc :=
| PIdle                 (* between calls *)
| PEnter                (* Get / Put invoked: about to take the pool lock *)
| PWaiting              (* Get: in cond.Wait (lock released) *)
| PCreating (x : nat).  (* Get: inside the user's create(), still HOLDING the pool lock *)

Record pthread := mkPT
  { ppcof : ppc; pscript : list pop; popi : nat;
    pheld : list nat;        (* resources assigned to this user and not yet put back, most recent
                                first (a resource being created for it is already assigned) *)
    pres : list Z }.         (* per call: Get -> the resource id; Put/Adv -> -1 *)

Record pstate := mkPS
  { plimit : nat; pmaxage : Z;
    pcreated : nat;
    pidle : list (nat * Z);      (* the linked list head...: (resource, lastUsed) *)
    pclock : Z;                  (* timex.Now() *)
    pnext : nat;                 (* next fresh resource id (create() is the harness's) *)
    psig : nat;                  (* cond signals handed to waiters that have not run yet *)
    pdestroyed : list nat;       (* ghost: resources passed to destroy() *)
    pthreads : list pthread;
    plocked : bool }.            (* the pool lock is held across a gate (a create() in progress) *)

Definition pinit (n : nat) (maxage : Z) (scripts : list (list pop)) : pstate :=
  mkPS n maxage 0 [] 1000000 0 0 [] (map (fun sc => mkPT PIdle sc 0 [] []) scripts) false.

Definition pcur (th : pthread) := nth_error (pscript th) (popi th).
Definition pwaiting (s : pstate) : nat :=
  sumf (fun th => match ppcof th with PWaiting => 1 | _ => 0 end) (pthreads s).

Definition expired (maxage now : Z) (last : Z) : bool :=
  (0 <? maxage)%Z && (last + maxage <? now)%Z.

(* the loop of Pool.Get up to the point where it returns or waits: pop expired heads *)
Fixpoint pdrain (maxage now : Z) (idle : list (nat * Z)) (created : nat) (destroyed : list nat)
  : option nat * list (nat * Z) * nat * list nat :=
  match idle with
  | [] => (None, [], created, destroyed)
  | (x, last) :: rest =>
    if expired maxage now last then pdrain maxage now rest (pred created) (destroyed ++ [x])
    else (Some x, rest, created, destroyed)
  end.

(* one pass of Get under the lock: returns an idle resource, or counts a new one and calls
   create() WITHOUT releasing the lock (PCreating), or waits *)
(* [cp]: create() panics.  Repaired code (/repo e2cd8c7: `item := p.create(); p.created++`,
   the lock held throughout): the resource is counted only after create() returned, so a
   panicking create() counts nothing; the deferred Unlock releases the lock and Get panics
   (result -2): nothing is created, nothing is lost.  (For a create() that returns, counting
   before or after the call is the same thing: nobody can look in between.) *)
Definition pget (s : pstate) (t : nat) (th : pthread) (sig : nat) (cp : bool) : pstate :=
  let '(got, idle', created', destroyed') := pdrain (pmaxage s) (pclock s) (pidle s) (pcreated s) (pdestroyed s) in
  match got with
  | Some x =>
    mkPS (plimit s) (pmaxage s) created' idle' (pclock s) (pnext s) sig destroyed'
         (upd_nth (pthreads s) t (mkPT PIdle (pscript th) (S (popi th)) (x :: pheld th) (pres th ++ [Z.of_nat x])))
         false
  | None =>
    if Nat.ltb created' (plimit s) then
      if cp then
        mkPS (plimit s) (pmaxage s) created' idle' (pclock s) (pnext s) sig destroyed'
             (upd_nth (pthreads s) t (mkPT PIdle (pscript th) (S (popi th)) (pheld th) (pres th ++ [(-2)%Z])))
             false
      else
      mkPS (plimit s) (pmaxage s) (S created') idle' (pclock s) (S (pnext s)) sig destroyed'
           (upd_nth (pthreads s) t (mkPT (PCreating (pnext s)) (pscript th) (popi th) (pnext s :: pheld th) (pres th)))
           true
    else
      mkPS (plimit s) (pmaxage s) created' idle' (pclock s) (pnext s) sig destroyed'
           (upd_nth (pthreads s) t (mkPT PWaiting (pscript th) (popi th) (pheld th) (pres th)))
           false
  end.

Definition pcp (o : pop) : bool := match o with PGetX => true | _ => false end.

Definition pstep (s : pstate) (t : nat) : option pstate :=
  match nth_error (pthreads s) t with
  | Some th =>
    match pcur th with
    | Some o =>
      let fin := mkPT PIdle (pscript th) (S (popi th)) in
      let same th' lk := mkPS (plimit s) (pmaxage s) (pcreated s) (pidle s) (pclock s) (pnext s) (psig s)
                              (pdestroyed s) (upd_nth (pthreads s) t th') lk in
      match ppcof th, o with
      | PIdle, PAdv d =>
        Some (mkPS (plimit s) (pmaxage s) (pcreated s) (pidle s) (pclock s + Z.max 0 d)%Z (pnext s) (psig s)
                   (pdestroyed s) (upd_nth (pthreads s) t (fin (pheld th) (pres th ++ [(-1)%Z]))) (plocked s))
      | PIdle, PPut =>
        match pheld th with
        | [] => Some (same (fin [] (pres th ++ [(-1)%Z])) (plocked s))   (* nothing to put: Put is not called *)
        | _ => Some (same (mkPT PEnter (pscript th) (popi th) (pheld th) (pres th)) (plocked s))
        end
      | PIdle, PGet | PIdle, PGetX => Some (same (mkPT PEnter (pscript th) (popi th) (pheld th) (pres th)) (plocked s))
      | PEnter, PPut =>
        if plocked s then None else
        match pheld th with
        | x :: rest =>
          let sig' := if Nat.ltb (psig s) (pwaiting s) then S (psig s) else psig s in
          Some (mkPS (plimit s) (pmaxage s) (pcreated s) ((x, pclock s) :: pidle s) (pclock s) (pnext s)
                     sig' (pdestroyed s) (upd_nth (pthreads s) t (fin rest (pres th ++ [(-1)%Z]))) false)
        | [] => Some (same (fin [] (pres th ++ [(-1)%Z])) false)
        end
      | PEnter, _ => if plocked s then None else Some (pget s t th (psig s) (pcp o))
      | PWaiting, _ =>
        if plocked s then None else
        if Nat.ltb 0 (psig s) then Some (pget s t th (pred (psig s)) (pcp o)) else None
      | PCreating x, _ =>     (* create() returns; Get returns the new resource and unlocks *)
        Some (same (fin (pheld th) (pres th ++ [Z.of_nat x])) false)
      end
    | None => None
    end
  | None => None
  end.

Definition pexec (n : nat) (maxage : Z) (scripts : list (list pop)) (sched : list nat) : pstate :=
  run pstep (pinit n maxage scripts) sched.

Definition pheldcount (s : pstate) : nat := sumf (fun th => length (pheld th)) (pthreads s).
(* how many users hold resource x *)
Definition pholders (x : nat) (s : pstate) : nat :=
  sumf (fun th => count_occ Nat.eq_dec (pheld th) x) (pthreads s).
Definition pidle_count (x : nat) (s : pstate) : nat := count_occ Nat.eq_dec (map fst (pidle s)) x.
(* a create() is in progress *)
Definition pcreating (s : pstate) : nat :=
  sumf (fun th => match ppcof th with PCreating _ => 1 | _ => 0 end) (pthreads s).

(* ================================================================== *)
(* WP: the worker pools of core/mr (executeMappers) and core/fx (walkLimited; Walk,
   Parallel, Map, Filter, ... with WithWorkers(n)).  Both are one dispatcher goroutine that
   takes a slot of a buffered channel [pool] of size n per item (mr: slot first, then the
   item, slot given back if the source is exhausted; fx: item first, then the slot), adds 1 to
   a WaitGroup and starts a worker goroutine; the worker runs the user function (which may
   panic: recovered inside the goroutine by mr, by threading.GoSafe for fx) and, in a
   deferred function, does wg.Done() and then <-pool.  mr additionally sets [failed] on a
   panic, which stops the dispatcher at its next loop head.  Schedule element 0 is the
   dispatcher, k+1 is worker k (in order of creation). *)

Inductive wvariant := WMr | WFx.
Inductive wtst := WSp | WRun | WRel | WDn.   (* spawned / in the user fn / wg.Done done, slot still held / finished *)
(* what the user function does with its item: return, panic, or (mr.MapReduce family only) call
   cancel(err) and return - cancel drains the source and closes [done], after which the
   dispatcher starts nothing more (fx has no cancel: BCancel behaves like BRet there) *)
Inductive wbeh := BRet | BPanic | BCancel.
Record wtask := mkWT { wst : wtst; wbh : wbeh }.
Definition wpanics (tk : wtask) : bool := match wbh tk with BPanic => true | _ => false end.
Definition wcancels (tk : wtask) : bool := match wbh tk with BCancel => true | _ => false end.
Definition bp (l : list bool) : list wbeh := map (fun b : bool => if b then BPanic else BRet) l.

Inductive dpc :=
| DInit                       (* ForEach / Walk not yet called *)
| DTop                        (* loop head *)
| DAcq (it : option wbeh)     (* blocking send into pool (fx: holding the item already read) *)
| DRead                       (* mr: slot taken, reading the next item *)
| DSpawn (p : wbeh)           (* slot and item in hand: wg.Add(1); go worker *)
| DWait                       (* wg.Wait() *)
| DDone.

Record wstate := mkWS
  { wvar : wvariant; wcap : nat; wc : nat; wwg : nat;
    witems : list wbeh;        (* remaining items of the source: what the user fn does on each *)
    wfailed : bool;            (* mr: a mapper panicked (failed != 0) or cancelled (done closed): stop dispatching *)
    wd : dpc;
    wtasks : list wtask }.

Definition winit (v : wvariant) (n : nat) (items : list wbeh) : wstate :=
  mkWS v n 0 0 items false DInit [].

Definition wset_d (s : wstate) (c wg : nat) (items : list wbeh) (d : dpc) (tasks : list wtask) : wstate :=
  mkWS (wvar s) (wcap s) c wg items (wfailed s) d tasks.

Definition wstep (s : wstate) (x : nat) : option wstate :=
  match x with
  | O =>
    match wd s with
    | DInit => Some (wset_d s (wc s) (wwg s) (witems s) DTop (wtasks s))
    | DTop =>
      match wvar s with
      | WMr => Some (wset_d s (wc s) (wwg s) (witems s) (if wfailed s then DWait else DAcq None) (wtasks s))
      | WFx =>
        match witems s with
        | [] => Some (wset_d s (wc s) (wwg s) [] DWait (wtasks s))
        | p :: rest => Some (wset_d s (wc s) (wwg s) rest (DAcq (Some p)) (wtasks s))
        end
      end
    | DAcq it =>
      if Nat.ltb (wc s) (wcap s) then
        Some (wset_d s (S (wc s)) (wwg s) (witems s)
                     (match it with Some p => DSpawn p | None => DRead end) (wtasks s))
      else None
    | DRead =>
      match witems s with
      | [] => Some (wset_d s (pred (wc s)) (wwg s) [] DWait (wtasks s))
      | p :: rest => Some (wset_d s (wc s) (wwg s) rest (DSpawn p) (wtasks s))
      end
    | DSpawn p => Some (wset_d s (wc s) (S (wwg s)) (witems s) DTop (wtasks s ++ [mkWT WSp p]))
    | DWait => if Nat.eqb (wwg s) 0 then Some (wset_d s (wc s) (wwg s) (witems s) DDone (wtasks s)) else None
    | DDone => None
    end
  | S k =>
    match nth_error (wtasks s) k with
    | Some tk =>
      let put st := upd_nth (wtasks s) k (mkWT st (wbh tk)) in
      match wst tk with
      | WSp => Some (mkWS (wvar s) (wcap s) (wc s) (wwg s) (witems s) (wfailed s) (wd s) (put WRun))
      | WRun =>   (* fn returns, panics or cancels; deferred: (mr: failed := 1 on panic); wg.Done() *)
        let stop := match wvar s with WMr => wpanics tk || wcancels tk | WFx => false end in
        let items' := match wvar s with WMr => if wcancels tk then [] else witems s | WFx => witems s end in
        Some (mkWS (wvar s) (wcap s) (wc s) (pred (wwg s)) items' (wfailed s || stop) (wd s) (put WRel))
      | WRel =>   (* <-pool *)
        Some (mkWS (wvar s) (wcap s) (pred (wc s)) (wwg s) (witems s) (wfailed s) (wd s) (put WDn))
      | WDn => None
      end
    | None => None
    end
  end.

Definition wexec (v : wvariant) (n : nat) (items : list wbeh) (sched : list nat) : wstate :=
  run wstep (winit v n items) sched.

Definition w_running (tk : wtask) : nat := match wst tk with WRun => 1 | _ => 0 end.
Definition w_live (tk : wtask) : nat := match wst tk with WDn => 0 | _ => 1 end.
Definition w_counted (tk : wtask) : nat := match wst tk with WSp | WRun => 1 | _ => 0 end.
Definition wrunning (s : wstate) : nat := sumf w_running (wtasks s).
Definition wlive (s : wstate) : nat := sumf w_live (wtasks s).
(* the dispatcher holds a slot it has not yet handed to a worker *)
Definition whold (s : wstate) : nat := match wd s with DRead | DSpawn _ => 1 | _ => 0 end.

(* ================================================================== *)
(* WG: threading.WorkerGroup — NewWorkerGroup(job, n).Start(): a loop that starts exactly n
   goroutines through RoutineGroup.RunSafe (wg.Add(1); GoSafe(func(){ defer wg.Done(); job() }))
   and then group.Wait().  There is no semaphore: the cap is the loop bound.  job may panic
   (recovered by GoSafe after the deferred wg.Done()).  Schedule element 0 is the caller of
   Start, k+1 is worker k (in order of creation).  Worker states reuse [wtst] (WRel unused). *)

Inductive gpc := GInit | GLoop | GWait | GDone.

Record gstate := mkGS
  { gn : nat;                 (* workers *)
    gi : nat;                 (* loop counter *)
    gwg : nat;                (* the RoutineGroup's WaitGroup *)
    gd : gpc;
    gtasks : list wtask }.

Definition ginit (n : nat) : gstate := mkGS n 0 0 GInit [].

(* [panics k]: does the k-th job invocation panic *)
Definition gstep (panics : nat -> bool) (s : gstate) (x : nat) : option gstate :=
  match x with
  | O =>
    match gd s with
    | GInit => Some (mkGS (gn s) (gi s) (gwg s) GLoop (gtasks s))
    | GLoop =>
      if Nat.ltb (gi s) (gn s)
      then Some (mkGS (gn s) (S (gi s)) (S (gwg s)) GLoop (gtasks s ++ [mkWT WSp (if panics (gi s) then BPanic else BRet)]))
      else Some (mkGS (gn s) (gi s) (gwg s) GWait (gtasks s))
    | GWait => if Nat.eqb (gwg s) 0 then Some (mkGS (gn s) (gi s) (gwg s) GDone (gtasks s)) else None
    | GDone => None
    end
  | S k =>
    match nth_error (gtasks s) k with
    | Some tk =>
      match wst tk with
      | WSp => Some (mkGS (gn s) (gi s) (gwg s) (gd s) (upd_nth (gtasks s) k (mkWT WRun (wbh tk))))
      | WRun => Some (mkGS (gn s) (gi s) (pred (gwg s)) (gd s) (upd_nth (gtasks s) k (mkWT WDn (wbh tk))))
      | _ => None
      end
    | None => None
    end
  end.

Definition gexec (n : nat) (panics : nat -> bool) (sched : list nat) : gstate :=
  run (gstep panics) (ginit n) sched.

Definition grunning (s : gstate) : nat := sumf w_running (gtasks s).
Definition glive (s : gstate) : nat := sumf w_live (gtasks s).
