(* C05 — what an accepted log guarantees: the monitors of Check.v (prop_ok) are not opaque
   oracles.  For the worker pools and the WorkerGroup: if [prop_ok1] accepts an observed log,
   then after EVERY prefix of that log the number of user functions entered and not yet left
   (counted from the executor's own fs / fe events) is at most the configured capacity. *)
From Coq Require Import List ZArith Bool Arith Lia.
From GZ Require Import C05.Check.
Import ListNotations.
Open Scope Z_scope.

Definition wdelta (e : ev) : Z := if ek e =? 1 then 1 else if ek e =? 2 then -1 else 0.
Fixpoint inside_after (l : list ev) : Z := match l with [] => 0 | e :: l' => wdelta e + inside_after l' end.

Lemma wp_scan_sound : forall l n r st,
  wp_scan n l r st = true -> r <= n -> forall p q, l = p ++ q -> r + inside_after p <= n.
Proof.
  induction l as [|e l IH]; intros n r st H Hr p q E.
  - destruct p; [cbn; lia|discriminate].
  - destruct p as [|e' p]; [cbn; lia|]. cbn in E. inversion E; subst e' l. clear E.
    cbn [wp_scan] in H. cbn [inside_after]. unfold wdelta.
    destruct (ek e =? 1) eqn:E1.
    + apply andb_prop in H. destruct H as [H H3]. apply andb_prop in H. destruct H as [H1 H2].
      apply Z.ltb_lt in H1.
      specialize (IH n (r + 1) _ H3 ltac:(lia) p q eq_refl). lia.
    + destruct (ek e =? 2) eqn:E2.
      * specialize (IH n (r - 1) _ H ltac:(lia) p q eq_refl). lia.
      * specialize (IH n r _ H Hr p q eq_refl). lia.
Qed.

Lemma prop_ok_workers_sound : forall c,
  prop_ok1 c = true ->
  match ckind c with
  | KWP _ _ _ jn _ => forall p q, clog c = p ++ q -> inside_after p <= Z.of_nat jn
  | KWG n _ => forall p q, clog c = p ++ q -> inside_after p <= Z.of_nat n
  | _ => True
  end.
Proof.
  intros c H. unfold prop_ok1 in H. destruct (ckind c); try exact I.
  - apply andb_prop in H. destruct H as [H _]. intros p q E.
    pose proof (wp_scan_sound _ _ _ _ H ltac:(lia) p q E). lia.
  - apply andb_prop in H. destruct H as [H _]. intros p q E.
    pose proof (wp_scan_sound _ _ _ _ H ltac:(lia) p q E). lia.
Qed.

(* The monitor of Limit / TimeoutLimit / MaxConnsHandler: if [lim_scan] accepts an observed log,
   then after EVERY prefix of it the number of route handlers entered and not yet left (the
   executor's own fs / fe events, kinds 1 and 2) is at most the capacity - whatever the other
   events of the log say (results, hijacked connections, Close()s). *)
Lemma lim_scan_sound : forall l n sc h i inb opn,
  lim_scan n sc l h i inb opn = true -> i <= n ->
  forall p q, l = p ++ q -> i + inside_after p <= n.
Proof.
  induction l as [|e l IH]; intros n sc h i inb opn H Hi p q E.
  - destruct p; [cbn; lia|discriminate].
  - destruct p as [|e' p]; [cbn; lia|]. cbn in E. inversion E; subst e' l. clear E.
    cbn [lim_scan] in H. cbn [inside_after]. unfold wdelta.
    destruct (nth_op sc (ea e) (eop e)) as [o|]; [|discriminate].
    destruct (ek e =? 3) eqn:E3.
    { apply Z.eqb_eq in E3.
      replace (ek e =? 1) with false by (symmetry; apply Z.eqb_neq; lia).
      replace (ek e =? 2) with false by (symmetry; apply Z.eqb_neq; lia).
      destruct o;
        repeat match type of H with context [if ?b then _ else _] => destruct b end;
        apply andb_prop in H; destruct H as [_ H];
        specialize (IH _ _ _ _ _ _ H Hi p q eq_refl); lia. }
    destruct (ek e =? 1) eqn:E1.
    { apply andb_prop in H. destruct H as [H Hs].
      apply andb_prop in H. destruct H as [H _]. apply andb_prop in H. destruct H as [H _].
      apply andb_prop in H. destruct H as [_ H]. apply Z.ltb_lt in H.
      specialize (IH _ _ _ _ _ _ Hs ltac:(lia) p q eq_refl). lia. }
    destruct (ek e =? 2) eqn:E2.
    { apply andb_prop in H. destruct H as [_ Hs].
      specialize (IH _ _ _ _ _ _ Hs ltac:(lia) p q eq_refl). lia. }
    repeat match type of H with context [if ?b then _ else _] => destruct b end;
      apply andb_prop in H; destruct H as [_ H];
      specialize (IH _ _ _ _ _ _ H Hi p q eq_refl); lia.
Qed.

Lemma prop_ok_lim_sound : forall c n sc,
  ckind c = KLim n sc -> prop_ok1 c = true ->
  forall p q, clog c = p ++ q -> inside_after p <= Z.of_nat n.
Proof.
  intros c n sc K H p q E. unfold prop_ok1 in H. rewrite K in H.
  pose proof (lim_scan_sound _ _ _ _ _ _ _ H ltac:(lia) p q E). lia.
Qed.
