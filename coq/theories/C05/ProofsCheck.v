(* C05 — what an accepted log guarantees: the monitors of Check.v (prop_ok) are not opaque
   oracles.  For the worker pools and the WorkerGroup: if [prop_ok1] accepts an observed log,
   then after EVERY prefix of that log the number of user functions entered and not yet left
   (counted from the executor's own fs / fe events) is at most the configured capacity. *)
From Coq Require Import List ZArith Bool Arith Lia.
From GZ Require Import C05.Check.
Import ListNotations.
Open Scope Z_scope.

Definition wdelta (e : ev) : Z := if ek e =? 1 then 1 else if ek e =? 2 then -1 else 0.
Fixpoint inside_after (l : list ev) : Z := match l with [] => 0 | e :: l' => wdelta e + inside_after l' end.

Lemma wp_scan_sound : forall l n r st,
  wp_scan n l r st = true -> r <= n -> forall p q, l = p ++ q -> r + inside_after p <= n.
Proof.
  induction l as [|e l IH]; intros n r st H Hr p q E.
  - destruct p; [cbn; lia|discriminate].
  - destruct p as [|e' p]; [cbn; lia|]. cbn in E. inversion E; subst e' l. clear E.
    cbn [wp_scan] in H. cbn [inside_after]. unfold wdelta.
    destruct (ek e =? 1) eqn:E1.
    + apply andb_prop in H. destruct H as [H H3]. apply andb_prop in H. destruct H as [H1 H2].
      apply Z.ltb_lt in H1.
      specialize (IH n (r + 1) _ H3 ltac:(lia) p q eq_refl). lia.
    + destruct (ek e =? 2) eqn:E2.
      * specialize (IH n (r - 1) _ H ltac:(lia) p q eq_refl). lia.
      * specialize (IH n r _ H Hr p q eq_refl). lia.
Qed.

Lemma prop_ok_workers_sound : forall c,
  prop_ok1 c = true ->
  match ckind c with
  | KWP _ _ _ jn _ => forall p q, clog c = p ++ q -> inside_after p <= Z.of_nat jn
  | KWG n _ => forall p q, clog c = p ++ q -> inside_after p <= Z.of_nat n
  | _ => True
  end.
Proof.
  intros c H. unfold prop_ok1 in H. destruct (ckind c); try exact I.
  - apply andb_prop in H. destruct H as [H _]. intros p q E.
    pose proof (wp_scan_sound _ _ _ _ H ltac:(lia) p q E). lia.
  - apply andb_prop in H. destruct H as [H _]. intros p q E.
    pose proof (wp_scan_sound _ _ _ _ H ltac:(lia) p q E). lia.
Qed.
