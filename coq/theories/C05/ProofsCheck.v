(* C05 — what an accepted log guarantees: the monitors of Check.v (prop_ok) are not opaque
   oracles.  For the worker pools and the WorkerGroup: if [prop_ok1] accepts an observed log,
   then after EVERY prefix of that log the number of user functions entered and not yet left
   (counted from the executor's own fs / fe events) is at most the configured capacity. *)
From Coq Require Import List ZArith Bool Arith Lia.
From GZ Require Import C05.Check.
Import ListNotations.
Open Scope Z_scope.

Definition wdelta (e : ev) : Z := if ek e =? 1 then 1 else if ek e =? 2 then -1 else 0.
Fixpoint inside_after (l : list ev) : Z := match l with [] => 0 | e :: l' => wdelta e + inside_after l' end.

Lemma wp_scan_sound : forall l n r st,
  wp_scan n l r st = true -> r <= n -> forall p q, l = p ++ q -> r + inside_after p <= n.
Proof.
  induction l as [|e l IH]; intros n r st H Hr p q E.
  - destruct p; [cbn; lia|discriminate].
  - destruct p as [|e' p]; [cbn; lia|]. cbn in E. inversion E; subst e' l. clear E.
    cbn [wp_scan] in H. cbn [inside_after]. unfold wdelta.
    destruct (ek e =? 1) eqn:E1.
    + apply andb_prop in H. destruct H as [H H3]. apply andb_prop in H. destruct H as [H1 H2].
      apply Z.ltb_lt in H1.
      specialize (IH n (r + 1) _ H3 ltac:(lia) p q eq_refl). lia.
    + destruct (ek e =? 2) eqn:E2.
      * specialize (IH n (r - 1) _ H ltac:(lia) p q eq_refl). lia.
      * specialize (IH n r _ H Hr p q eq_refl). lia.
Qed.

Lemma prop_ok_workers_sound : forall c,
  prop_ok1 c = true ->
  match ckind c with
  | KWP _ _ _ jn _ => forall p q, clog c = p ++ q -> inside_after p <= Z.of_nat jn
  | KWG n _ => forall p q, clog c = p ++ q -> inside_after p <= Z.of_nat n
  | _ => True
  end.
Proof.
  intros c H. unfold prop_ok1 in H. destruct (ckind c); try exact I.
  - apply andb_prop in H. destruct H as [H _]. intros p q E.
    pose proof (wp_scan_sound _ _ _ _ H ltac:(lia) p q E). lia.
  - apply andb_prop in H. destruct H as [H _]. intros p q E.
    pose proof (wp_scan_sound _ _ _ _ H ltac:(lia) p q E). lia.
Qed.

(* The monitor of Limit / TimeoutLimit / MaxConnsHandler: if [lim_scan] accepts an observed log,
   then after EVERY prefix of it the number of route handlers entered and not yet left (the
   executor's own fs / fe events, kinds 1 and 2) is at most the capacity - whatever the other
   events of the log say (results, hijacked connections, Close()s). *)
Lemma lim_scan_sound : forall l n sc h i inb opn,
  lim_scan n sc l h i inb opn = true -> i <= n ->
  forall p q, l = p ++ q -> i + inside_after p <= n.
Proof.
  induction l as [|e l IH]; intros n sc h i inb opn H Hi p q E.
  - destruct p; [cbn; lia|discriminate].
  - destruct p as [|e' p]; [cbn; lia|]. cbn in E. inversion E; subst e' l. clear E.
    cbn [lim_scan] in H. cbn [inside_after]. unfold wdelta.
    destruct (nth_op sc (ea e) (eop e)) as [o|]; [|discriminate].
    destruct (ek e =? 3) eqn:E3.
    { apply Z.eqb_eq in E3.
      replace (ek e =? 1) with false by (symmetry; apply Z.eqb_neq; lia).
      replace (ek e =? 2) with false by (symmetry; apply Z.eqb_neq; lia).
      destruct o;
        repeat match type of H with context [if ?b then _ else _] => destruct b end;
        apply andb_prop in H; destruct H as [_ H];
        specialize (IH _ _ _ _ _ _ H Hi p q eq_refl); lia. }
    destruct (ek e =? 1) eqn:E1.
    { apply andb_prop in H. destruct H as [H Hs].
      apply andb_prop in H. destruct H as [H _]. apply andb_prop in H. destruct H as [H _].
      apply andb_prop in H. destruct H as [_ H]. apply Z.ltb_lt in H.
      specialize (IH _ _ _ _ _ _ Hs ltac:(lia) p q eq_refl). lia. }
    destruct (ek e =? 2) eqn:E2.
    { apply andb_prop in H. destruct H as [_ Hs].
      specialize (IH _ _ _ _ _ _ Hs ltac:(lia) p q eq_refl). lia. }
    repeat match type of H with context [if ?b then _ else _] => destruct b end;
      apply andb_prop in H; destruct H as [_ H];
      specialize (IH _ _ _ _ _ _ H Hi p q eq_refl); lia.
Qed.

Lemma prop_ok_lim_sound : forall c n sc,
  ckind c = KLim n sc -> prop_ok1 c = true ->
  forall p q, clog c = p ++ q -> inside_after p <= Z.of_nat n.
Proof.
  intros c n sc K H p q E. unfold prop_ok1 in H. rewrite K in H.
  pose proof (lim_scan_sound _ _ _ _ _ _ _ H ltac:(lia) p q E). lia.
Qed.

(* TaskRunner: an accepted log never has more than n tasks inside their body at any prefix. *)
Lemma tr_scan_step : forall n sc e l live running pending,
  tr_scan n sc (e :: l) live running pending = true ->
  exists lv pd, tr_scan n sc l lv (running + wdelta e) pd = true /\ (ek e = 1 -> running < n).
Proof.
  intros n sc e l live running pending H. cbn [tr_scan] in H. unfold wdelta.
  destruct (nth_op sc (ea e) (eop e)) as [[pn|pn|]|];
  (destruct (Z.eq_dec (ek e) 3) as [K|K3];
   [rewrite K in *; cbn [Z.eqb Pos.eqb] in * |
    destruct (Z.eq_dec (ek e) 0) as [K|K0];
    [rewrite K in *; cbn [Z.eqb Pos.eqb] in * |
     destruct (Z.eq_dec (ek e) 1) as [K|K1];
     [rewrite K in *; cbn [Z.eqb Pos.eqb] in * |
      destruct (Z.eq_dec (ek e) 2) as [K|K2];
      [rewrite K in *; cbn [Z.eqb Pos.eqb] in * |
       rewrite (proj2 (Z.eqb_neq _ _) K3), (proj2 (Z.eqb_neq _ _) K0),
               (proj2 (Z.eqb_neq _ _) K1), (proj2 (Z.eqb_neq _ _) K2) in *; try rewrite Z.eqb_refl in * ]]]]);
  repeat match type of H with context [if ?b then _ else _] => destruct b eqn:? end;
  apply andb_prop in H; destruct H as [H Hs];
  try (replace (running + 0) with running by lia);
  try (eexists; eexists; split; [exact Hs | intros; try lia]).
  all: try (apply andb_prop in H; destruct H as [H _]; apply Z.ltb_lt in H; lia).
Qed.

Lemma tr_scan_sound : forall l n sc live running pending,
  tr_scan n sc l live running pending = true -> running <= n ->
  forall p q, l = p ++ q -> running + inside_after p <= n.
Proof.
  induction l as [|e l IH]; intros n sc live running pending H Hr p q E.
  - destruct p; [cbn; lia|discriminate].
  - destruct p as [|e' p]; [cbn; lia|]. cbn in E. inversion E; subst e' l. clear E.
    destruct (tr_scan_step _ _ _ _ _ _ _ H) as [lv [pd [Hs H1]]].
    cbn [inside_after].
    assert (running + wdelta e <= n).
    { unfold wdelta. destruct (ek e =? 1) eqn:E1; [apply Z.eqb_eq in E1; specialize (H1 E1); lia|].
      destruct (ek e =? 2); lia. }
    specialize (IH _ _ _ _ _ Hs H0 p q eq_refl). lia.
Qed.

(* Pool: an accepted log never has more than n live resources (created and not destroyed, by the
   executor's own events in create() / destroy()) at any prefix. *)
Definition ldelta (e : ev) : Z := if ek e =? 5 then 1 else if ek e =? 6 then -1 else 0.
Fixpoint live_after (l : list ev) : Z := match l with [] => 0 | e :: l' => ldelta e + live_after l' end.

Lemma pl_scan_sound : forall l n ma sc m,
  pl_scan n ma sc l m = true -> mlive m <= n ->
  forall p q, l = p ++ q -> mlive m + live_after p <= n.
Proof.
  induction l as [|e l IH]; intros n ma sc m H Hm p q E.
  - destruct p; [cbn; lia|discriminate].
  - destruct p as [|e' p]; [cbn; lia|]. cbn in E. inversion E; subst e' l. clear E.
    cbn [pl_scan] in H. cbn [live_after]. unfold ldelta.
    destruct (ek e =? 5) eqn:E5.
    { apply andb_prop in H. destruct H as [H Hs]. apply andb_prop in H. destruct H as [_ Hl].
      apply Z.leb_le in Hl.
      specialize (IH _ _ _ _ Hs Hl p q eq_refl). unfold pm_set in *. cbn [mlive] in *. lia. }
    destruct (ek e =? 6) eqn:E6.
    { apply andb_prop in H. destruct H as [H Hs]. apply andb_prop in H. destruct H as [_ Hl].
      apply Z.leb_le in Hl.
      specialize (IH _ _ _ _ Hs Hl p q eq_refl). unfold pm_set in *. cbn [mlive] in *. lia. }
    (* every other event leaves mlive as it is *)
    match type of H with (let '(ok, m') := ?X in _) = true => destruct X as [ok m'] eqn:EX end.
    apply andb_prop in H. destruct H as [H Hs]. apply andb_prop in H. destruct H as [_ Hl].
    apply Z.leb_le in Hl.
    assert (Hsame : mlive m' = mlive m).
    { repeat match type of EX with
             | context [if ?b then _ else _] => destruct b
             | context [match ?x with _ => _ end] => destruct x
             end; inversion EX; subst; reflexivity. }
    specialize (IH _ _ _ _ Hs Hl p q eq_refl). lia.
Qed.

Lemma prop_ok_tr_pl_sound : forall c,
  prop_ok1 c = true ->
  match ckind c with
  | KTR n _ => forall p q, clog c = p ++ q -> inside_after p <= Z.of_nat n
  | KPL n _ _ => forall p q, clog c = p ++ q -> live_after p <= Z.of_nat n
  | _ => True
  end.
Proof.
  intros c H. unfold prop_ok1 in H. destruct (ckind c); try exact I.
  - intros p q E. pose proof (tr_scan_sound _ _ _ _ _ _ H ltac:(lia) p q E). lia.
  - intros p q E. pose proof (pl_scan_sound _ _ _ _ _ H ltac:(cbn; lia) p q E). cbn [mlive] in H0. lia.
Qed.
