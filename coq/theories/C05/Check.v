(* C05 — correspondence / property evaluation on histories observed on the implementation
   under forced schedules.  Executable only. *)
From Coq Require Import List ZArith Bool Arith.
From GZ Require Export Lib.CheckLib C05.Model.
Import ListNotations.

Record ostep := mkOStep
  { sa : nat;                 (* actor released (thread, or N + k for task k) *)
    sskip : bool;             (* it was not parked: nothing happened *)
    sorder : list nat;        (* all actors, those seen progressing first, in that order *)
    sstat : list (Z * Z) }.   (* status of every actor after quiescence: (code, call index);
                                 0 parked before a call, 3 parked inside a callback, 1 blocked, 2 done *)

Definition stat_eqb (a b : Z * Z) : bool :=
  (fst a =? fst b)%Z && ((fst a =? 2)%Z || (snd a =? snd b)%Z).

(* generic gate-level driver (same mapping as C07/Check.v) *)
Section Driver.
  Context {state : Type}.
  Variable step : state -> nat -> option state.
  Variable at_gate : state -> nat -> bool.
  Variable after : state -> nat -> state.      (* extra model actions implied by a release (timers) *)
  Variable statuses : state -> list (Z * Z).

  Definition fuel := 64%nat.

  Definition release (s : state) (t : nat) : option state :=
    if at_gate s t then
      match step s t with
      | Some s' => Some (after (run_thread step (fun s'' => at_gate s'' t) fuel s' t) t)
      | None => None
      end
    else None.

  Definition settle_pass (s : state) (order : list nat) : state :=
    fold_left (fun s t => run_thread step (fun s'' => at_gate s'' t) fuel s t) order s.

  Definition macro (s : state) (o : ostep) : state * bool :=
    match release s (sa o) with
    | Some s1 =>
      let s2 := settle_pass (settle_pass (settle_pass s1 (sorder o)) (sorder o)) (sorder o) in
      (s2, negb (sskip o) && list_eqb stat_eqb (statuses s2) (sstat o))
    | None => (s, sskip o && list_eqb stat_eqb (statuses s) (sstat o))
    end.

  Fixpoint drive (s : state) (l : list ostep) : state * bool :=
    match l with
    | [] => (s, true)
    | o :: l' =>
      let '(s1, ok) := macro s o in
      let '(s2, ok') := drive s1 l' in
      (s2, ok && ok')
    end.
End Driver.

(* ---- Lim ---- *)
Definition l_at_gate (s : lstate) (t : nat) : bool :=
  match nth_error (lthreads s) t with
  | Some th => match lpcof th with LIdle | LInBody => true | _ => false end
  | None => true
  end.

Definition l_status (s : lstate) (t : nat) : Z * Z :=
  match nth_error (lthreads s) t with
  | Some th =>
    match lcur th with
    | None => (2, 0)%Z
    | Some _ =>
      match lpcof th with
      | LIdle => (0%Z, Z.of_nat (lopi th))
      | LInBody => (3%Z, Z.of_nat (lopi th))
      | _ => (1%Z, Z.of_nat (lopi th))
      end
    end
  | None => (2, 0)%Z
  end.

Definition l_statuses (s : lstate) := map (l_status s) (seq 0 (length (lthreads s))).

(* a Borrow with a zero timeout that found the limit full: its timer fires at once *)
Definition l_after (s : lstate) (t : nat) : lstate :=
  match nth_error (lthreads s) t with
  | Some th =>
    match lpcof th, lcur th with
    | LTWait, Some (LTBorrow true) =>
      match lstep_timer s t with Some s' => s' | None => s end
    | _, _ => s
    end
  | None => s
  end.

(* ---- TR ---- *)
Definition r_at_gate (s : rstate) (x : nat) : bool :=
  let N := length (rthreads s) in
  if Nat.ltb x N then
    match nth_error (rthreads s) x with
    | Some th => match rpcof th with RIdle => true | _ => false end
    | None => true
    end
  else
    match nth_error (rtasks s) (x - N) with
    | Some tk => match tst tk with TSpawned | TReleased => false | _ => true end
    | None => true
    end.

Definition r_statuses (s : rstate) : list (Z * Z) :=
  map (fun th => match rcur th with
                 | None => (2, 0)%Z
                 | Some _ => match rpcof th with
                             | RIdle => (0%Z, Z.of_nat (ropi th))
                             | _ => (1%Z, Z.of_nat (ropi th))
                             end
                 end) (rthreads s) ++
  map (fun tk => match tst tk with
                 | TSpawned | TReleased => (1, 0)%Z
                 | TRunning => (3, 0)%Z
                 | TDone => (2, 0)%Z
                 end) (rtasks s).

(* ---- PL ---- *)
Definition p_at_gate (s : pstate) (t : nat) : bool :=
  match nth_error (pthreads s) t with
  | Some th => match ppcof th with PIdle | PCreating _ => true | _ => false end
  | None => true
  end.

Definition p_statuses (s : pstate) : list (Z * Z) :=
  map (fun th => match pcur th with
                 | None => (2, 0)%Z
                 | Some _ => match ppcof th with
                             | PIdle => (0%Z, Z.of_nat (popi th))
                             | PCreating _ => (3%Z, Z.of_nat (popi th))
                             | _ => (1%Z, Z.of_nat (popi th))
                             end
                 end) (pthreads s).

(* ---- WP (mr / fx worker pools): actor 0 = the caller of ForEach / Walk(...).Done() (model:
   the dispatcher it starts), actor k+1 = the worker of item k ---- *)
Definition w_at_gate (s : wstate) (x : nat) : bool :=
  match x with
  | O => match wd s with DInit => true | _ => false end
  | S k =>
    match nth_error (wtasks s) k with
    | Some tk => match wst tk with WRun | WDn => true | _ => false end
    | None => true
    end
  end.

(* the caller returns when the dispatcher is done; mr.ForEach (waitall = false) re-panics as
   soon as a mapper panicked, mr.MapReduce / MapReduceVoid / MapReduceChan / Finish (waitall =
   true) first wait for the reducer, i.e. for every started mapper *)
Definition w_cancelled (s : wstate) : bool :=
  existsb (fun tk => wcancels tk && match wst tk with WRel | WDn => true | _ => false end) (wtasks s).

Definition w_caller_done (waitall : bool) (s : wstate) : bool :=
  match wd s with
  | DDone => true
  | _ => match wvar s with WMr => (wfailed s && negb waitall) || w_cancelled s | WFx => false end
  end.

Definition w_statuses (waitall : bool) (s : wstate) : list (Z * Z) :=
  (match wd s with
   | DInit => (0, 0)%Z
   | _ => if w_caller_done waitall s then (2, 0)%Z else (1, 0)%Z
   end) ::
  map (fun tk => match wst tk with
                 | WRun => (3, 0)%Z
                 | WDn => (2, 0)%Z
                 | _ => (1, 0)%Z
                 end) (wtasks s).

(* result of the call: 1 = returned normally, 3 = re-panicked with the mapper's panic, 4 = the
   error given to cancel (the generator never mixes panicking and cancelling items in one
   run: which of the two the caller reports would depend on their order) *)
Definition w_results (waitall : bool) (s : wstate) : list (list Z) :=
  [if w_caller_done waitall s
   then [match wvar s with
         | WMr => if w_cancelled s then 4%Z else if wfailed s then 3%Z else 1%Z
         | WFx => 1%Z
         end]
   else []].

(* ---- WG (WorkerGroup): actor 0 = the caller of Start, actor k+1 = the k-th job invocation ---- *)
Definition g_at_gate (s : gstate) (x : nat) : bool :=
  match x with
  | O => match gd s with GInit => true | _ => false end
  | S k =>
    match nth_error (gtasks s) k with
    | Some tk => match wst tk with WRun | WDn => true | _ => false end
    | None => true
    end
  end.

Definition g_statuses (s : gstate) : list (Z * Z) :=
  (match gd s with GInit => (0, 0)%Z | GDone => (2, 0)%Z | _ => (1, 0)%Z end) ::
  map (fun tk => match wst tk with
                 | WRun => (3, 0)%Z
                 | WDn => (2, 0)%Z
                 | _ => (1, 0)%Z
                 end) (gtasks s).

Definition g_results (s : gstate) : list (list Z) :=
  [match gd s with GDone => [1%Z] | _ => [] end].

Definition g_panics (items : list bool) (k : nat) : bool := nth k items false.

(* ---- constructors with n <= 0 (outside the property's quantifier; pinned for the record):
   obj 0 NewLimit, 1 NewTimeoutLimit, 2 NewTaskRunner: make(chan, n) panics iff n < 0;
   3 NewPool: panics iff n <= 0.  Result 1 = constructed, 3 = panicked ---- *)
Definition ctor_expect (obj : nat) (n : Z) : Z :=
  match obj with
  | 3%nat => if (n <=? 0)%Z then 3%Z else 1%Z
  | _ => if (n <? 0)%Z then 3%Z else 1%Z
  end.

(* ---- cases ---- *)
Inductive kase :=
| KLim (n : nat) (scripts : list (list lop))
| KTR (n : nat) (scripts : list (list rop))
| KPL (n : nat) (maxage : Z) (scripts : list (list pop))
| KWP (v : wvariant) (waitall : bool) (n : nat) (jn : nat) (items : list wbeh)
    (* n: the pool size the options yield with today's constants (model); jn: the capacity the
       caller configured, against which the observed log is judged *)
| KWG (n : nat) (items : list bool)
| KCtor (obj : nat) (n : Z)
| KCond    (* the fixed syncx.Cond scenario (Wait blocks; one Signal wakes exactly one waiter; a Signal
              without a waiter is dropped): 31 = the five observations the Lim model's lsig relies on *)
| KErr.     (* the implementation hung / never became quiescent: nothing can be confirmed *)

(* events: kind 0 inv, 1 fs (body / task starts), 2 fe (ends), 3 ret (v1 = result),
   4 blk (seen blocked at a quiescent point), 5 create (v1 = id), 6 destroy (v1 = id),
   7 clock advanced by v1, 9 the handler of a request took its connection over (Hijack), 10 the
   connection hijacked by thread v1 was closed (once more) *)
Record ev := mkEv { et : Z; ea : nat; ek : Z; eop : nat; ev1 : Z }.

(* one instance of a primitive with the threads that use it.  A run with several instances
   at once is projected onto each instance: the steps of actors of another instance appear as
   stutter steps (sa = an actor that does not exist, sskip = true), so the model checks that
   nothing of THIS instance moved during them. *)
Record case1 := mkCase
  { ckind : kase;
    cforced : bool;
    csteps : list ostep;
    cres : list (list Z);      (* observed results per thread *)
    clog : list ev }.

Definition case := list case1.

Definition zss_eqb := list_eqb (list_eqb Z.eqb).

Definition agrees1 (c : case1) : bool :=
  if cforced c then
    match ckind c with
    | KLim n sc =>
      let '(s, ok) := drive lstep l_at_gate l_after l_statuses (linit n sc) (csteps c) in
      ok && zss_eqb (map lres (lthreads s)) (cres c)
    | KTR n sc =>
      let '(s, ok) := drive rstep r_at_gate (fun s _ => s) r_statuses (rinit n sc) (csteps c) in
      ok && zss_eqb (map rres (rthreads s)) (cres c)
    | KPL n ma sc =>
      let '(s, ok) := drive pstep p_at_gate (fun s _ => s) p_statuses (pinit n ma sc) (csteps c) in
      ok && zss_eqb (map pres (pthreads s)) (cres c)
    | KWP v wa n _ items =>
      let '(s, ok) := drive wstep w_at_gate (fun s _ => s) (w_statuses wa) (winit v n items) (csteps c) in
      ok && zss_eqb (w_results wa s) (cres c)
    | KWG n items =>
      let '(s, ok) := drive (gstep (g_panics items)) g_at_gate (fun s _ => s) g_statuses (ginit n) (csteps c) in
      ok && zss_eqb (g_results s) (cres c)
    | KCtor obj n => zss_eqb [[ctor_expect obj n]] (cres c)
    | KCond => zss_eqb [[31%Z]] (cres c)
    | KErr => false
    end
  else true.

Definition agrees (c : case) : bool := forallb agrees1 c.

Definition model_obs1 (c : case1) : list (Z * Z) * list (list Z) :=
  match ckind c with
  | KLim n sc =>
    let '(s, ok) := drive lstep l_at_gate l_after l_statuses (linit n sc) (csteps c) in
    (l_statuses s, map lres (lthreads s))
  | KTR n sc =>
    let '(s, ok) := drive rstep r_at_gate (fun s _ => s) r_statuses (rinit n sc) (csteps c) in
    (r_statuses s, map rres (rthreads s))
  | KPL n ma sc =>
    let '(s, ok) := drive pstep p_at_gate (fun s _ => s) p_statuses (pinit n ma sc) (csteps c) in
    (p_statuses s, map pres (pthreads s))
  | KWP v wa n _ items =>
    let '(s, ok) := drive wstep w_at_gate (fun s _ => s) (w_statuses wa) (winit v n items) (csteps c) in
    (w_statuses wa s, w_results wa s)
  | KWG n items =>
    let '(s, ok) := drive (gstep (g_panics items)) g_at_gate (fun s _ => s) g_statuses (ginit n) (csteps c) in
    (g_statuses s, g_results s)
  | KCtor obj n => ([], [[ctor_expect obj n]])
  | KCond => ([], [[31%Z]])
  | KErr => ([], [])
  end.

Definition model_obs (c : case) := map model_obs1 c.

(* ------------------------------------------------------------------ *)
(* prop_ok: C05 evaluated directly on the observed event log.          *)

Definition nth_op {A} (sc : list (list A)) (a i : nat) : option A :=
  match nth_error sc a with Some l => nth_error l i | None => None end.

(* Lim: holders = successful acquisitions - successful releases as observed.
   MaxConns: a holder is a request inside the route handler (the executor's own fs event up to the
   return of the request).  The cap is judged strictly on those.  A handler may take its connection
   over (http.Hijacker, event 9) and leave it open after it has returned; the connection is closed by
   event 10 (v1 = the thread that hijacked it), any number of times.  Whether such a lingering
   connection still occupies a slot is not fixed by the property text (the code under check gives the
   slot back at the handler's return; the model in Model.v says so and [agrees] compares that): the
   REFUSAL judgement is therefore generous - a 503 is justified when the holders plus the lingering
   hijacked connections reach the cap - while no handler is ever let in beyond the cap. *)
Definition nmem (x : nat) (l : list nat) : bool := existsb (Nat.eqb x) l.
Fixpoint nremove1 (x : nat) (l : list nat) : list nat :=
  match l with
  | [] => []
  | y :: l' => if Nat.eqb x y then l' else y :: nremove1 x l'
  end.
Definition lingering (inb opn : list nat) : Z :=
  Z.of_nat (length (filter (fun t => negb (nmem t inb)) opn)).

Fixpoint lim_scan (n : Z) (sc : list (list lop)) (l : list ev) (holders inside : Z) (inb opn : list nat) : bool :=
  match l with
  | [] => true
  | e :: l' =>
    let k := ek e in
    let r := ev1 e in
    match nth_op sc (ea e) (eop e) with
    | None => false
    | Some o =>
      let '(ok, h', i', inb', opn') :=
        if (k =? 3)%Z then
          match o with
          | LBorrow => ((r =? 1) && (holders <? n), holders + 1, inside, inb, opn)%Z
          | LTry => if (r =? 1)%Z then ((holders <? n)%Z, (holders + 1)%Z, inside, inb, opn)
                    else ((holders =? n)%Z, holders, inside, inb, opn)
          | LReturn | LTReturn =>
            if (r =? 1)%Z then ((0 <? holders)%Z, (holders - 1)%Z, inside, inb, opn)
            else ((holders =? 0)%Z, holders, inside, inb, opn)
          | LTBorrow _ => if (r =? 1)%Z then ((holders <? n)%Z, (holders + 1)%Z, inside, inb, opn)
                          else ((r =? 2)%Z, holders, inside, inb, opn)
          | LReq _ => if (r =? 0)%Z then ((n <=? holders + lingering inb opn)%Z, holders, inside, inb, opn)
                      else (true, (holders - 1)%Z, inside, nremove1 (ea e) inb, opn)
          | LCancel _ => (true, holders, inside, inb, opn)   (* holders are counted from the handler bodies *)
          end
        else if (k =? 1)%Z then ((holders <? n)%Z && (inside <? n)%Z, (holders + 1)%Z, (inside + 1)%Z, ea e :: inb, opn)
        else if (k =? 2)%Z then (true, holders, (inside - 1)%Z, inb, opn)
        else if (k =? 4)%Z then ((holders =? n)%Z, holders, inside, inb, opn)
        else if (k =? 9)%Z then (true, holders, inside, inb, ea e :: opn)
        else if (k =? 10)%Z then (true, holders, inside, inb, nremove1 (Z.to_nat r) opn)
        else (true, holders, inside, inb, opn) in
      ok && (h' <=? n)%Z && (0 <=? h')%Z && lim_scan n sc l' h' i' inb' opn'
    end
  end.

(* TR: live = accepted tasks that have not ended; running = tasks inside their body;
   pending = Schedule calls invoked and not yet returned (they have done waitGroup.Add(1)).
   Wait returns only when nothing is live or pending, and is seen blocked only otherwise. *)
Fixpoint tr_scan (n : Z) (sc : list (list rop)) (l : list ev) (live running pending : Z) : bool :=
  match l with
  | [] => true
  | e :: l' =>
    let k := ek e in
    let r := ev1 e in
    let o := nth_op sc (ea e) (eop e) in
    let iswait := match o with Some RWait => true | _ => false end in
    let issched := match o with Some (RSched _) => true | _ => false end in
    let '(ok, lv, rn, pd) :=
      if (k =? 3)%Z then
        if iswait then ((live =? 0)%Z && (pending =? 0)%Z, live, running, pending)
        else if (r =? 1)%Z then ((live <? n)%Z, (live + 1)%Z, running, if issched then (pending - 1)%Z else pending)
        else ((live =? n)%Z, live, running, pending)
      else if (k =? 0)%Z then (true, live, running, if issched then (pending + 1)%Z else pending)
      else if (k =? 1)%Z then ((running <? n)%Z, live, (running + 1)%Z, pending)
      else if (k =? 2)%Z then (true, (live - 1)%Z, (running - 1)%Z, pending)
      else if (k =? 4)%Z then
        (if iswait then (0 <? live)%Z || (0 <? pending)%Z else (live =? n)%Z, live, running, pending)
      else (true, live, running, pending) in
    ok && (lv <=? n)%Z && tr_scan n sc l' lv rn pd
  end.

(* PL *)
Record pmon := mkPM
  { mheld : list (Z * nat);       (* resource, holder *)
    midle : list (Z * Z);         (* resource, time of Put *)
    mfresh : list Z;              (* created, not yet handed out *)
    mdead : list Z;               (* destroyed *)
    mseen : list Z;               (* every id ever created *)
    mlive : Z; mclock : Z;
    mput : list Z }.              (* given up by its user (Put invoked), Put not yet seen returning *)

Definition zmem (x : Z) (l : list Z) : bool := existsb (Z.eqb x) l.
Definition zremove (x : Z) (l : list Z) : list Z := filter (fun y => negb (Z.eqb x y)) l.

Definition pm_set (m : pmon) held idle fresh dead seen live put : pmon :=
  mkPM held idle fresh dead seen live (mclock m) put.

(* A user gives a resource up when it INVOKES Put (the harness clears its in-use flag before
   the call): from then on the pool may hand it to somebody else, even before the Put is seen
   returning (the two "ret" events are logged by two goroutines after the pool lock has been
   released, in either order). *)
Fixpoint pl_scan (n maxage : Z) (sc : list (list pop)) (l : list ev) (m : pmon) : bool :=
  match l with
  | [] => true
  | e :: l' =>
    let k := ek e in
    let x := ev1 e in
    let exp (put : Z) := (0 <? maxage)%Z && (put + maxage <? mclock m)%Z in
    let '(ok, m') :=
      if (k =? 5)%Z then
        (negb (zmem x (mseen m)) && (mlive m <? n)%Z,
         pm_set m (mheld m) (midle m) (x :: mfresh m) (mdead m) (x :: mseen m) (mlive m + 1)%Z (mput m))
      else if (k =? 6)%Z then
        (match find (fun p => Z.eqb (fst p) x) (midle m) with
         | Some p => exp (snd p)
         | None => false
         end,
         pm_set m (mheld m) (filter (fun p => negb (Z.eqb (fst p) x)) (midle m)) (mfresh m) (x :: mdead m)
                (mseen m) (mlive m - 1)%Z (mput m))
      else if (k =? 7)%Z then
        (true, mkPM (mheld m) (midle m) (mfresh m) (mdead m) (mseen m) (mlive m) (mclock m + x)%Z (mput m))
      else if (k =? 4)%Z then
        (* blocked: behind a create() in progress (the pool lock is held across it), or a Get
           at the limit with nothing idle *)
        (match mfresh m with
         | _ :: _ => true
         | [] => match nth_op sc (ea e) (eop e) with
                 | Some PGet | Some PGetX =>
                   (mlive m =? n)%Z && match midle m, mput m with [], [] => true | _, _ => false end
                 | _ => false
                 end
         end, m)
      else if (k =? 0)%Z then
        match nth_op sc (ea e) (eop e) with
        | Some PPut =>
          match find (fun p => Nat.eqb (snd p) (ea e)) (mheld m) with
          | Some p =>
            (true, pm_set m (filter (fun q => negb (Z.eqb (fst q) (fst p))) (mheld m)) (midle m) (mfresh m) (mdead m)
                          (mseen m) (mlive m) (fst p :: mput m))
          | None => (true, m)
          end
        | _ => (true, m)
        end
      else if (k =? 3)%Z then
        match nth_op sc (ea e) (eop e) with
        | Some PGet | Some PGetX =>
          (* a Get whose create() panicked (result -2, PGetX only): no resource came into being and
             nothing may have been counted - judged by the Gets that follow (blocked only at the limit) *)
          if (x =? -2)%Z then (match nth_op sc (ea e) (eop e) with Some PGetX => true | _ => false end, m) else

          let notheld := negb (existsb (fun p => Z.eqb (fst p) x) (mheld m)) && negb (zmem x (mdead m)) in
          let src :=
            match find (fun p => Z.eqb (fst p) x) (midle m) with
            | Some p => negb (exp (snd p))
            | None => zmem x (mfresh m) || zmem x (mput m)
            end in
          (notheld && src,
           pm_set m ((x, ea e) :: mheld m) (filter (fun p => negb (Z.eqb (fst p) x)) (midle m))
                  (zremove x (mfresh m)) (mdead m) (mseen m) (mlive m) (zremove x (mput m)))
        | Some PPut =>
          if (x <? 0)%Z then (true, m)
          else if zmem x (mput m) then
            (true, pm_set m (mheld m) ((x, mclock m) :: midle m) (mfresh m) (mdead m) (mseen m) (mlive m)
                          (zremove x (mput m)))
          else
            (* already handed on to the next user: it must be held by somebody else by now *)
            (existsb (fun p => Z.eqb (fst p) x && negb (Nat.eqb (snd p) (ea e))) (mheld m), m)
        | _ => (true, m)
        end
      else (true, m) in
    ok && (mlive m' <=? n)%Z && pl_scan n maxage sc l' m'
  end.

(* WP: workers inside the user function never exceed n; no item runs twice *)
Fixpoint wp_scan (n : Z) (l : list ev) (running : Z) (started : list nat) : bool :=
  match l with
  | [] => true
  | e :: l' =>
    if (ek e =? 1)%Z then
      (running <? n)%Z && negb (existsb (Nat.eqb (ea e)) started) && wp_scan n l' (running + 1)%Z (ea e :: started)
    else if (ek e =? 2)%Z then wp_scan n l' (running - 1)%Z started
    else wp_scan n l' running started
  end.

(* ... and no capacity is lost: every item is eventually run (fx always; mr unless a mapper
   panicked, which stops the dispatching) once the run has been drained *)
Definition wp_complete (v : wvariant) (items : list wbeh) (l : list ev) : bool :=
  let ended := length (filter (fun e => (ek e =? 2)%Z) l) in
  match v with
  | WFx => Nat.eqb ended (length items)
  | WMr => if existsb (fun b => match b with BRet => false | _ => true end) items then true
           else Nat.eqb ended (length items)
  end.

(* WG: exactly n job invocations once the run has been drained *)
Definition wg_complete (n : nat) (l : list ev) : bool :=
  Nat.eqb (length (filter (fun e => (ek e =? 2)%Z) l)) n &&
  Nat.eqb (length (filter (fun e => (ek e =? 1)%Z) l)) n.

Definition prop_ok1 (c : case1) : bool :=
  match ckind c with
  | KLim n sc => lim_scan (Z.of_nat n) sc (clog c) 0 0 [] []
  | KTR n sc => tr_scan (Z.of_nat n) sc (clog c) 0 0 0
  | KPL n ma sc => pl_scan (Z.of_nat n) ma sc (clog c) (mkPM [] [] [] [] [] 0 1000000 [])
  | KWP v wa _ jn items => wp_scan (Z.of_nat jn) (clog c) 0 [] && wp_complete v items (clog c)
  | KWG n items => wp_scan (Z.of_nat n) (clog c) 0 [] && wg_complete n (clog c)
  | KCtor _ _ => true
  | KCond => true
  | KErr => false
  end.

Definition prop_ok (c : case) : bool := forallb prop_ok1 c.
