(* C05 — invariants of the three LTS of Model.v and the lemmas quoted by Props.v. *)
From Coq Require Import List ZArith Bool Arith Lia.
From GZ Require Import Lib.Sched Lib.SchedProofs C05.Model.
Import ListNotations.

Lemma sumf_le_in {A} (f g : A -> nat) l : (forall x, In x l -> f x <= g x) -> sumf f l <= sumf g l.
Proof.
  induction l as [|z l IH]; cbn; intros H; [lia|].
  pose proof (H z (or_introl eq_refl)). assert (sumf f l <= sumf g l) by (apply IH; intros; apply H; right; auto). lia.
Qed.

Lemma Forall_nth {A} (P : A -> Prop) l n x : Forall P l -> nth_error l n = Some x -> P x.
Proof. intros H Hn. rewrite Forall_forall in H. apply H. eapply nth_error_In; eauto. Qed.

(* ================================================================== *)
(* Lim                                                                  *)

Definition body_holds (th : lthread) : Prop := lpcof th = LInBody -> 1 <= lheld th.

Record LInv (n : nat) (s : lstate) : Prop := mkLInv
  { li_cap : lcap s = n;
    li_le : lc s <= n;
    li_bal : lc s + lrel s = lacq s;
    li_hold : lrogue s = false -> lholders s = lc s;
    li_body : Forall body_holds (lthreads s) }.

Lemma linit_inv n scripts : LInv n (linit n scripts).
Proof.
  constructor; cbn; auto; try lia.
  - intros _. unfold lholders. cbn. rewrite sumf_map. apply sumf_zero. auto.
  - apply Forall_forall. intros th Hin. apply in_map_iff in Hin. destruct Hin as (sc & <- & _).
    intros E. discriminate.
Qed.

Lemma lholders_upd s t th th' :
  nth_error (lthreads s) t = Some th ->
  sumf lheld (upd_nth (lthreads s) t th') + lheld th = lholders s + lheld th'.
Proof. intros H. unfold lholders. apply sumf_upd_nth. exact H. Qed.

(* the three kinds of state change *)
Lemma lkeep_inv n s t th th' :
  LInv n s -> nth_error (lthreads s) t = Some th -> lheld th' = lheld th -> body_holds th' ->
  LInv n (lkeep s t th').
Proof.
  intros [A B C D E] Ht Hh Hb. constructor; cbn; auto.
  - intros R. pose proof (lholders_upd s t th th' Ht). unfold lholders in *. cbn. specialize (D R). lia.
  - apply Forall_upd_nth; auto.
Qed.

Lemma lacquire_inv n s t th th' :
  LInv n s -> nth_error (lthreads s) t = Some th -> lc s < lcap s -> lheld th' = S (lheld th) ->
  LInv n (lacquire s t th').
Proof.
  intros [A B C D E] Ht Hf Hh. constructor; cbn; auto; try lia.
  - intros R. pose proof (lholders_upd s t th th' Ht). unfold lholders in *. cbn. specialize (D R). lia.
  - apply Forall_upd_nth; auto. intros _. lia.
Qed.

Lemma lrelease_inv n s t th k :
  LInv n s -> nth_error (lthreads s) t = Some th -> 0 < lc s ->
  (forall h, lheld (k h) = h) -> (forall h, lpcof (k h) <> LInBody) ->
  LInv n (lrelease s t th k).
Proof.
  intros [A B C D E] Ht Hc Hh Hb. constructor; cbn; auto; try lia.
  - intros R. apply orb_false_iff in R. destruct R as [R1 R2]. apply Nat.eqb_neq in R2.
    pose proof (lholders_upd s t th (k (pred (lheld th))) Ht) as U. rewrite Hh in U.
    unfold lholders in *. cbn. specialize (D R1). lia.
  - apply Forall_upd_nth; auto. intros X. exfalso. eapply Hb; eauto.
Qed.

Lemma lset_sig_inv n s t th th' sig :
  LInv n s -> nth_error (lthreads s) t = Some th -> lheld th' = lheld th -> body_holds th' ->
  LInv n (lset s (lc s) sig (lacq s) (lrel s) (lrogue s) t th').
Proof.
  intros [A B C D E] Ht Hh Hb. constructor; cbn; auto.
  - intros R. pose proof (lholders_upd s t th th' Ht). unfold lholders in *. cbn. specialize (D R). lia.
  - apply Forall_upd_nth; auto.
Qed.

Lemma lstep_inv n s x s' : LInv n s -> lstep s x = Some s' -> LInv n s'.
Proof.
  intros HI H. unfold lstep in H.
  destruct (Nat.ltb x (length (lthreads s))).
  - destruct (nth_error (lthreads s) x) as [th|] eqn:Ht; [|discriminate].
    destruct (lcur th) as [o|]; [|discriminate].
    unfold lstep_thread in H. cbv zeta in H.
    destruct (lpcof th) eqn:Epc; [destruct o| | | | |];
      repeat match type of H with
             | context [if Nat.ltb ?a ?b then _ else _] => destruct (Nat.ltb_spec a b)
             end;
      inversion H; subst s'; clear H;
      first [ eapply (lacquire_inv n s x th); eauto; try (intros; reflexivity); try (intros; cbn; discriminate); try (intros X; cbn in X; discriminate); fail
            | eapply (lrelease_inv n s x th); eauto; try (intros; reflexivity); try (intros; cbn; discriminate); try (intros X; cbn in X; discriminate); fail
            | eapply (lkeep_inv n s x th); eauto; try (intros; reflexivity); try (intros; cbn; discriminate); try (intros X; cbn in X; discriminate); fail
            | eapply (lset_sig_inv n s x th); eauto; try (intros; reflexivity); try (intros; cbn; discriminate); try (intros X; cbn in X; discriminate); fail ].
  - unfold lstep_timer in H.
    destruct (nth_error (lthreads s) (x - length (lthreads s))) as [th|] eqn:Ht; [|discriminate].
    destruct (lpcof th) eqn:Epc; try discriminate. destruct (lcur th); [|discriminate].
    inversion H; subst s'. eapply (lkeep_inv n s _ th); eauto; try (intros; reflexivity); try (intros; cbn; discriminate); try (intros X; cbn in X; discriminate).
Qed.

Lemma lexec_inv n scripts sched : LInv n (lexec n scripts sched).
Proof. unfold lexec. apply run_inv; [intros; eapply lstep_inv; eauto | apply linit_inv]. Qed.

Lemma linbody_le_holders s : Forall body_holds (lthreads s) -> linbody s <= lholders s.
Proof.
  intros H. unfold linbody, lholders. apply sumf_le_in. intros th Hin.
  rewrite Forall_forall in H. specialize (H th Hin). unfold body_holds in H.
  destruct (lpcof th); try lia. apply H. reflexivity.
Qed.

Lemma lim_cap_l : forall n scripts sched,
  let s := lexec n scripts sched in
  lc s <= n /\ lrel s <= lacq s /\ lc s = lacq s - lrel s /\
  (lrogue s = false -> lholders s = lc s /\ lholders s <= n /\ linbody s <= n).
Proof.
  intros n scripts sched s. destruct (lexec_inv n scripts sched) as [A B C D E]. fold s in A, B, C, D, E.
  split; [lia|]. split; [lia|]. split; [lia|]. intros R.
  pose proof (linbody_le_holders s E) as Hb. rewrite (D R) in *. repeat split; lia.
Qed.

Lemma lim_no_leak_l : forall n scripts sched,
  let s := lexec n scripts sched in
  lrogue s = false -> (forall th, In th (lthreads s) -> lheld th = 0) -> lc s = 0.
Proof.
  intros n scripts sched s R H. destruct (lexec_inv n scripts sched) as [A B C D E]. fold s in D.
  rewrite <- (D R). unfold lholders. apply sumf_zero. exact H.
Qed.

(* step-level facts at the boundaries (any state, reachable or not) *)
Lemma lim_over_return_l : forall s t th,
  nth_error (lthreads s) t = Some th -> t < length (lthreads s) -> lpcof th = LIdle ->
  (lcur th = Some LReturn \/ lcur th = Some LTReturn) -> lc s = 0 ->
  lstep s t = Some (lkeep s t (ldone th (lheld th) 0)).
Proof.
  intros s t th Ht Hlt Epc Ho Hc. unfold lstep.
  destruct (Nat.ltb_spec t (length (lthreads s))); [|lia]. rewrite Ht.
  destruct Ho as [Ho|Ho]; rewrite Ho; unfold lstep_thread; rewrite Epc, Hc; reflexivity.
Qed.

Lemma lim_refused_l : forall s t th o,
  nth_error (lthreads s) t = Some th -> t < length (lthreads s) -> lcur th = Some o -> lc s = lcap s ->
  match lpcof th, o with
  | LIdle, LTry => lstep s t = Some (lkeep s t (ldone th (lheld th) 0))
  | LIdle, LReq _ => lstep s t = Some (lkeep s t (ldone th (lheld th) 0))
  | LIdle, LTBorrow _ => lstep s t = Some (lkeep s t (lgo th LTWait (lheld th)))
  | LTWoken, _ => lstep s t = Some (lkeep s t (lgo th LTWait (lheld th)))
  | LBorrowing, _ => lstep s t = None
  | _, _ => True
  end.
Proof.
  intros s t th o Ht Hlt Ho Hc. unfold lstep.
  destruct (Nat.ltb_spec t (length (lthreads s))); [|lia]. rewrite Ht, Ho. unfold lstep_thread.
  rewrite Hc, Nat.ltb_irrefl. destruct (lpcof th); try exact I; destruct o; try exact I; reflexivity.
Qed.

(* ================================================================== *)
(* TR                                                                   *)

Definition sched_ind (th : rthread) : nat := match rpcof th with RScheduling => 1 | _ => 0 end.

Record RInv (n : nat) (s : rstate) : Prop := mkRInv
  { ri_cap : rcap s = n;
    ri_live : rc s = rlive s;
    ri_le : rc s <= n;
    ri_wg : rwg s = rc s + sumf sched_ind (rthreads s) + rreleased s }.

Lemma rinit_inv n scripts : RInv n (rinit n scripts).
Proof.
  constructor; cbn; auto; try lia. rewrite sumf_map. unfold rreleased. cbn.
  rewrite sumf_zero; [reflexivity|]. auto.
Qed.

Lemma rstep_inv n s x s' : RInv n s -> rstep s x = Some s' -> RInv n s'.
Proof.
  intros [A B C D] H. unfold rstep in H. unfold rlive, rreleased in *.
  destruct (Nat.ltb x (length (rthreads s))).
  - destruct (nth_error (rthreads s) x) as [th|] eqn:Ht; [|discriminate].
    destruct (rcur th) as [o|]; [|discriminate].
    pose proof (sumf_upd_nth sched_ind (rthreads s) x) as U.
    destruct (rpcof th) eqn:Epc; [destruct o| |];
      repeat match type of H with
             | context [if Nat.ltb ?a ?b then _ else _] => destruct (Nat.ltb_spec a b)
             | context [if Nat.eqb ?a ?b then _ else _] => destruct (Nat.eqb_spec a b)
             end;
      inversion H; subst s'; clear H;
      match goal with |- context [upd_nth (rthreads s) x ?t'] => specialize (U t' th Ht) end;
      assert (E1 : sched_ind th = match rpcof th with RScheduling => 1 | _ => 0 end) by reflexivity;
      rewrite Epc in E1; rewrite E1 in U; cbn [sched_ind rpcof rdone] in U;
      constructor; unfold rlive, rreleased; cbn [rcap rc rwg rtasks rthreads]; rewrite ?sumf_app;
      cbn [sumf is_live is_released tst]; try lia.
  - destruct (nth_error (rtasks s) (x - length (rthreads s))) as [tk|] eqn:Hk; [|discriminate].
    pose proof (sumf_upd_nth is_live (rtasks s) (x - length (rthreads s))) as U.
    pose proof (sumf_upd_nth is_released (rtasks s) (x - length (rthreads s))) as V.
    destruct (tst tk) eqn:Et; inversion H; subst s'; clear H;
      match goal with |- context [upd_nth (rtasks s) _ ?t'] => specialize (U t' tk Hk); specialize (V t' tk Hk) end;
      assert (E1 : is_live tk = match tst tk with TSpawned | TRunning => 1 | _ => 0 end) by reflexivity;
      assert (E2 : is_released tk = match tst tk with TReleased => 1 | _ => 0 end) by reflexivity;
      rewrite Et in E1, E2; rewrite E1 in U; rewrite E2 in V; cbn [is_live is_released tst] in U, V;
      constructor; unfold rlive, rreleased; cbn [rcap rc rwg rtasks rthreads]; try lia.
Qed.

Lemma rexec_inv n scripts sched : RInv n (rexec n scripts sched).
Proof. unfold rexec. apply run_inv; [intros; eapply rstep_inv; eauto | apply rinit_inv]. Qed.

Lemma tr_cap_l : forall n scripts sched,
  let s := rexec n scripts sched in
  rrunning s <= rlive s /\ rlive s = rc s /\ rc s <= n.
Proof.
  intros n scripts sched s. destruct (rexec_inv n scripts sched) as [A B C D]. fold s in A, B, C, D.
  split; [|split; [auto|exact C]]. unfold rrunning, rlive. apply sumf_le.
  intros tk. unfold is_running, is_live. destruct (tst tk); lia.
Qed.

Lemma tr_no_leak_l : forall n scripts sched,
  let s := rexec n scripts sched in
  (forall tk, In tk (rtasks s) -> tst tk = TDone) ->
  (forall th, In th (rthreads s) -> rpcof th = RIdle) ->
  rc s = 0 /\ rwg s = 0.
Proof.
  intros n scripts sched s Ht Hth. destruct (rexec_inv n scripts sched) as [A B C D]. fold s in A, B, C, D.
  assert (L : rlive s = 0).
  { unfold rlive. apply sumf_zero. intros tk Hin. unfold is_live. rewrite (Ht tk Hin). reflexivity. }
  assert (S0 : sumf sched_ind (rthreads s) = 0).
  { apply sumf_zero. intros th Hin. unfold sched_ind. rewrite (Hth th Hin). reflexivity. }
  assert (R0 : rreleased s = 0).
  { unfold rreleased. apply sumf_zero. intros tk Hin. unfold is_released. rewrite (Ht tk Hin). reflexivity. }
  lia.
Qed.

Lemma tr_refused_l : forall s t th o,
  nth_error (rthreads s) t = Some th -> t < length (rthreads s) -> rcur th = Some o -> rc s = rcap s ->
  match rpcof th, o with
  | RIdle, RSchedNow _ =>
    rstep s t = Some (mkRS (rcap s) (rc s) (rwg s) (rtasks s) (upd_nth (rthreads s) t (rdone th 0)))
  | RScheduling, _ => rstep s t = None
  | _, _ => True
  end.
Proof.
  intros s t th o Ht Hlt Ho Hc. unfold rstep.
  destruct (Nat.ltb_spec t (length (rthreads s))); [|lia]. rewrite Ht, Ho, Hc, Nat.ltb_irrefl.
  destruct (rpcof th); destruct o; try exact I; reflexivity.
Qed.

(* ================================================================== *)
(* PL                                                                   *)

Definition held_len (th : pthread) : nat := length (pheld th).
Definition cr_ind (th : pthread) : nat := match ppcof th with PCreating _ => 1 | _ => 0 end.

Record PInv (n : nat) (s : pstate) : Prop := mkPInv
  { pi_cap : plimit s = n;
    pi_cnt : pcreated s = length (pidle s) + sumf held_len (pthreads s);
    pi_le : pcreated s <= n;
    pi_lock : sumf cr_ind (pthreads s) = if plocked s then 1 else 0 }.

Lemma pinit_inv n ma scripts : PInv n (pinit n ma scripts).
Proof.
  constructor; cbn; auto; try lia; rewrite sumf_map; [symmetry|]; apply sumf_zero; auto.
Qed.

Lemma pdrain_len ma now idle : forall cr de got idle' cr' de',
  pdrain ma now idle cr de = (got, idle', cr', de') -> length idle <= cr ->
  cr' + length idle = cr + length idle' + match got with Some _ => 1 | None => 0 end /\
  cr' <= cr /\ (got = None -> idle' = []).
Proof.
  induction idle as [|[x last] rest IH]; intros cr de got idle' cr' de' H Hle; cbn in H.
  - inversion H; subst. cbn. repeat split; auto; lia.
  - destruct (expired ma now last).
    + cbn in Hle. destruct (IH _ _ _ _ _ _ H ltac:(lia)) as (A & B & C). cbn. repeat split; auto; lia.
    + inversion H; subst. cbn. repeat split; auto; try lia. discriminate.
Qed.


Lemma held_len_mk a b c h r : held_len (mkPT a b c h r) = length h.
Proof. reflexivity. Qed.
Lemma cr_ind_mk a b c h r : cr_ind (mkPT a b c h r) = match a with PCreating _ => 1 | _ => 0 end.
Proof. reflexivity. Qed.

(* a step that touches neither the counters nor the idle list *)
Lemma pinv_same n s s' t th th' :
  PInv n s -> nth_error (pthreads s) t = Some th ->
  plimit s' = plimit s -> pcreated s' = pcreated s -> pidle s' = pidle s ->
  pthreads s' = upd_nth (pthreads s) t th' -> length (pheld th') = length (pheld th) ->
  cr_ind th' + (if plocked s then 1 else 0) = cr_ind th + (if plocked s' then 1 else 0) ->
  PInv n s'.
Proof.
  intros [A B C D] Ht E1 E2 E3 E4 Hl Hc.
  pose proof (sumf_upd_nth held_len (pthreads s) t th' th Ht) as U.
  pose proof (sumf_upd_nth cr_ind (pthreads s) t th' th Ht) as V.
  change (held_len th) with (length (pheld th)) in U. change (held_len th') with (length (pheld th')) in U.
  constructor; rewrite ?E1, ?E2, ?E3, ?E4; auto; lia.
Qed.

Lemma pget_inv n s t th sig cp :
  PInv n s -> nth_error (pthreads s) t = Some th -> plocked s = false -> cr_ind th = 0 ->
  PInv n (pget s t th sig cp).
Proof.
  intros [A B C L] Ht Hlk Hcr. rewrite Hlk in L. unfold pget.
  destruct (pdrain (pmaxage s) (pclock s) (pidle s) (pcreated s) (pdestroyed s)) as [[[got idle'] cr'] de'] eqn:E.
  destruct (pdrain_len _ _ _ _ _ _ _ _ _ E ltac:(lia)) as (L1 & L2 & L3).
  pose proof (sumf_upd_nth held_len (pthreads s) t) as U.
  pose proof (sumf_upd_nth cr_ind (pthreads s) t) as V.
  destruct got as [x|]; [|specialize (L3 eq_refl); subst idle'; cbn [length] in L1; destruct (Nat.ltb_spec cr' (plimit s)); [destruct cp|]];
    match goal with |- context [upd_nth (pthreads s) t ?t'] => specialize (U t' th Ht); specialize (V t' th Ht) end;
    rewrite held_len_mk in U; rewrite cr_ind_mk in V; change (held_len th) with (length (pheld th)) in U;
    cbn [length] in U; rewrite Hcr in V;
    constructor; cbn [plimit pcreated pidle pthreads plocked length]; auto; lia.
Qed.

Lemma pstep_inv n s t s' : PInv n s -> pstep s t = Some s' -> PInv n s'.
Proof.
  intros HI H. unfold pstep in H.
  destruct (nth_error (pthreads s) t) as [th|] eqn:Ht; [|discriminate].
  destruct (pcur th) as [o|]; [|discriminate].
  assert (Same : forall th' s2, plimit s2 = plimit s -> pcreated s2 = pcreated s -> pidle s2 = pidle s ->
            pthreads s2 = upd_nth (pthreads s) t th' -> length (pheld th') = length (pheld th) ->
            cr_ind th' + (if plocked s then 1 else 0) = cr_ind th + (if plocked s2 then 1 else 0) -> PInv n s2).
  { intros. eapply pinv_same; eauto. }
  destruct (ppcof th) as [| | |x] eqn:Epc.
  - assert (Hcr : cr_ind th = 0) by (unfold cr_ind; rewrite Epc; reflexivity).
    destruct o; [| destruct (pheld th) eqn:Eh | |]; inversion H; subst s'; clear H;
      (eapply Same; cbn [plimit pcreated pidle pthreads plocked pheld]; try reflexivity;
       rewrite ?cr_ind_mk, ?Hcr, ?Eh; reflexivity).
  - assert (Hcr : cr_ind th = 0) by (unfold cr_ind; rewrite Epc; reflexivity).
    destruct o.
    + destruct (plocked s) eqn:Hlk; [discriminate|]. inversion H; subst s'. apply pget_inv; auto.
    + destruct (plocked s) eqn:Hlk; [discriminate|].
      destruct HI as [A B C L]. rewrite Hlk in L.
      pose proof (sumf_upd_nth held_len (pthreads s) t) as U.
      pose proof (sumf_upd_nth cr_ind (pthreads s) t) as V.
      destruct (pheld th) as [|y rest] eqn:Eh; inversion H; subst s'; clear H;
        match goal with |- context [upd_nth (pthreads s) t ?t'] => specialize (U t' th Ht); specialize (V t' th Ht) end;
        rewrite held_len_mk in U; rewrite cr_ind_mk in V; change (held_len th) with (length (pheld th)) in U;
        rewrite Eh in U; cbn [length] in U; rewrite Hcr in V;
        constructor; cbn [plimit pcreated pidle pthreads plocked length]; auto; lia.
    + destruct (plocked s) eqn:Hlk; [discriminate|]. inversion H; subst s'. apply pget_inv; auto.
    + destruct (plocked s) eqn:Hlk; [discriminate|]. inversion H; subst s'. apply pget_inv; auto.
  - assert (Hcr : cr_ind th = 0) by (unfold cr_ind; rewrite Epc; reflexivity).
    destruct (plocked s) eqn:Hlk; [discriminate|].
    destruct (Nat.ltb 0 (psig s)); [|discriminate]. inversion H; subst s'. apply pget_inv; auto.
  - assert (Hcr : cr_ind th = 1) by (unfold cr_ind; rewrite Epc; reflexivity).
    assert (Hlk : plocked s = true).
    { destruct HI as [A B C L]. destruct (plocked s); [reflexivity|]. exfalso.
      pose proof (sumf_upd_nth cr_ind (pthreads s) t th th Ht). 
      assert (cr_ind th <= sumf cr_ind (pthreads s)).
      { clear -Ht. revert t Ht. induction (pthreads s) as [|z l IH]; intros [|t] Hx; cbn in *; try discriminate.
        - inversion Hx; subst. lia. - specialize (IH _ Hx). lia. }
      lia. }
    inversion H; subst s'; clear H.
    eapply Same; cbn [plimit pcreated pidle pthreads plocked pheld]; try reflexivity.
    rewrite cr_ind_mk, Hcr, Hlk. reflexivity.
Qed.

Lemma pexec_inv n ma scripts sched : PInv n (pexec n ma scripts sched).
Proof. unfold pexec. apply run_inv; [intros; eapply pstep_inv; eauto | apply pinit_inv]. Qed.

Lemma pool_counts_l : forall n ma scripts sched,
  let s := pexec n ma scripts sched in
  pcreated s = length (pidle s) + pheldcount s /\ pcreated s <= n /\
  pcreating s = (if plocked s then 1 else 0).
Proof.
  intros n ma scripts sched s. destruct (pexec_inv n ma scripts sched) as [A B C D]. fold s in A, B, C, D.
  split; [exact B|split; [exact C|exact D]].
Qed.

(* Get at the limit with nothing idle waits; while a create() holds the lock nobody enters *)
Lemma pool_blocked_l : forall s t th,
  nth_error (pthreads s) t = Some th -> pcur th = Some PGet -> ppcof th = PEnter -> plocked s = false ->
  pidle s = [] -> pcreated s = plimit s ->
  exists s', pstep s t = Some s' /\ pcreated s' = pcreated s /\
             nth_error (pthreads s') t = Some (mkPT PWaiting (pscript th) (popi th) (pheld th) (pres th)).
Proof.
  intros s t th Ht Ho Epc Hlk Hi Hc. unfold pstep. rewrite Ht, Ho, Epc, Hlk. eexists. split; [reflexivity|].
  unfold pget. rewrite Hi. cbn [pdrain]. rewrite Hc, Nat.ltb_irrefl. cbn.
  split; [reflexivity|]. eapply nth_error_upd_nth_eq; eauto.
Qed.

Lemma pool_lock_excludes_l : forall s t th o,
  nth_error (pthreads s) t = Some th -> pcur th = Some o -> plocked s = true ->
  ppcof th = PEnter \/ ppcof th = PWaiting -> pstep s t = None.
Proof.
  intros s t th o Ht Ho Hlk [E|E]; unfold pstep; rewrite Ht, Ho, E, Hlk; destruct o; reflexivity.
Qed.

(* identity-level bookkeeping: every resource id is in exactly one place *)
Definition cnt (l : list nat) (y : nat) : nat := count_occ Nat.eq_dec l y.
Definition hcnt (y : nat) (th : pthread) : nat := cnt (pheld th) y.
Definition one (x y : nat) : nat := if Nat.eqb x y then 1 else 0.

Lemma cnt_cons x l y : cnt (x :: l) y = one x y + cnt l y.
Proof. unfold cnt, one. cbn. destruct (Nat.eq_dec x y) as [->|H]; [rewrite Nat.eqb_refl; reflexivity|].
  destruct (Nat.eqb_spec x y); [contradiction|reflexivity]. Qed.

Lemma cnt_app l1 l2 y : cnt (l1 ++ l2) y = cnt l1 y + cnt l2 y.
Proof. unfold cnt. apply count_occ_app. Qed.

Lemma hcnt_mk y a b c h r : hcnt y (mkPT a b c h r) = cnt h y.
Proof. reflexivity. Qed.

Definition pid (s : pstate) (y : nat) : Prop :=
  cnt (map fst (pidle s)) y + sumf (hcnt y) (pthreads s) + cnt (pdestroyed s) y = if Nat.ltb y (pnext s) then 1 else 0.

Lemma pdrain_cnt ma now idle y : forall cr de got idle' cr' de',
  pdrain ma now idle cr de = (got, idle', cr', de') ->
  cnt (map fst idle) y + cnt de y =
  cnt (map fst idle') y + cnt de' y + match got with Some x => one x y | None => 0 end.
Proof.
  induction idle as [|[x last] rest IH]; intros cr de got idle' cr' de' H; cbn in H.
  - inversion H; subst. cbn. lia.
  - destruct (expired ma now last).
    + specialize (IH _ _ _ _ _ _ H). rewrite cnt_app in IH. cbn [map fst]. rewrite cnt_cons.
      change (cnt [x] y) with (cnt (x :: []) y) in IH. rewrite cnt_cons in IH. cbn in IH. lia.
    + inversion H; subst. cbn [map fst]. rewrite cnt_cons. lia.
Qed.


Lemma pid_same s s' t th th' :
  nth_error (pthreads s) t = Some th ->
  pidle s' = pidle s -> pdestroyed s' = pdestroyed s -> pnext s' = pnext s ->
  pthreads s' = upd_nth (pthreads s) t th' -> pheld th' = pheld th ->
  forall y, pid s y -> pid s' y.
Proof.
  intros Ht E1 E2 E3 E4 Hh y H. unfold pid in *.
  pose proof (sumf_upd_nth (hcnt y) (pthreads s) t th' th Ht) as U.
  change (hcnt y th') with (cnt (pheld th') y) in U. change (hcnt y th) with (cnt (pheld th) y) in U.
  rewrite Hh in U. rewrite E1, E2, E3, E4. lia.
Qed.

Lemma pget_pid s t th sig cp :
  (forall y, pid s y) -> nth_error (pthreads s) t = Some th -> forall y, pid (pget s t th sig cp) y.
Proof.
  intros HI Ht y. unfold pget.
  destruct (pdrain (pmaxage s) (pclock s) (pidle s) (pcreated s) (pdestroyed s)) as [[[got idle'] cr'] de'] eqn:E.
  pose proof (pdrain_cnt _ _ _ y _ _ _ _ _ _ E) as D.
  pose proof (sumf_upd_nth (hcnt y) (pthreads s) t) as U.
  specialize (HI y). unfold pid in *.
  destruct got as [x|].
  - match goal with |- context [upd_nth (pthreads s) t ?t'] => specialize (U t' th Ht) end.
    change (hcnt y th) with (cnt (pheld th) y) in U. rewrite hcnt_mk in U. rewrite cnt_cons in U.
    cbn [pidle pthreads pdestroyed pnext]. lia.
  - destruct (Nat.ltb cr' (plimit s)); [destruct cp|].
    + match goal with |- context [upd_nth (pthreads s) t ?t'] => specialize (U t' th Ht) end.
      change (hcnt y th) with (cnt (pheld th) y) in U. rewrite hcnt_mk in U.
      cbn [pidle pthreads pdestroyed pnext]. lia.
    + match goal with |- context [upd_nth (pthreads s) t ?t'] => specialize (U t' th Ht) end.
      change (hcnt y th) with (cnt (pheld th) y) in U. rewrite hcnt_mk in U. rewrite cnt_cons in U.
      cbn [pidle pthreads pdestroyed pnext]. unfold one in *.
      destruct (Nat.eqb_spec (pnext s) y) as [<-|Hne].
      * rewrite Nat.ltb_irrefl in HI. destruct (Nat.ltb_spec (pnext s) (S (pnext s))); lia.
      * destruct (Nat.ltb_spec y (pnext s)); destruct (Nat.ltb_spec y (S (pnext s))); lia.
    + match goal with |- context [upd_nth (pthreads s) t ?t'] => specialize (U t' th Ht) end.
      change (hcnt y th) with (cnt (pheld th) y) in U. rewrite hcnt_mk in U.
      cbn [pidle pthreads pdestroyed pnext]. lia.
Qed.

Lemma pstep_pid s t s' : (forall y, pid s y) -> pstep s t = Some s' -> forall y, pid s' y.
Proof.
  intros HI H y. unfold pstep in H.
  destruct (nth_error (pthreads s) t) as [th|] eqn:Ht; [|discriminate].
  destruct (pcur th) as [o|]; [|discriminate].
  assert (Same : forall th' s2, pidle s2 = pidle s -> pdestroyed s2 = pdestroyed s -> pnext s2 = pnext s ->
            pthreads s2 = upd_nth (pthreads s) t th' -> pheld th' = pheld th -> pid s2 y).
  { intros. eapply pid_same; eauto. }
  destruct (ppcof th) as [| | |x] eqn:Epc.
  - destruct o; [| destruct (pheld th) eqn:Eh | |]; inversion H; subst s'; clear H;
      (eapply Same; cbn [pidle pdestroyed pnext pthreads pheld]; try reflexivity; rewrite ?Eh; reflexivity).
  - destruct o.
    + destruct (plocked s); [discriminate|]. inversion H; subst s'. apply pget_pid; auto.
    + destruct (plocked s); [discriminate|].
      pose proof (sumf_upd_nth (hcnt y) (pthreads s) t) as U. specialize (HI y). unfold pid in *.
      destruct (pheld th) as [|z rest] eqn:Eh; inversion H; subst s'; clear H;
        match goal with |- context [upd_nth (pthreads s) t ?t'] => specialize (U t' th Ht) end;
        change (hcnt y th) with (cnt (pheld th) y) in U; rewrite hcnt_mk in U; rewrite Eh in U;
        cbn [pidle pthreads pdestroyed pnext map fst]; rewrite ?cnt_cons in *; lia.
    + destruct (plocked s); [discriminate|]. inversion H; subst s'. apply pget_pid; auto.
    + destruct (plocked s); [discriminate|]. inversion H; subst s'. apply pget_pid; auto.
  - destruct (plocked s); [discriminate|].
    destruct (Nat.ltb 0 (psig s)); [|discriminate]. inversion H; subst s'. apply pget_pid; auto.
  - inversion H; subst s'; clear H.
    eapply Same; cbn [pidle pdestroyed pnext pthreads pheld]; reflexivity.
Qed.

Lemma pinit_pid n ma scripts y : pid (pinit n ma scripts) y.
Proof.
  unfold pid. cbn. rewrite sumf_map. rewrite sumf_zero; [reflexivity|]. intros; reflexivity.
Qed.

Lemma pexec_pid n ma scripts sched y : pid (pexec n ma scripts sched) y.
Proof.
  revert y. unfold pexec. apply (run_inv pstep (fun s => forall y, pid s y)).
  - intros; eapply pstep_pid; eauto.
  - intros; apply pinit_pid.
Qed.

Lemma pool_exclusive_l : forall n ma scripts sched x,
  let s := pexec n ma scripts sched in
  pholders x s + pidle_count x s <= 1 /\
  (In x (pdestroyed s) -> pholders x s = 0 /\ pidle_count x s = 0) /\
  (pnext s <= x -> pholders x s = 0 /\ pidle_count x s = 0).
Proof.
  intros n ma scripts sched x s. pose proof (pexec_pid n ma scripts sched x) as H. fold s in H.
  unfold pid in H. unfold pholders, pidle_count. unfold hcnt, cnt in H.
  split; [|split].
  - destruct (Nat.ltb x (pnext s)); lia.
  - intros Hin. apply (count_occ_In Nat.eq_dec) in Hin. destruct (Nat.ltb x (pnext s)); lia.
  - intros Hle. destruct (Nat.ltb_spec x (pnext s)); lia.
Qed.

(* ---- Pool: what one pass of Get does to the idle list ---- *)
Lemma pdrain_spec ma now idle : forall cr de got idle' cr' de',
  pdrain ma now idle cr de = (got, idle', cr', de') ->
  exists pre, Forall (fun p => expired ma now (snd p) = true) pre /\ de' = de ++ map fst pre /\
              cr' = cr - length pre /\
    match got with
    | Some x => exists last, idle = pre ++ (x, last) :: idle' /\ expired ma now last = false
    | None => idle = pre /\ idle' = []
    end.
Proof.
  induction idle as [|[x last] rest IH]; intros cr de got idle' cr' de' H; cbn in H.
  - inversion H; subst. exists []. cbn. rewrite app_nil_r. repeat split; auto. lia.
  - destruct (expired ma now last) eqn:E.
    + destruct (IH _ _ _ _ _ _ H) as (pre & F & D & C & G). exists ((x, last) :: pre). cbn.
      split; [constructor; auto|]. split; [rewrite D, <- app_assoc; reflexivity|]. split; [lia|].
      destruct got as [y|].
      * destruct G as (l & G1 & G2). exists l. rewrite G1. auto.
      * destruct G as [G1 G2]. subst. auto.
    + inversion H; subst. exists []. cbn. rewrite app_nil_r. repeat split; auto; try lia. exists last. auto.
Qed.


Lemma pmaxage_step s t s' : pstep s t = Some s' -> pmaxage s' = pmaxage s.
Proof.
  unfold pstep, pget. intros H.
  destruct (nth_error (pthreads s) t) as [th|]; [|discriminate].
  destruct (pcur th) as [o|]; [|discriminate].
  destruct (pdrain (pmaxage s) (pclock s) (pidle s) (pcreated s) (pdestroyed s)) as [[[got idle'] cr'] de'].
  destruct (ppcof th); destruct o;
    repeat match type of H with
           | context [match ?x with _ => _ end] => destruct x
           | context [if ?x then _ else _] => destruct x
           end; inversion H; reflexivity.
Qed.

Lemma pexec_maxage n ma scripts sched : pmaxage (pexec n ma scripts sched) = ma.
Proof.
  unfold pexec. apply (run_inv pstep (fun s => pmaxage s = ma)); [|reflexivity].
  intros s t s' E H. rewrite (pmaxage_step _ _ _ H). exact E.
Qed.

Lemma list_cons_neq {A} (x : A) l : x :: l <> l.
Proof. intros H. apply (f_equal (@length A)) in H. cbn in H. lia. Qed.

(* any step, from any state: the resource a thread gains is fresh or a non-expired idle one;
   whatever is destroyed was idle and expired *)

(* any step, from any state: the resource a thread gains is fresh or a non-expired idle one *)
Lemma pstep_handout s t s' th th' x :
  pstep s t = Some s' -> nth_error (pthreads s) t = Some th -> nth_error (pthreads s') t = Some th' ->
  pheld th' = x :: pheld th ->
  (x = pnext s /\ pnext s' = S (pnext s)) \/
  (exists last, In (x, last) (pidle s) /\ expired (pmaxage s) (pclock s) last = false).
Proof.
  intros H Ht Ht' Hh. unfold pstep in H. rewrite Ht in H.
  destruct (pcur th) as [o|]; [|discriminate].
  assert (G : forall sig cp, pget s t th sig cp = s' ->
          (x = pnext s /\ pnext s' = S (pnext s)) \/
          (exists last, In (x, last) (pidle s) /\ expired (pmaxage s) (pclock s) last = false)).
  { intros sig cp E. unfold pget in E.
    destruct (pdrain (pmaxage s) (pclock s) (pidle s) (pcreated s) (pdestroyed s)) as [[[got idle'] cr'] de'] eqn:D.
    destruct (pdrain_spec _ _ _ _ _ _ _ _ _ D) as (pre & F & Dd & C & M).
    destruct got as [y|].
    - subst s'. cbn in Ht'. rewrite (nth_error_upd_nth_eq _ _ _ _ Ht) in Ht'. inversion Ht'; subst th'.
      cbn in Hh. inversion Hh; subst y. right. destruct M as (last & M1 & M2). exists last.
      split; [rewrite M1; apply in_or_app; right; left; reflexivity|exact M2].
    - destruct (Nat.ltb cr' (plimit s)); [destruct cp|]; subst s'; cbn in Ht';
        rewrite (nth_error_upd_nth_eq _ _ _ _ Ht) in Ht'; inversion Ht'; subst th'; cbn in Hh.
      + exfalso. symmetry in Hh. eapply list_cons_neq; eauto.
      + inversion Hh. left. split; reflexivity.
      + exfalso. symmetry in Hh. eapply list_cons_neq; eauto. }
  assert (Keep : forall th2 s2, Some s2 = Some s' -> pthreads s2 = upd_nth (pthreads s) t th2 ->
                 length (pheld th2) <= length (pheld th) -> False).
  { intros th2 s2 E1 E2 E3. inversion E1; subst s2. rewrite E2 in Ht'.
    rewrite (nth_error_upd_nth_eq _ _ _ _ Ht) in Ht'. inversion Ht'; subst th2.
    rewrite Hh in E3. cbn in E3. lia. }
  destruct (ppcof th) as [| | |z].
  - exfalso. destruct o; [| destruct (pheld th) eqn:Eh | |];
      (eapply Keep; [exact H | reflexivity | cbn; rewrite ?Eh; cbn; lia]).
  - destruct o.
    + destruct (plocked s); [discriminate|]. injection H as E; exact (G _ _ E).
    + exfalso. destruct (plocked s); [discriminate|].
      destruct (pheld th) eqn:Eh; (eapply Keep; [exact H | reflexivity | cbn; rewrite ?Eh; cbn; lia]).
    + destruct (plocked s); [discriminate|]. injection H as E; exact (G _ _ E).
    + destruct (plocked s); [discriminate|]. injection H as E; exact (G _ _ E).
  - destruct (plocked s); [discriminate|].
    destruct (Nat.ltb 0 (psig s)); [|discriminate]. injection H as E; exact (G _ _ E).
  - exfalso. eapply Keep; [exact H | reflexivity | cbn; lia].
Qed.

Lemma pool_never_hands_out_expired_l : forall n ma scripts sched t s' th th' x,
  let s := pexec n ma scripts sched in
  pstep s t = Some s' -> nth_error (pthreads s) t = Some th -> nth_error (pthreads s') t = Some th' ->
  pheld th' = x :: pheld th ->
  (x = pnext s /\ pnext s' = S (pnext s)) \/
  (exists last, In (x, last) (pidle s) /\ ~ (0 < ma /\ last + ma < pclock s)%Z).
Proof.
  intros n ma scripts sched t s' th th' x s H Ht Ht' Hh.
  destruct (pstep_handout s t s' th th' x H Ht Ht' Hh) as [A|(last & A & B)]; [left; exact A|right].
  exists last. split; [exact A|]. unfold s in B. rewrite pexec_maxage in B. fold s in B.
  unfold expired in B. intros [C1 C2]. apply andb_false_iff in B.
  destruct B as [B|B]; [apply Z.ltb_ge in B|apply Z.ltb_ge in B]; lia.
Qed.

(* whatever a step destroys was idle and expired *)

(* whatever a step destroys was idle and expired *)
Lemma pstep_destroys s t s' y :
  pstep s t = Some s' -> In y (pdestroyed s') ->
  In y (pdestroyed s) \/ exists last, In (y, last) (pidle s) /\ expired (pmaxage s) (pclock s) last = true.
Proof.
  intros H Hy. unfold pstep in H.
  destruct (nth_error (pthreads s) t) as [th|]; [|discriminate].
  destruct (pcur th) as [o|]; [|discriminate].
  assert (G : forall sig cp, pget s t th sig cp = s' ->
     In y (pdestroyed s) \/ exists last, In (y, last) (pidle s) /\ expired (pmaxage s) (pclock s) last = true).
  { intros sig cp E. unfold pget in E.
    destruct (pdrain (pmaxage s) (pclock s) (pidle s) (pcreated s) (pdestroyed s)) as [[[got idle'] cr'] de'] eqn:D.
    destruct (pdrain_spec _ _ _ _ _ _ _ _ _ D) as (pre & F & Dd & C & M).
    assert (Hde : In y de').
    { destruct got; [|destruct (Nat.ltb cr' (plimit s)); [destruct cp|]]; subst s'; exact Hy. }
    rewrite Dd in Hde. apply in_app_or in Hde. destruct Hde as [Hde|Hde]; [left; exact Hde|right].
    apply in_map_iff in Hde. destruct Hde as ([y' last] & E1 & E2). cbn in E1. subst y'.
    exists last. rewrite Forall_forall in F. split; [|apply (F _ E2)].
    destruct got as [z|].
    - destruct M as (l & M1 & _). rewrite M1. apply in_or_app. left. exact E2.
    - destruct M as [M1 _]. rewrite M1. exact E2. }
  destruct (ppcof th) as [| | |z].
  - left. destruct o; [| destruct (pheld th) | |]; inversion H; subst s'; exact Hy.
  - destruct o.
    + destruct (plocked s); [discriminate|]. injection H as E; exact (G _ _ E).
    + left. destruct (plocked s); [discriminate|]. destruct (pheld th); inversion H; subst s'; exact Hy.
    + destruct (plocked s); [discriminate|]. injection H as E; exact (G _ _ E).
    + destruct (plocked s); [discriminate|]. injection H as E; exact (G _ _ E).
  - destruct (plocked s); [discriminate|].
    destruct (Nat.ltb 0 (psig s)); [|discriminate]. injection H as E; exact (G _ _ E).
  - left. inversion H; subst s'; exact Hy.
Qed.

(* ---- MaxConns only: scripts made of requests ---- *)
(* scripts of a MaxConns client: HTTP requests, and cancellations of request contexts *)
Definition is_req (o : lop) : Prop := match o with LReq _ | LCancel _ => True | _ => False end.
Definition req_thread (th : lthread) : Prop :=
  Forall is_req (lscript th) /\
  ((lpcof th = LIdle /\ lheld th = 0) \/ (lpcof th = LInBody /\ lheld th = 1)).

Definition MInv (s : lstate) : Prop := lrogue s = false /\ Forall req_thread (lthreads s).

Lemma mc_step n s x s' : LInv n s -> MInv s -> lstep s x = Some s' -> MInv s'.
Proof.
  intros HL [R F] H. unfold lstep in H.
  destruct (Nat.ltb x (length (lthreads s))).
  - destruct (nth_error (lthreads s) x) as [th|] eqn:Ht; [|discriminate].
    destruct (lcur th) as [o|] eqn:Ho; [|discriminate].
    pose proof (Forall_nth _ _ _ _ F Ht) as [Sc St].
    assert (Hreq : is_req o). { rewrite Forall_forall in Sc. apply Sc. eapply nth_error_In; eauto. }
    unfold lstep_thread in H. cbv zeta in H.
    destruct St as [[Epc Eh]|[Epc Eh]]; rewrite Epc in H.
    + destruct o; try contradiction.
      * destruct (Nat.ltb (lc s) (lcap s)); inversion H; subst s'; (split; [exact R|]); cbn;
          apply Forall_upd_nth; auto; (split; [exact Sc|]); cbn; rewrite Eh; auto.
      * inversion H; subst s'; (split; [exact R|]); cbn;
          apply Forall_upd_nth; auto; (split; [exact Sc|]); cbn; rewrite Eh; auto.
    + assert (Hc : 0 < lc s).
      { destruct HL as [A B C D E]. rewrite <- (D R). unfold lholders.
        pose proof (sumf_upd_nth lheld (lthreads s) x th th Ht). 
        assert (lheld th <= sumf lheld (lthreads s)).
        { clear -Ht. revert x Ht. induction (lthreads s) as [|z l IH]; intros [|x] Hx; cbn in *; try discriminate.
          - inversion Hx; subst. lia. - specialize (IH _ Hx). lia. }
        lia. }
      destruct (Nat.ltb_spec 0 (lc s)); [|lia]. inversion H; subst s'. split; cbn.
      * rewrite R, Eh. reflexivity.
      * apply Forall_upd_nth; auto. split; cbn; auto. left. rewrite Eh. auto.
  - unfold lstep_timer in H.
    destruct (nth_error (lthreads s) (x - length (lthreads s))) as [th|] eqn:Ht; [|discriminate].
    pose proof (Forall_nth _ _ _ _ F Ht) as [Sc [[Epc _]|[Epc _]]]; rewrite Epc in H; discriminate.
Qed.

Lemma maxconns_idle_means_zero_l : forall n scripts sched,
  Forall (Forall is_req) scripts ->
  let s := lexec n scripts sched in
  lrogue s = false /\ lc s = linbody s /\
  ((forall th, In th (lthreads s) -> lpcof th <> LInBody) -> lc s = 0).
Proof.
  intros n scripts sched Hs s.
  assert (H : LInv n s /\ MInv s).
  { unfold s, lexec. apply (run_inv lstep (fun s => LInv n s /\ MInv s)).
    - intros s0 t s1 [A B] Hst. split; [eapply lstep_inv; eauto | eapply mc_step; eauto].
    - split; [apply linit_inv|]. split; [reflexivity|]. cbn. apply Forall_forall.
      intros th Hin. apply in_map_iff in Hin. destruct Hin as (sc & <- & Hsc).
      rewrite Forall_forall in Hs. split; cbn; auto. }
  destruct H as [[A B C D E] [R F]].
  assert (Heq : lholders s = linbody s).
  { unfold lholders, linbody. apply sumf_ext. intros th Hin. rewrite Forall_forall in F.
    destruct (F th Hin) as [_ [[Epc Eh]|[Epc Eh]]]; rewrite Epc, Eh; reflexivity. }
  split; [exact R|]. split; [rewrite <- (D R); exact Heq|].
  intros Hno. rewrite <- (D R), Heq. unfold linbody. apply sumf_zero.
  intros th Hin. specialize (Hno th Hin). destruct (lpcof th); try reflexivity. contradiction.
Qed.

Lemma pool_destroys_only_expired_l : forall n ma scripts sched t s' y,
  let s := pexec n ma scripts sched in
  pstep s t = Some s' -> In y (pdestroyed s') ->
  In y (pdestroyed s) \/ exists last, In (y, last) (pidle s) /\ (0 < ma /\ last + ma < pclock s)%Z.
Proof.
  intros n ma scripts sched t s' y s H Hy.
  destruct (pstep_destroys s t s' y H Hy) as [A|(last & A & B)]; [left; exact A|right].
  exists last. split; [exact A|]. unfold s in B. rewrite pexec_maxage in B. fold s in B.
  unfold expired in B. apply andb_prop in B. destruct B as [B1 B2].
  apply Z.ltb_lt in B1. apply Z.ltb_lt in B2. split; assumption.
Qed.

(* ================================================================== *)
(* WP: mr / fx worker pools                                             *)

Record WInv (n : nat) (s : wstate) : Prop := mkWInv
  { wi_cap : wcap s = n;
    wi_cnt : wc s = wlive s + whold s;
    wi_le : wc s <= n;
    wi_wg : wwg s = sumf w_counted (wtasks s) }.

Lemma winit_inv v n items : WInv n (winit v n items).
Proof. constructor; cbn; auto; lia. Qed.

Lemma wstep_inv n s x s' : WInv n s -> wstep s x = Some s' -> WInv n s'.
Proof.
  intros [A B C D] H. unfold wstep in H. unfold wlive, whold in *.
  destruct x as [|k].
  - destruct (wd s) eqn:Ed;
      repeat match type of H with
             | context [if Nat.ltb ?a ?b then _ else _] => destruct (Nat.ltb_spec a b)
             | context [match ?x with _ => _ end] => destruct x eqn:?
             end;
      inversion H; subst s'; clear H;
      constructor; unfold wlive, whold; cbn [wcap wc wwg wtasks wd wset_d];
      rewrite ?sumf_app; cbn [sumf w_live w_counted wst]; try lia.
  - destruct (nth_error (wtasks s) k) as [tk|] eqn:Hk; [|discriminate].
    pose proof (sumf_upd_nth w_live (wtasks s) k) as U.
    pose proof (sumf_upd_nth w_counted (wtasks s) k) as V.
    destruct (wst tk) eqn:Et; inversion H; subst s'; clear H;
      match goal with |- context [upd_nth (wtasks s) k ?t'] => specialize (U t' tk Hk); specialize (V t' tk Hk) end;
      assert (E1 : w_live tk = match wst tk with WDn => 0 | _ => 1 end) by reflexivity;
      assert (E2 : w_counted tk = match wst tk with WSp | WRun => 1 | _ => 0 end) by reflexivity;
      rewrite Et in E1, E2; rewrite E1 in U; rewrite E2 in V; cbn [w_live w_counted wst] in U, V;
      constructor; unfold wlive, whold; cbn [wcap wc wwg wtasks wd]; try lia.
Qed.

Lemma wexec_inv v n items sched : WInv n (wexec v n items sched).
Proof. unfold wexec. apply run_inv; [intros; eapply wstep_inv; eauto | apply winit_inv]. Qed.

Lemma wp_cap_l : forall v n items sched,
  let s := wexec v n items sched in
  wrunning s <= wlive s /\ wlive s + whold s = wc s /\ wc s <= n.
Proof.
  intros v n items sched s. destruct (wexec_inv v n items sched) as [A B C D]. fold s in A, B, C, D.
  split; [|split; [lia|exact C]]. unfold wrunning, wlive. apply sumf_le.
  intros tk. unfold w_running, w_live. destruct (wst tk); lia.
Qed.

Lemma wp_no_leak_l : forall v n items sched,
  let s := wexec v n items sched in
  (forall tk, In tk (wtasks s) -> wst tk = WDn) -> whold s = 0 -> wc s = 0 /\ wwg s = 0.
Proof.
  intros v n items sched s Ht Hh. destruct (wexec_inv v n items sched) as [A B C D]. fold s in A, B, C, D.
  assert (L : wlive s = 0).
  { unfold wlive. apply sumf_zero. intros tk Hin. unfold w_live. rewrite (Ht tk Hin). reflexivity. }
  assert (W : sumf w_counted (wtasks s) = 0).
  { apply sumf_zero. intros tk Hin. unfold w_counted. rewrite (Ht tk Hin). reflexivity. }
  lia.
Qed.

(* at the cap the dispatcher cannot take a slot: no further worker is started *)
Lemma wp_blocked_l : forall s it, wd s = DAcq it -> wc s = wcap s -> wstep s 0 = None.
Proof. intros s it Hd Hc. unfold wstep. rewrite Hd, Hc, Nat.ltb_irrefl. reflexivity. Qed.
