(* C05 — obligations on the constants re-extracted from the tree under check
   (coq/gen/C05Consts.v, written by tools/props/c05.py on every run).

   The worker-pool theorems (Props.cap_never_exceeded_mr / _fx, ...) are stated for a pool of
   capacity [n]; the public options turn the caller's number into that capacity:
   WithWorkers(w) gives max(w, minWorkers), no option gives defaultWorkers.  For C05's
   quantifier ("for all capacities n >= 1") to be the one of the theorems, a caller's w >= 1
   must become exactly w, every w must become >= 1 (a pool of capacity 0 lets nobody in, ever),
   and the default must be a legal capacity.  MaxConnsHandler must refuse with 503. *)
From Coq Require Import ZArith Lia.
From GZgen Require Import C05Consts.
Open Scope Z_scope.

Definition eff_workers (minw w : Z) : Z := Z.max w minw.

Theorem mr_workers_exact : forall w, 1 <= w -> eff_workers mr_min_workers w = w.
Proof. intros w H. unfold eff_workers, mr_min_workers. lia. Qed.

Theorem mr_workers_positive : forall w, 1 <= eff_workers mr_min_workers w.
Proof. intros w. unfold eff_workers, mr_min_workers. lia. Qed.

Theorem mr_default_legal : 1 <= mr_default_workers /\ mr_min_workers <= mr_default_workers.
Proof. unfold mr_default_workers, mr_min_workers. lia. Qed.

Theorem fx_workers_exact : forall w, 1 <= w -> eff_workers fx_min_workers w = w.
Proof. intros w H. unfold eff_workers, fx_min_workers. lia. Qed.

Theorem fx_workers_positive : forall w, 1 <= eff_workers fx_min_workers w.
Proof. intros w. unfold eff_workers, fx_min_workers. lia. Qed.

Theorem fx_default_legal : 1 <= fx_default_workers /\ fx_min_workers <= fx_default_workers.
Proof. unfold fx_default_workers, fx_min_workers. lia. Qed.

Theorem maxconns_refuses_with_503 : maxconns_refusal_status = 503.
Proof. reflexivity. Qed.

(* F34: a panicking create() must not use up the Pool's slot.  Judged by behaviour on every
   run (the executor's probe: Pool(1), the first create() panics, the next Get succeeds), and
   expected since the repair is in the tree (marker corpus/C05/pool_create_panic_fixed): the
   model of Model.v ([pget] with [cp = true] counts nothing) is the model of such a tree only. *)
Theorem pool_create_panic_fix_present :
  pool_create_panic_fix_expected = true -> pool_create_panic_uncounts = true.
Proof.
  unfold pool_create_panic_fix_expected, pool_create_panic_uncounts. intros H.
  first [reflexivity | discriminate H].
Qed.
