(* C05 — property theorems only ([exact] of a lemma of Proofs.v + Print Assumptions).

   [lexec n scripts sched] / [rexec ...] / [pexec ...] are the states reached by the
   interleaving models of Model.v for an ARBITRARY capacity n, ARBITRARY scripts (any number
   of threads, any calls, handlers/tasks that return or panic) and an ARBITRARY schedule of
   atomic actions (including timer expiries of TimeoutLimit and task goroutines of
   TaskRunner as pseudo-threads).  "In ...exec n scripts sched" = at every step of every
   interleaving.  n = 0 is allowed (nothing is ever let in), so n >= 1 is not needed. *)
From Coq Require Import List ZArith Bool Arith.
From GZ Require Import Lib.Sched C05.Model C05.Proofs C05.Proofs2 C05.Engine.
From GZ Require C05.Check C05.ProofsCheck.
Import ListNotations.

(* ---- Limit / TimeoutLimit / MaxConnsHandler ---- *)

(* cap_never_exceeded + over_return (global part): the channel never holds more than n
   permits; successful Returns never exceed successful acquisitions and the outstanding
   count is exactly their difference, so no sequence of Returns ever raises the capacity;
   with well-formed holders (no Return succeeded for a thread that held nothing:
   [lrogue = false]) the permits outstanding are exactly the permits held, hence at most n
   holders, and at most n requests are inside the MaxConns handler body. *)
Theorem cap_never_exceeded_limit : forall n scripts sched,
  let s := lexec n scripts sched in
  lc s <= n /\ lrel s <= lacq s /\ lc s = lacq s - lrel s /\
  (lrogue s = false -> lholders s = lc s /\ lholders s <= n /\ linbody s <= n).
Proof. exact lim_cap_l. Qed.
Print Assumptions cap_never_exceeded_limit.

(* no_leak: when every holder has given back what it held (by Return, by the deferred Return
   of a handler that returned or panicked), the full capacity is available again. *)
Theorem no_leak_limit : forall n scripts sched,
  let s := lexec n scripts sched in
  lrogue s = false -> (forall th, In th (lthreads s) -> lheld th = 0) -> lc s = 0.
Proof. exact lim_no_leak_l. Qed.
Print Assumptions no_leak_limit.

(* over_return_reported: a Return on an empty limit answers ErrLimitReturn (result 0) and
   changes nothing but the caller's own record (any state, reachable or not). *)
Theorem over_return_reported : forall s t th,
  nth_error (lthreads s) t = Some th -> t < length (lthreads s) -> lpcof th = LIdle ->
  (lcur th = Some LReturn \/ lcur th = Some LTReturn) -> lc s = 0 ->
  lstep s t = Some (lkeep s t (ldone th (lheld th) 0)).
Proof. exact lim_over_return_l. Qed.
Print Assumptions over_return_reported.

(* refused_or_blocked: at the cap TryBorrow answers false, MaxConns answers 503,
   TimeoutLimit.Borrow goes (back) to waiting, Limit.Borrow is disabled; none acquires. *)
Theorem refused_or_blocked_limit : forall s t th o,
  nth_error (lthreads s) t = Some th -> t < length (lthreads s) -> lcur th = Some o -> lc s = lcap s ->
  match lpcof th, o with
  | LIdle, LTry => lstep s t = Some (lkeep s t (ldone th (lheld th) 0))
  | LIdle, LReq _ => lstep s t = Some (lkeep s t (ldone th (lheld th) 0))
  | LIdle, LTBorrow _ => lstep s t = Some (lkeep s t (lgo th LTWait (lheld th)))
  | LTWoken, _ => lstep s t = Some (lkeep s t (lgo th LTWait (lheld th)))
  | LBorrowing, _ => lstep s t = None
  | _, _ => True
  end.
Proof. exact lim_refused_l. Qed.
Print Assumptions refused_or_blocked_limit.

(* MaxConns alone (scripts consisting of HTTP requests whose handlers return or panic): no
   Return is ever rogue, the permits outstanding are exactly the requests inside the handler
   body, so whenever no request is inside (all finished, by return or by panic) the full
   capacity is available. *)
Theorem maxconns_idle_means_zero : forall n scripts sched,
  Forall (Forall is_req) scripts ->
  let s := lexec n scripts sched in
  lrogue s = false /\ lc s = linbody s /\
  ((forall th, In th (lthreads s) -> lpcof th <> LInBody) -> lc s = 0).
Proof. exact maxconns_idle_means_zero_l. Qed.
Print Assumptions maxconns_idle_means_zero.

(* ---- MaxConns as configured in a rest.Server (Engine.v): one latch of capacity n per route, built
   when the routes are bound; actors are (route, client) pairs; any interleaving of all of them ---- *)

(* per route: permits out = requests inside that route's handler <= n, never a rogue Return, and the
   full capacity of the route is back when none of its requests is inside (handlers that returned or
   panicked; contexts cancelled, hijacked connections closed meanwhile) - whatever the clients of the
   other routes do *)
Theorem engine_cap_per_route : forall n routes sched r scripts s,
  Forall (Forall is_req) scripts ->
  nth_error routes r = Some scripts ->
  nth_error (eexec n routes sched) r = Some s ->
  lrogue s = false /\ lc s = linbody s /\ linbody s <= n /\
  ((forall th, In th (lthreads s) -> lpcof th <> LInBody) -> lc s = 0).
Proof. exact engine_cap_per_route_l. Qed.
Print Assumptions engine_cap_per_route.

(* a route's latch after any interleaving = its own LTS after its own part of the schedule *)
Theorem engine_route_is_its_own_latch : forall n routes sched r scripts,
  nth_error routes r = Some scripts ->
  nth_error (eexec n routes sched) r = Some (lexec n scripts (eproj r sched)).
Proof. exact eexec_route. Qed.
Print Assumptions engine_route_is_its_own_latch.

Theorem engine_routes_independent : forall es a es' r,
  estep es a = Some es' -> r <> fst a -> nth_error es' r = nth_error es r.
Proof. exact engine_routes_independent_l. Qed.
Print Assumptions engine_routes_independent.

(* MaxConns = 1, two routes: the three first requests of route 0 arrive together - one inside, two
   refused -, route 1 lets its own first request in meanwhile; after the holder of route 0 has
   returned the next request of route 0 is let in *)
Example ex_engine :
  let es := eexec 1 [[[LReq false]; [LReq false]; [LReq false; LReq true]]; [[LReq false]]]
                  [(0, 0); (0, 1); (1, 0); (0, 2); (0, 0); (0, 2)] in
  map (fun s => (linbody s, lc s, map lres (lthreads s))) es =
  [(1, 1, [[1]; [0]; [0]]%Z); (1, 1, [[]])].
Proof. vm_compute. reflexivity. Qed.

(* ---- TaskRunner ---- *)

(* cap_never_exceeded: tasks inside their body <= live task goroutines = slots taken <= n *)
Theorem cap_never_exceeded_taskrunner : forall n scripts sched,
  let s := rexec n scripts sched in
  rrunning s <= rlive s /\ rlive s = rc s /\ rc s <= n.
Proof. exact tr_cap_l. Qed.
Print Assumptions cap_never_exceeded_taskrunner.

(* no_leak: once every task has ended (returned or panicked) and no Schedule is pending, all
   slots are free and the WaitGroup is at zero. *)
Theorem no_leak_taskrunner : forall n scripts sched,
  let s := rexec n scripts sched in
  (forall tk, In tk (rtasks s) -> tst tk = TDone) ->
  (forall th, In th (rthreads s) -> rpcof th = RIdle) ->
  rc s = 0 /\ rwg s = 0.
Proof. exact tr_no_leak_l. Qed.
Print Assumptions no_leak_taskrunner.

(* refused_or_blocked: at the cap ScheduleImmediately answers ErrTaskRunnerBusy (result 0)
   without spawning, Schedule is disabled. *)
Theorem refused_or_blocked_taskrunner : forall s t th o,
  nth_error (rthreads s) t = Some th -> t < length (rthreads s) -> rcur th = Some o -> rc s = rcap s ->
  match rpcof th, o with
  | RIdle, RSchedNow _ =>
    rstep s t = Some (mkRS (rcap s) (rc s) (rwg s) (rtasks s) (upd_nth (rthreads s) t (rdone th 0)))
  | RScheduling, _ => rstep s t = None
  | _, _ => True
  end.
Proof. exact tr_refused_l. Qed.
Print Assumptions refused_or_blocked_taskrunner.

(* ---- MapReduce (core/mr executeMappers) and fx (walkLimited) worker pools ---- *)

(* cap_never_exceeded: at every step of every schedule, for any number of items and any
   placement of panicking (and, for the MapReduce family, cancelling) mapper / walk functions: workers inside the user function <= live
   worker goroutines <= slots taken (live + the slot the dispatcher may hold in hand) <= n. *)
Theorem cap_never_exceeded_mr : forall n items sched,
  let s := wexec WMr n items sched in
  wrunning s <= wlive s /\ wlive s + whold s = wc s /\ wc s <= n.
Proof. exact (wp_cap_l WMr). Qed.
Print Assumptions cap_never_exceeded_mr.

Theorem cap_never_exceeded_fx : forall n items sched,
  let s := wexec WFx n items sched in
  wrunning s <= wlive s /\ wlive s + whold s = wc s /\ wc s <= n.
Proof. exact (wp_cap_l WFx). Qed.
Print Assumptions cap_never_exceeded_fx.

(* no_leak: once every worker has finished (function returned or panicked, wg.Done, <-pool)
   and the dispatcher holds no slot, all slots are free and the WaitGroup is at zero; a
   panicking user function releases its slot like a returning one (deferred). *)
Theorem no_leak_mr : forall n items sched,
  let s := wexec WMr n items sched in
  (forall tk, In tk (wtasks s) -> wst tk = WDn) -> whold s = 0 -> wc s = 0 /\ wwg s = 0.
Proof. exact (wp_no_leak_l WMr). Qed.
Print Assumptions no_leak_mr.

Theorem no_leak_fx : forall n items sched,
  let s := wexec WFx n items sched in
  (forall tk, In tk (wtasks s) -> wst tk = WDn) -> whold s = 0 -> wc s = 0 /\ wwg s = 0.
Proof. exact (wp_no_leak_l WFx). Qed.
Print Assumptions no_leak_fx.

(* blocked at the cap: the dispatcher cannot take a slot, so no further worker starts *)
Theorem refused_or_blocked_workers : forall s it, wd s = DAcq it -> wc s = wcap s -> wstep s 0 = None.
Proof. exact wp_blocked_l. Qed.
Print Assumptions refused_or_blocked_workers.

(* ---- Pool ---- *)

(* While a create() is in progress (the pool lock is held across the user callback) no other
   Get or Put gets into the critical section and no waiter resumes: the limit check and the
   count update of a creating Get are one atomic section. *)
Theorem pool_lock_excludes : forall s t th o,
  nth_error (pthreads s) t = Some th -> pcur th = Some o -> plocked s = true ->
  ppcof th = PEnter \/ ppcof th = PWaiting -> pstep s t = None.
Proof. exact pool_lock_excludes_l. Qed.
Print Assumptions pool_lock_excludes.

(* pool_exclusive.  Counting: created = idle + held <= limit at every step (a resource being
   created counts as held by the Get that creates it: the count is taken before create() is
   called and create() runs under the pool lock); expired idle resources popped by Get are
   uncounted ([pdrain] decrements [created] per destroyed one); at most one create() is in
   progress at any time, exactly when the lock is held across the callback. *)
Theorem pool_counts : forall n ma scripts sched,
  let s := pexec n ma scripts sched in
  pcreated s = length (pidle s) + pheldcount s /\ pcreated s <= n /\
  pcreating s = (if plocked s then 1 else 0).
Proof. exact pool_counts_l. Qed.
Print Assumptions pool_counts.

(* Identities: every resource id is held by at most one user and never both idle and held
   ([pholders x] sums the occurrences of x over all threads' held lists); a destroyed
   resource is neither idle nor held ever after; ids not yet created are nowhere.
   (Users Put only what they hold: the script op PPut puts back the most recent resource.) *)
Theorem pool_exclusive : forall n ma scripts sched x,
  let s := pexec n ma scripts sched in
  pholders x s + pidle_count x s <= 1 /\
  (In x (pdestroyed s) -> pholders x s = 0 /\ pidle_count x s = 0) /\
  (pnext s <= x -> pholders x s = 0 /\ pidle_count x s = 0).
Proof. exact pool_exclusive_l. Qed.
Print Assumptions pool_exclusive.

(* Expiry.  At every step of every schedule: a resource that a thread gains in that step
   (its held list grows by x) is either freshly created (the next id) or was idle with a
   lastUsed stamp that is NOT expired at that moment (age <= maxAge, or maxAge = 0 = no
   expiry): an expired idle resource is never handed out ... *)
Theorem pool_never_hands_out_expired : forall n ma scripts sched t s' th th' x,
  let s := pexec n ma scripts sched in
  pstep s t = Some s' -> nth_error (pthreads s) t = Some th -> nth_error (pthreads s') t = Some th' ->
  pheld th' = x :: pheld th ->
  (x = pnext s /\ pnext s' = S (pnext s)) \/
  (exists last, In (x, last) (pidle s) /\ ~ (0 < ma /\ last + ma < pclock s)%Z).
Proof. exact pool_never_hands_out_expired_l. Qed.
Print Assumptions pool_never_hands_out_expired.

(* ... and whatever a step destroys was idle and expired at that moment (together with
   [pool_counts] / [pool_exclusive]: destroyed = uncounted and gone for good). *)
Theorem pool_destroys_only_expired : forall n ma scripts sched t s' y,
  let s := pexec n ma scripts sched in
  pstep s t = Some s' -> In y (pdestroyed s') ->
  In y (pdestroyed s) \/ exists last, In (y, last) (pidle s) /\ (0 < ma /\ last + ma < pclock s)%Z.
Proof. exact pool_destroys_only_expired_l. Qed.
Print Assumptions pool_destroys_only_expired.

(* refused_or_blocked: Get at the limit with nothing idle waits (and creates nothing) *)
Theorem blocked_pool : forall s t th,
  nth_error (pthreads s) t = Some th -> pcur th = Some PGet -> ppcof th = PEnter -> plocked s = false ->
  pidle s = [] -> pcreated s = plimit s ->
  exists s', pstep s t = Some s' /\ pcreated s' = pcreated s /\
             nth_error (pthreads s') t = Some (mkPT PWaiting (pscript th) (popi th) (pheld th) (pres th)).
Proof. exact pool_blocked_l. Qed.
Print Assumptions blocked_pool.

(* ---- round 3: admission below the cap, capacity restored, Wait, WorkerGroup, MaxConns ---- *)

(* let in below the cap (dual of refused_or_blocked; together they say that the free
   capacity is exactly n - outstanding permits: "the full capacity is available again" means
   that n further requests WILL be let in).  Any state. *)
Theorem let_in_below_cap_limit : forall s t th o,
  nth_error (lthreads s) t = Some th -> t < length (lthreads s) -> lcur th = Some o -> lc s < lcap s ->
  match lpcof th, o with
  | LIdle, LTry => lstep s t = Some (lacquire s t (ldone th (S (lheld th)) 1))
  | LIdle, LTBorrow _ => lstep s t = Some (lacquire s t (ldone th (S (lheld th)) 1))
  | LIdle, LReq _ => lstep s t = Some (lacquire s t (lgo th LInBody (S (lheld th))))
  | LBorrowing, _ => lstep s t = Some (lacquire s t (ldone th (S (lheld th)) 1))
  | LTWoken, _ => lstep s t = Some (lacquire s t (ldone th (S (lheld th)) 1))
  | _, _ => True
  end.
Proof. exact lim_let_in_l. Qed.
Print Assumptions let_in_below_cap_limit.

Theorem let_in_below_cap_taskrunner : forall s t th o,
  nth_error (rthreads s) t = Some th -> t < length (rthreads s) -> rcur th = Some o -> rc s < rcap s ->
  let spawn := rtasks s ++ [mkTask TSpawned (rpanics o)] in
  match rpcof th, o with
  | RIdle, RSchedNow _ =>
    rstep s t = Some (mkRS (rcap s) (S (rc s)) (S (rwg s)) spawn (upd_nth (rthreads s) t (rdone th 1)))
  | RScheduling, _ =>
    rstep s t = Some (mkRS (rcap s) (S (rc s)) (rwg s) spawn (upd_nth (rthreads s) t (rdone th 1)))
  | _, _ => True
  end.
Proof. exact tr_let_in_l. Qed.
Print Assumptions let_in_below_cap_taskrunner.

Theorem let_in_below_limit_pool : forall s t th,
  nth_error (pthreads s) t = Some th -> pcur th = Some PGet -> ppcof th = PEnter -> plocked s = false ->
  pidle s = [] -> pcreated s < plimit s ->
  exists s', pstep s t = Some s' /\ pcreated s' = S (pcreated s) /\ plocked s' = true /\
             nth_error (pthreads s') t =
             Some (mkPT (PCreating (pnext s)) (pscript th) (popi th) (pnext s :: pheld th) (pres th)).
Proof. exact pool_let_in_l. Qed.
Print Assumptions let_in_below_limit_pool.

(* capacity_restored, history level, NO dynamic hypothesis.  [bal 0 sc = Some 0]: the script
   is statically balanced - walking through it with a counter (Borrow +1, Return needs a
   positive counter and -1, an HTTP request through MaxConnsHandler - whose handler returns OR
   PANICS, [LReq p] for any p - leaves it unchanged) never underflows and ends at 0.  For every
   capacity, every number of such threads, every placement of panicking handlers and every
   schedule: no Return is ever rogue, the outstanding permits are exactly the permits held
   (<= n), and once all scripts have run to their end the limit is empty again. *)
Theorem capacity_restored_limit : forall n scripts sched,
  Forall (fun sc => bal 0 sc = Some 0) scripts ->
  let s := lexec n scripts sched in
  lrogue s = false /\ lholders s = lc s /\ lc s <= n /\
  ((forall th, In th (lthreads s) -> lcur th = None) -> lc s = 0).
Proof. exact lim_capacity_restored_l. Qed.
Print Assumptions capacity_restored_limit.

(* MaxConnsHandler: the `if err := latch.Return(); err != nil` branch of the deferred function
   is dead code - whenever a request is inside the body the limit is not empty *)
Theorem maxconns_return_never_fails : forall n scripts sched t th,
  Forall (Forall is_req) scripts ->
  let s := lexec n scripts sched in
  nth_error (lthreads s) t = Some th -> lpcof th = LInBody -> 0 < lc s.
Proof. exact maxconns_return_never_fails_l. Qed.
Print Assumptions maxconns_return_never_fails.

(* MaxConnsHandler(n <= 0) returns [next] itself ("no limit").  The correspondence models it by
   a limit whose capacity is the number of client threads; this theorem is why that is the
   same thing: with a capacity >= the number of clients no request is ever answered 503. *)
Theorem maxconns_unlimited : forall n scripts sched,
  Forall (Forall is_req) scripts -> length scripts <= n ->
  let s := lexec n scripts sched in
  forall th, In th (lthreads s) -> ~ In 0%Z (lres th).
Proof. exact maxconns_unlimited_l. Qed.
Print Assumptions maxconns_unlimited.

(* ctx_cancel_changes_no_capacity.  A holder's context (the request context of a MaxConns
   request: net/http cancels it when the client goes away) may be cancelled at any moment, by
   anybody, while the handler is inside the guarded region and STAYS inside.  Step level (any
   state): the cancellation is a stutter step for the limit - no permit, no counter, no other
   thread moves; the handler keeps its permit until it returns. *)
Theorem ctx_cancel_changes_no_capacity : forall s t th k,
  nth_error (lthreads s) t = Some th -> t < length (lthreads s) -> lpcof th = LIdle ->
  lcur th = Some (LCancel k) ->
  lstep s t = Some (lkeep s t (ldone th (lheld th) 1)) /\
  let s' := lkeep s t (ldone th (lheld th) 1) in
  lc s' = lc s /\ lcap s' = lcap s /\ lacq s' = lacq s /\ lrel s' = lrel s /\ lrogue s' = lrogue s /\
  lholders s' = lholders s /\ linbody s' = linbody s /\
  (forall u, u <> t -> nth_error (lthreads s') u = nth_error (lthreads s) u).
Proof. exact lim_ctx_cancel_l. Qed.
Print Assumptions ctx_cancel_changes_no_capacity.

(* History level, all schedules: for clients that send requests (handlers return or panic) and
   cancel request contexts in any order, the permits outstanding are exactly the requests whose
   handler has not returned - cancelled or not - and never more than n.  ([is_req] accepts
   [LReq _] and [LCancel _]; maxconns_idle_means_zero, maxconns_return_never_fails,
   maxconns_unlimited and capacity_restored_limit hold for such scripts too.) *)
Theorem ctx_cancel_history : forall n scripts sched,
  Forall (Forall is_req) scripts ->
  let s := lexec n scripts sched in
  lrogue s = false /\ lc s = linbody s /\ linbody s <= n.
Proof. exact lim_ctx_history_l. Qed.
Print Assumptions ctx_cancel_history.

(* TaskRunner.Wait returns only when no slot is taken, no task goroutine is live (spawned,
   running, or in its epilogue - after return or panic) and no Schedule is pending.  The task
   epilogue is two actions in the code's order: <-limitChan, then waitGroup.Done(); it is this
   order that makes "Wait returned" imply "every slot is free" (Pinned.done_first_... refutes
   the other order). *)
Theorem wait_means_idle_taskrunner : forall n scripts sched t th s',
  let s := rexec n scripts sched in
  nth_error (rthreads s) t = Some th -> rpcof th = RWaitingWg -> rstep s t = Some s' ->
  rwg s = 0 /\ rc s = 0 /\ rlive s = 0 /\ rrunning s = 0 /\ rscheduling s = 0 /\ rreleased s = 0.
Proof. exact tr_wait_l. Qed.
Print Assumptions wait_means_idle_taskrunner.

Theorem wait_blocked_taskrunner : forall s t th o,
  nth_error (rthreads s) t = Some th -> t < length (rthreads s) -> rcur th = Some o ->
  rpcof th = RWaitingWg -> rwg s <> 0 -> rstep s t = None.
Proof. exact tr_wait_blocked_l. Qed.
Print Assumptions wait_blocked_taskrunner.

(* ---- WorkerGroup (NewWorkerGroup(job, n).Start()) ---- *)

(* cap_never_exceeded: for every n, every assignment of panics to job invocations and every
   schedule: invocations inside job <= live worker goroutines <= goroutines started = loop
   counter <= n *)
Theorem cap_never_exceeded_workergroup : forall n panics sched,
  let s := gexec n panics sched in
  grunning s <= glive s /\ glive s <= length (gtasks s) /\ length (gtasks s) = gi s /\ gi s <= n.
Proof. exact wg_cap_l. Qed.
Print Assumptions cap_never_exceeded_workergroup.

(* no_leak: Start has returned => exactly n workers were started and every one of them has
   finished (job returned or panicked); the group's WaitGroup is back at zero *)
Theorem no_leak_workergroup : forall n panics sched,
  let s := gexec n panics sched in
  gd s = GDone -> length (gtasks s) = n /\ gwg s = 0 /\ forall tk, In tk (gtasks s) -> wst tk = WDn.
Proof. exact wg_done_l. Qed.
Print Assumptions no_leak_workergroup.

(* refused_or_blocked: after the n-th worker the loop ends (no (n+1)-th is started), and
   Start stays blocked while a worker is still counted *)
Theorem refused_or_blocked_workergroup : forall panics s,
  (gd s = GLoop -> gi s = gn s -> gstep panics s 0 = Some (mkGS (gn s) (gi s) (gwg s) GWait (gtasks s))) /\
  (gd s = GWait -> gwg s <> 0 -> gstep panics s 0 = None).
Proof. intros panics s. split; [exact (wg_no_more_l panics s)|exact (wg_wait_blocked_l panics s)]. Qed.
Print Assumptions refused_or_blocked_workergroup.

(* Pool scripts may contain [PGetX]: a Get whose create(), if it comes to be called, panics
   (F34; the repaired Get counts a resource only after create() returned).  [pool_counts],
   [pool_exclusive], [pool_never_hands_out_expired] and [pool_destroys_only_expired] above are
   stated for ALL scripts, hence for every placement of panicking create() calls and every
   schedule: created = idle + held <= limit is an invariant across them - a panicking create()
   uses up no slot.  Step level: below the limit with nothing idle such a Get ends with the
   panic (result -2) and leaves every count and the lock as they were. *)
Theorem pool_create_panic_counts_nothing : forall s t th,
  nth_error (pthreads s) t = Some th -> pcur th = Some PGetX -> ppcof th = PEnter -> plocked s = false ->
  pidle s = [] -> pcreated s < plimit s ->
  exists s', pstep s t = Some s' /\ pcreated s' = pcreated s /\ pidle s' = [] /\ plocked s' = false /\
             pnext s' = pnext s /\ psig s' = psig s /\
             nth_error (pthreads s') t =
             Some (mkPT PIdle (pscript th) (S (popi th)) (pheld th) (pres th ++ [(-2)%Z])).
Proof. exact pool_create_panic_l. Qed.
Print Assumptions pool_create_panic_counts_nothing.

(* The judgement is not an opaque oracle: whenever [prop_ok1] (Check.v) accepts the log observed
   on the implementation for a worker pool / WorkerGroup case, then after EVERY prefix of that
   log the number of user functions entered and not yet left - counted from the executor's own
   events inside the function - is at most the configured capacity. *)
Theorem monitor_sound_workers : forall c,
  Check.prop_ok1 c = true ->
  match Check.ckind c with
  | Check.KWP _ _ _ jn _ =>
    forall p q, Check.clog c = p ++ q -> (ProofsCheck.inside_after p <= Z.of_nat jn)%Z
  | Check.KWG n _ =>
    forall p q, Check.clog c = p ++ q -> (ProofsCheck.inside_after p <= Z.of_nat n)%Z
  | _ => True
  end.
Proof. exact ProofsCheck.prop_ok_workers_sound. Qed.
Print Assumptions monitor_sound_workers.

(* ... and for Limit / TimeoutLimit / MaxConnsHandler cases (directly, through the rest engine, with
   hijacked connections): an accepted log never has more than n route handlers inside at any prefix. *)
Theorem monitor_sound_limit : forall c n sc,
  Check.ckind c = Check.KLim n sc -> Check.prop_ok1 c = true ->
  forall p q, Check.clog c = p ++ q -> (ProofsCheck.inside_after p <= Z.of_nat n)%Z.
Proof. exact ProofsCheck.prop_ok_lim_sound. Qed.
Print Assumptions monitor_sound_limit.

(* ... and for TaskRunner cases (tasks inside their body) and Pool cases (resources created and not
   destroyed, by the executor's own events inside create() / destroy()). *)
Theorem monitor_sound_taskrunner_pool : forall c,
  Check.prop_ok1 c = true ->
  match Check.ckind c with
  | Check.KTR n _ => forall p q, Check.clog c = p ++ q -> (ProofsCheck.inside_after p <= Z.of_nat n)%Z
  | Check.KPL n _ _ => forall p q, Check.clog c = p ++ q -> (ProofsCheck.live_after p <= Z.of_nat n)%Z
  | _ => True
  end.
Proof. exact ProofsCheck.prop_ok_tr_pl_sound. Qed.
Print Assumptions monitor_sound_taskrunner_pool.

(* ------------------------------------------------------------------ *)
(* non-vacuity *)

(* n = 1: thread 0 holds, thread 1 is blocked in Borrow, thread 2's TryBorrow is refused;
   after the Return thread 1 gets the permit and returns it; its second, extra Return finds
   the limit empty and is reported (result 0); nobody was robbed: lrogue = false *)
Example ex_limit :
  let s := lexec 1 [[LBorrow; LReturn]; [LBorrow; LReturn; LReturn]; [LTry]] [0;0; 1; 2; 1; 0; 1; 1;1; 1] in
  (map lres (lthreads s), lc s, lrogue s, lholders s) = ([[1;1]; [1;1;0]; [0]]%Z, 0, false, 0).
Proof. vm_compute. reflexivity. Qed.

(* MaxConns n = 1: the first handler panics inside the body, the second request is refused
   while it is inside, a third one gets in afterwards: the permit came back *)
Example ex_maxconns :
  let s := lexec 1 [[LReq true]; [LReq false]; [LReq false]] [0; 1; 0; 2; 2] in
  (map lres (lthreads s), lc s) = ([[3]; [0]; [1]]%Z, 0).
Proof. vm_compute. reflexivity. Qed.

(* TimeoutLimit n = 1: waiter 1 is woken by the Return's signal, waiter 2 times out (timer
   pseudo-thread 3 + 2 = 5) *)
Example ex_timeout :
  let s := lexec 1 [[LTBorrow false; LTReturn]; [LTBorrow false]; [LTBorrow false]] [0; 1; 2; 5; 0; 0; 1; 1] in
  (map lres (lthreads s), lc s) = ([[1;1]; [1]; [2]]%Z, 1).
Proof. vm_compute. reflexivity. Qed.

(* TaskRunner n = 1: second Schedule blocks until task 0 (which panics) ends; ScheduleImmediately is refused *)
Example ex_taskrunner :
  let s := rexec 1 [[RSched true; RSchedNow false]; [RSched false]] [0;0; 2; 0; 1;1; 2;2; 1; 3;3;3] in
  (map rres (rthreads s), rc s, rwg s, map tst (rtasks s)) = ([[1;0]; [1]]%Z, 0, 0, [TDone; TDone]).
Proof. vm_compute. reflexivity. Qed.

(* Pool limit 1, max-age 100: resource 0 is put back, expires, is destroyed and replaced by 1 *)
Example ex_pool :
  let s := pexec 1 100 [[PGet; PPut; PAdv 500; PGet]] [0;0;0; 0;0; 0; 0;0;0] in
  (map pres (pthreads s), pcreated s, pdestroyed s, map pheld (pthreads s)) = ([[0;-1;-1;1]]%Z, 1, [0], [[1]]).
Proof. vm_compute. reflexivity. Qed.

(* Pool limit 2: thread 0 is inside create() holding the lock; threads 1 and 2 have invoked
   Get and cannot enter although capacity is left *)
Example ex_pool_create_excludes :
  let s := pexec 2 0 [[PGet]; [PGet]; [PGet]] [0;0; 1; 2; 1; 2] in
  (map ppcof (pthreads s), plocked s, pcreated s, pcreating s) =
  ([PCreating 0; PEnter; PEnter], true, 1, 1).
Proof. vm_compute. reflexivity. Qed.

(* mr, 2 workers, 4 items, the mapper panics on item 1: its slot comes back, one more item is
   dispatched by the dispatcher that was already waiting for a slot, then it stops (failed) *)
Example ex_mr_panic :
  let s := wexec WMr 2 (bp [false; true; false; false])
                 [0;0;0;0;0; 0;0;0;0; 0; 1; 2; 2;2; 0;0;0; 0; 3; 1;1; 3;3; 0] in
  (map wst (wtasks s), wc s, wwg s, wfailed s, wd s, witems s) =
  ([WDn; WDn; WDn], 0, 0, true, DDone, bp [false]).
Proof. vm_compute. reflexivity. Qed.

(* fx, 1 worker: the panicking walk function does not leak the slot, all 3 items run *)
Example ex_fx_panic :
  let s := wexec WFx 1 (bp [true; false; false])
                 [0;0;0;0; 1;1;1;1; 0;0;0;0; 2;2;2;2; 0;0;0;0; 3;3;3;3; 0;0;0] in
  (map wst (wtasks s), wc s, wwg s, wd s) = ([WDn; WDn; WDn], 0, 0, DDone).
Proof. vm_compute. reflexivity. Qed.

(* balanced scripts are not rare: Borrow ... Return, requests with panicking handlers, nested *)
Example ex_balanced :
  map (bal 0) [[LBorrow; LReturn]; [LReq true; LBorrow; LBorrow; LReq false; LReturn; LReturn]; [LReturn]; [LTry; LReturn]]
  = [Some 0; Some 0; None; None].
Proof. vm_compute. reflexivity. Qed.

(* ... and the conclusion of capacity_restored_limit is reached: n = 1, three such threads, the
   panicking request holds the only permit while the Borrow of thread 0 waits *)
Example ex_capacity_restored :
  let s := lexec 1 [[LBorrow; LReturn]; [LReq true]; [LReq false; LBorrow; LReturn]]
                 [1; 0; 2; 1; 0; 0; 2; 2; 2] in
  (map lres (lthreads s), lc s, lrogue s, map lcur (lthreads s)) =
  ([[1; 1]; [3]; [0; 1; 1]]%Z, 0, false, [None; None; None]).
Proof. vm_compute. reflexivity. Qed.

(* Return without Borrow, four times, then the capacity is still exactly 2 *)
Example ex_over_return_repeated :
  let s := lexec 2 [[LReturn; LReturn; LReturn; LReturn; LTry; LTry; LTry]] [0;0;0;0;0;0;0] in
  (map lres (lthreads s), lc s) = ([[0; 0; 0; 0; 1; 1; 0]]%Z, 2).
Proof. vm_compute. reflexivity. Qed.

(* TaskRunner n = 1: Wait (thread 1) is blocked while task 0 (which panics) is live and stays
   blocked while thread 0's second Schedule is pending/running; it returns after task 1 ended *)
Example ex_wait :
  let s := rexec 1 [[RSched true; RSched false]; [RWait]] [0;0; 1;1; 2; 0;0; 1; 2;2; 0; 1; 3;3;3; 1] in
  (map rres (rthreads s), rc s, rwg s, map tst (rtasks s)) = ([[1;1]; [1]]%Z, 0, 0, [TDone; TDone]).
Proof. vm_compute. reflexivity. Qed.

Example ex_wait_blocked :
  let s := rexec 1 [[RSched true; RSched false]; [RWait]] [0;0; 1;1; 2; 0;0; 1; 2;2; 0; 1] in
  (map rpcof (rthreads s), rwg s) = ([RIdle; RWaitingWg], 1).
Proof. vm_compute. reflexivity. Qed.

(* WorkerGroup of 3, the second invocation panics: Start returns after all three have ended *)
Example ex_workergroup :
  let p := fun k => Nat.eqb k 1 in
  let s1 := gexec 3 p [0;0;0;0;0; 1;2;3; 0; 1;2] in
  let s2 := gexec 3 p [0;0;0;0;0; 1;2;3; 0; 1;2; 0; 3; 0] in
  (gd s1, grunning s1, gwg s1, gd s2, map wst (gtasks s2), gwg s2) =
  (GWait, 1, 1, GDone, [WDn; WDn; WDn], 0).
Proof. vm_compute. reflexivity. Qed.

(* MaxConns "no limit": 3 clients, capacity 3: all inside at once, nobody refused *)
Example ex_maxconns_unlimited :
  let s := lexec 3 [[LReq false]; [LReq true]; [LReq false]] [0; 1; 2] in
  (linbody s, map lres (lthreads s)) = (3, [[]; []; []]).
Proof. vm_compute. reflexivity. Qed.

(* n = 1: the client of the request inside goes away (thread 1 cancels thread 0's context); the
   handler stays inside, the probe that follows is refused; after the handler returned a request
   gets in *)
Example ex_ctx_cancel :
  let s1 := lexec 1 [[LReq false]; [LCancel 0; LReq false; LReq false]] [0; 1; 1] in
  let s2 := lexec 1 [[LReq false]; [LCancel 0; LReq false; LReq false]] [0; 1; 1; 0; 1] in
  (linbody s1, lc s1, map lres (lthreads s1), linbody s2, map lres (lthreads s2)) =
  (1, 1, [[]; [1; 0]]%Z, 1, [[1]; [1; 0]]%Z).
Proof. vm_compute. reflexivity. Qed.

(* limit 1: two Gets whose create() panics, then a Get gets the resource all the same *)
Example ex_pool_create_panic :
  let s := pexec 1 0 [[PGetX; PGetX; PGet]] [0;0; 0;0; 0;0;0] in
  (map pres (pthreads s), pcreated s, map pheld (pthreads s)) = ([[-2; -2; 0]]%Z, 1, [[0]]).
Proof. vm_compute. reflexivity. Qed.
