(* C05 — buggy variants of the LTS, each refuted by a concrete schedule evaluated with
   vm_compute (model-level counterparts of mutations of the self-test, notes/C05.md). *)
From Coq Require Import List ZArith Bool Arith.
From GZ Require Import Lib.Sched C05.Model.
Import ListNotations.

(* (a) TaskRunner that frees the slot before the task body runs (`<-limitChan` moved in
   front of `task()`): the task goroutine releases at start; at the end only wg.Done. *)
Definition early_release_rstep (s : rstate) (x : nat) : option rstate :=
  let N := length (rthreads s) in
  if Nat.ltb x N then rstep s x
  else
    let k := x - N in
    match nth_error (rtasks s) k with
    | Some tk =>
      match tst tk with
      | TSpawned => Some (mkRS (rcap s) (pred (rc s)) (rwg s) (upd_nth (rtasks s) k (mkTask TRunning (tpanics tk))) (rthreads s))
      | TRunning => Some (mkRS (rcap s) (rc s) (pred (rwg s)) (upd_nth (rtasks s) k (mkTask TDone (tpanics tk))) (rthreads s))
      | _ => None
      end
    | None => None
    end.

(* n = 1, two Schedules: the second is let in while the first task is still in its body *)
Theorem early_release_cap_exceeded_refuted :
  exists n scripts sched, n < rrunning (run early_release_rstep (rinit n scripts) sched).
Proof.
  exists 1, [[RSched false]; [RSched false]], [0;0; 2; 1;1; 3].
  vm_compute. apply le_n.
Qed.

Example real_taskrunner_blocks :
  let s := rexec 1 [[RSched false]; [RSched false]] [0;0; 2; 1;1; 3] in
  (rrunning s, map rpcof (rthreads s)) = (1, [RIdle; RScheduling]).
Proof. vm_compute. reflexivity. Qed.

(* (b) Pool that does not uncount an expired resource it destroys (no `p.created--`). *)
Fixpoint leaky_pdrain (maxage now : Z) (idle : list (nat * Z)) (created : nat) (destroyed : list nat)
  : option nat * list (nat * Z) * nat * list nat :=
  match idle with
  | [] => (None, [], created, destroyed)
  | (x, last) :: rest =>
    if expired maxage now last then leaky_pdrain maxage now rest created (destroyed ++ [x])
    else (Some x, rest, created, destroyed)
  end.

Definition leaky_pget (s : pstate) (t : nat) (th : pthread) (sig : nat) : pstate :=
  let '(got, idle', created', destroyed') := leaky_pdrain (pmaxage s) (pclock s) (pidle s) (pcreated s) (pdestroyed s) in
  match got with
  | Some x =>
    mkPS (plimit s) (pmaxage s) created' idle' (pclock s) (pnext s) sig destroyed'
         (upd_nth (pthreads s) t (mkPT PIdle (pscript th) (S (popi th)) (x :: pheld th) (pres th ++ [Z.of_nat x])))
         false
  | None =>
    if Nat.ltb created' (plimit s) then
      mkPS (plimit s) (pmaxage s) (S created') idle' (pclock s) (S (pnext s)) sig destroyed'
           (upd_nth (pthreads s) t (mkPT (PCreating (pnext s)) (pscript th) (popi th) (pnext s :: pheld th) (pres th)))
           true
    else
      mkPS (plimit s) (pmaxage s) created' idle' (pclock s) (pnext s) sig destroyed'
           (upd_nth (pthreads s) t (mkPT PWaiting (pscript th) (popi th) (pheld th) (pres th)))
           false
  end.

Definition leaky_pstep (s : pstate) (t : nat) : option pstate :=
  match nth_error (pthreads s) t with
  | Some th =>
    match pcur th, ppcof th with
    | Some PGet, PEnter => if plocked s then None else Some (leaky_pget s t th (psig s))
    | Some _, PWaiting =>
      if plocked s then None else
      if Nat.ltb 0 (psig s) then Some (leaky_pget s t th (pred (psig s))) else None
    | _, _ => pstep s t
    end
  | None => None
  end.

(* limit 1, max-age 100: the only resource is put back, expires and is destroyed by the next
   Get, but stays counted: nothing is idle, nothing is held, nothing can be created — the
   caller waits for ever; capacity leaked (created = 1 <> 0 + 0) *)
Theorem leaky_expiry_leak_refuted :
  exists n ma scripts sched,
    let s := run leaky_pstep (pinit n ma scripts) sched in
    pcreated s <> length (pidle s) + pheldcount s /\
    pidle s = [] /\ pheldcount s = 0 /\ map ppcof (pthreads s) = [PWaiting] /\ pdestroyed s = [0].
Proof.
  exists 1, 100%Z, [[PGet; PPut; PAdv 500; PGet]], [0;0;0; 0;0; 0; 0;0].
  vm_compute. repeat split; auto. discriminate.
Qed.

Example real_pool_recreates :
  let s := pexec 1 100 [[PGet; PPut; PAdv 500; PGet]] [0;0;0; 0;0; 0; 0;0;0] in
  (pcreated s, map pheld (pthreads s), pdestroyed s) = (1, [[1]], [0]).
Proof. vm_compute. reflexivity. Qed.

(* (c) Pool.Get that calls create() after RELEASING the lock and counts the new resource only
   afterwards: the limit check and the increment are not atomic. *)
Definition unlocked_create_pget (s : pstate) (t : nat) (th : pthread) (sig : nat) : pstate :=
  let '(got, idle', created', destroyed') := pdrain (pmaxage s) (pclock s) (pidle s) (pcreated s) (pdestroyed s) in
  match got with
  | Some x =>
    mkPS (plimit s) (pmaxage s) created' idle' (pclock s) (pnext s) sig destroyed'
         (upd_nth (pthreads s) t (mkPT PIdle (pscript th) (S (popi th)) (x :: pheld th) (pres th ++ [Z.of_nat x])))
         false
  | None =>
    if Nat.ltb created' (plimit s) then   (* let in; lock released; created not yet counted *)
      mkPS (plimit s) (pmaxage s) created' idle' (pclock s) (S (pnext s)) sig destroyed'
           (upd_nth (pthreads s) t (mkPT (PCreating (pnext s)) (pscript th) (popi th) (pnext s :: pheld th) (pres th)))
           false
    else
      mkPS (plimit s) (pmaxage s) created' idle' (pclock s) (pnext s) sig destroyed'
           (upd_nth (pthreads s) t (mkPT PWaiting (pscript th) (popi th) (pheld th) (pres th)))
           false
  end.

Definition unlocked_create_pstep (s : pstate) (t : nat) : option pstate :=
  match nth_error (pthreads s) t with
  | Some th =>
    match pcur th, ppcof th with
    | Some PGet, PEnter => Some (unlocked_create_pget s t th (psig s))
    | Some _, PCreating x =>      (* create() returned: now count it *)
      Some (mkPS (plimit s) (pmaxage s) (S (pcreated s)) (pidle s) (pclock s) (pnext s) (psig s) (pdestroyed s)
                 (upd_nth (pthreads s) t (mkPT PIdle (pscript th) (S (popi th)) (pheld th) (pres th ++ [Z.of_nat x])))
                 false)
    | _, _ => pstep s t
    end
  | None => None
  end.

(* limit 1: three Gets overlap the first create(): all are let in, three resources exist *)
Theorem unlocked_create_limit_exceeded_refuted :
  exists n scripts sched,
    let s := run unlocked_create_pstep (pinit n 0 scripts) sched in
    n < pcreated s /\ n < pheldcount s.
Proof.
  exists 1, [[PGet]; [PGet]; [PGet]], [0;0; 1;1; 2;2; 0; 1; 2].
  vm_compute. split; repeat constructor.
Qed.

Example real_pool_excludes_during_create :
  let s := pexec 1 0 [[PGet]; [PGet]; [PGet]] [0;0; 1;1; 2;2; 0; 1; 2] in
  (pcreated s, map ppcof (pthreads s)) = (1, [PIdle; PWaiting; PWaiting]).
Proof. vm_compute. reflexivity. Qed.

(* (d) TaskRunner whose task goroutine gives the slot back by a plain statement after task()
   (only wg.Done is deferred): a panicking task keeps its slot for ever (seeded change C05-2). *)
Definition no_release_on_panic_rstep (s : rstate) (x : nat) : option rstate :=
  let N := length (rthreads s) in
  if Nat.ltb x N then rstep s x
  else
    let k := x - N in
    match nth_error (rtasks s) k with
    | Some tk =>
      match tst tk with
      | TRunning =>
        Some (mkRS (rcap s) (if tpanics tk then rc s else pred (rc s)) (pred (rwg s))
                   (upd_nth (rtasks s) k (mkTask TDone (tpanics tk))) (rthreads s))
      | _ => rstep s x
      end
    | None => None
    end.

(* n = 1: the only task panics and ends; nothing is live, Wait would return (wg = 0), yet the
   slot is still taken and ScheduleImmediately on the idle runner answers Busy (result 0) *)
Theorem no_release_on_panic_leak_refuted :
  exists n scripts sched,
    let s := run no_release_on_panic_rstep (rinit n scripts) sched in
    (forall tk, In tk (rtasks s) -> tst tk = TDone) /\ rwg s = 0 /\ rc s = n /\ 0 < n /\
    map rres (rthreads s) = [[1; 0]%Z].
Proof.
  exists 1, [[RSched true; RSchedNow false]], [0;0; 1;1; 0].
  vm_compute. repeat split; auto. intros tk [<-|[]]. reflexivity.
Qed.

Example real_taskrunner_releases_on_panic :
  let s0 := rexec 1 [[RSched true; RSchedNow false]] [0;0; 1;1;1] in
  let s := rexec 1 [[RSched true; RSchedNow false]] [0;0; 1;1;1; 0] in
  (rc s0, rc s, map rres (rthreads s), map tst (rtasks s)) = (0, 1, [[1; 1]%Z], [TDone; TSpawned]).
Proof. vm_compute. reflexivity. Qed.

(* (e) WorkerGroup.Start with the loop bound off by one (`i <= workers`) *)
Definition one_more_gstep (panics : nat -> bool) (s : gstate) (x : nat) : option gstate :=
  match x, gd s with
  | O, GLoop =>
    if Nat.leb (gi s) (gn s)
    then Some (mkGS (gn s) (S (gi s)) (S (gwg s)) GLoop (gtasks s ++ [mkWT WSp (if panics (gi s) then BPanic else BRet)]))
    else Some (mkGS (gn s) (gi s) (gwg s) GWait (gtasks s))
  | _, _ => gstep panics s x
  end.

Theorem one_more_worker_cap_exceeded_refuted :
  exists n sched, n < grunning (run (one_more_gstep (fun _ => false)) (ginit n) sched).
Proof. exists 2, [0;0;0;0;0; 1;2;3]. vm_compute. repeat constructor. Qed.

Example real_workergroup_stops_at_n :
  let s := gexec 2 (fun _ => false) [0;0;0;0;0; 1;2;3] in (grunning s, length (gtasks s), gd s) = (2, 2, GWait).
Proof. vm_compute. reflexivity. Qed.

(* (f) fx worker whose `<-pool` is not deferred: a panicking walk function keeps its slot *)
Definition fx_no_release_on_panic_wstep (s : wstate) (x : nat) : option wstate :=
  match x with
  | S k =>
    match nth_error (wtasks s) k with
    | Some tk =>
      match wst tk, wpanics tk with
      | WRun, true =>   (* wg.Done() runs (deferred), the slot is not given back *)
        Some (mkWS (wvar s) (wcap s) (wc s) (pred (wwg s)) (witems s) (wfailed s) (wd s)
                   (upd_nth (wtasks s) k (mkWT WDn BPanic)))
      | _, _ => wstep s x
      end
    | None => None
    end
  | O => wstep s x
  end.

(* 1 worker, items [panic; ok]: after the first item no worker is live, the slot is still
   taken and the dispatcher is blocked for ever with the second item in hand *)
Theorem fx_no_release_on_panic_leak_refuted :
  exists n items sched,
    let s := run fx_no_release_on_panic_wstep (winit WFx n (bp items)) sched in
    wlive s = 0 /\ wc s = n /\ 0 < n /\ wd s = DAcq (Some BRet) /\ fx_no_release_on_panic_wstep s 0 = None.
Proof.
  exists 1, [true; false], [0;0;0;0; 1;1; 0;0].
  vm_compute. repeat split; auto.
Qed.

Example real_fx_releases_on_panic :
  let s := wexec WFx 1 (bp [true; false]) [0;0;0;0; 1;1;1; 0;0;0;0; 2;2;2; 0;0;0] in
  (map wst (wtasks s), wc s, wd s) = ([WDn; WDn], 0, DDone).
Proof. vm_compute. reflexivity. Qed.

(* (g) MaxConnsHandler that ALSO gives its permit back when the request context is cancelled
   (context.AfterFunc(r.Context(), release), a sync.Once against the deferred release; seeded
   change C05-5): the cancellation of thread k's context frees k's permit while k's handler is
   still inside; the deferred release then finds the Once spent. *)
Definition release_on_cancel_lstep (s : lstate) (x : nat) : option lstate :=
  match nth_error (lthreads s) x with
  | Some th =>
    match lpcof th, lcur th with
    | LIdle, Some (LCancel k) =>
      let s1 := lkeep s x (ldone th (lheld th) 1) in
      match nth_error (lthreads s1) k with
      | Some tk =>
        match lpcof tk, lheld tk with
        | LInBody, S h =>     (* AfterFunc: release(); the handler goes on *)
          Some (mkLS (lcap s1) (pred (lc s1)) (lsig s1) (lacq s1) (S (lrel s1)) (lrogue s1)
                     (upd_nth (lthreads s1) k (lgo tk LInBody h)))
        | _, _ => Some s1
        end
      | None => Some s1
      end
    | LInBody, Some o =>
      match lheld th with
      | 0 =>                  (* the Once is spent: the deferred release does nothing *)
        Some (lkeep s x (ldone th 0 (match o with LReq true => 3%Z | _ => 1%Z end)))
      | _ => lstep s x
      end
    | _, _ => lstep s x
    end
  | None => lstep s x
  end.

(* capacity n, n holders inside, their contexts cancelled, they stay parked inside; one more
   request is let in: n + 1 handlers inside the guarded region *)
Theorem release_on_cancel_cap_exceeded_refuted :
  exists n scripts sched,
    0 < n /\ n < linbody (run release_on_cancel_lstep (linit n scripts) sched).
Proof.
  exists 2, [[LReq false]; [LReq false]; [LCancel 0; LCancel 1; LReq false]], [0; 1; 2; 2; 2].
  vm_compute. split; repeat constructor.
Qed.

Example real_maxconns_keeps_permit_after_cancel :
  let s := lexec 2 [[LReq false]; [LReq false]; [LCancel 0; LCancel 1; LReq false]] [0; 1; 2; 2; 2] in
  (linbody s, lc s, map lres (lthreads s)) = (2, 2, [[]; []; [1; 1; 0]]%Z).
Proof. vm_compute. reflexivity. Qed.

(* (h) fx Walk that skips the worker pool when the source LOOKS pre-filled - a buffered source
   that is exactly full, with no more items than workers, at the moment the stage is attached
   (seeded change C05-7).  A full channel need not be closed: an open Buffer(k) / caller's
   channel keeps delivering, and the stage runs as walkUnlimited = one slot per item, whatever
   WithWorkers(n) said.  The shape of the source does not enter the worker-pool LTS; the
   variant is the LTS started with the wrong capacity. *)
Definition prefilled_wexec (full_at_attach : bool) (n : nat) (items : list wbeh) (sched : list nat) : wstate :=
  run wstep (winit WFx (if full_at_attach then length items else n) items) sched.

(* WithWorkers(2), the source holds 2 items when Walk is attached and 4 more arrive while the
   walk function is parked: 6 invocations inside at once *)
Theorem prefilled_source_cap_exceeded_refuted :
  exists n items sched, 0 < n /\ n < wrunning (prefilled_wexec true n items sched).
Proof.
  exists 2, (bp [false; false; false; false; false; false]),
         [0; 0;0;0; 1; 0;0;0; 2; 0;0;0; 3; 0;0;0; 4; 0;0;0; 5; 0;0;0; 6].
  vm_compute. split; repeat constructor.
Qed.

Example real_fx_ignores_source_shape :
  let s := prefilled_wexec false 2 (bp [false; false; false; false; false; false])
             [0; 0;0;0; 1; 0;0;0; 2; 0;0;0; 3; 0;0;0; 4; 0;0;0; 5; 0;0;0; 6] in
  (wrunning s, wc s, wd s) = (2, 2, DAcq (Some BRet)).
Proof. vm_compute. reflexivity. Qed.

(* (i) Pool.Get that counts the resource BEFORE calling create() and never uncounts it when
   create() panics (the code before F34 / e2cd8c7). *)
Definition count_first_pget (s : pstate) (t : nat) (th : pthread) (sig : nat) (cp : bool) : pstate :=
  let s' := pget s t th sig cp in
  if cp && negb (Nat.eqb (length (pres (nth t (pthreads s') th))) (length (pres th)))
        && (Z.eqb (last (pres (nth t (pthreads s') th)) 0%Z) (-2)%Z)
  then mkPS (plimit s') (pmaxage s') (S (pcreated s')) (pidle s') (pclock s') (pnext s') (psig s')
            (pdestroyed s') (pthreads s') (plocked s')
  else s'.

Definition count_first_pstep (s : pstate) (t : nat) : option pstate :=
  match nth_error (pthreads s) t with
  | Some th =>
    match pcur th, ppcof th with
    | Some PGetX, PEnter => if plocked s then None else Some (count_first_pget s t th (psig s) true)
    | _, _ => pstep s t
    end
  | None => None
  end.

(* limit 1: the create() of the first Get panics; nothing is idle, nothing is held, yet the
   slot is counted and the next Get waits for ever *)
Theorem count_first_create_panic_leak_refuted :
  exists n scripts sched,
    let s := run count_first_pstep (pinit n 0 scripts) sched in
    pcreated s <> length (pidle s) + pheldcount s /\ pidle s = [] /\ pheldcount s = 0 /\
    map ppcof (pthreads s) = [PWaiting] /\ map pres (pthreads s) = [[(-2)%Z]].
Proof.
  exists 1, [[PGetX; PGet]], [0;0; 0;0].
  vm_compute. repeat split; auto. discriminate.
Qed.

Example real_pool_create_panic_keeps_slot :
  let s := pexec 1 0 [[PGetX; PGet]] [0;0; 0;0;0] in
  (pcreated s, map pres (pthreads s), map pheld (pthreads s)) = (1, [[-2; 0]]%Z, [[0]]).
Proof. vm_compute. reflexivity. Qed.

(* (j) TaskRunner whose task epilogue runs in the other order: waitGroup.Done() first, then
   <-limitChan (class "order of deferred epilogues"). *)
Definition done_first_rstep (s : rstate) (x : nat) : option rstate :=
  let N := length (rthreads s) in
  if Nat.ltb x N then rstep s x
  else
    let k := x - N in
    match nth_error (rtasks s) k with
    | Some tk =>
      match tst tk with
      | TRunning =>
        Some (mkRS (rcap s) (rc s) (pred (rwg s)) (upd_nth (rtasks s) k (mkTask TReleased (tpanics tk))) (rthreads s))
      | TReleased =>
        Some (mkRS (rcap s) (pred (rc s)) (rwg s) (upd_nth (rtasks s) k (mkTask TDone (tpanics tk))) (rthreads s))
      | _ => rstep s x
      end
    | None => None
    end.

(* n = 1: the task is between its two epilogue steps; Wait returns (result 1) although the slot
   is still taken, and the ScheduleImmediately that follows on the "idle" runner is refused *)
Theorem done_first_wait_not_idle_refuted :
  exists n scripts sched,
    let s := run done_first_rstep (rinit n scripts) sched in
    map rres (rthreads s) = [[1; 1; 0]%Z] /\ rc s = n /\ 0 < n.
Proof.
  exists 1, [[RSched true; RWait; RSchedNow false]], [0;0; 1;1; 0;0; 0].
  vm_compute. repeat split; auto.
Qed.

(* the real order: in the same schedule Wait stays blocked between the two steps *)
Example real_taskrunner_wait_after_release :
  let s := rexec 1 [[RSched true; RWait; RSchedNow false]] [0;0; 1;1; 0;0; 0] in
  (map rres (rthreads s), map rpcof (rthreads s), rc s, rwg s) = ([[1]%Z], [RWaitingWg], 0, 1).
Proof. vm_compute. reflexivity. Qed.

(* (k) MaxConnsHandler that keeps the permit of a request whose handler took the connection over
   (http.Hijacker) until that connection is closed, and whose wrapped connection gives the permit
   back on EVERY Close() - no sync.Once (seeded change C05-3).  [hij t]: the requests of thread t
   hijack.  In the vocabulary of the model, Close() of the connection hijacked by thread k is the
   environment event [LCancel k] (on the real code neither a cancelled context nor a closed
   connection touches the limit). *)
Definition close_releases_lstep (hij : nat -> bool) (s : lstate) (x : nat) : option lstate :=
  match nth_error (lthreads s) x with
  | Some th =>
    match lpcof th, lcur th with
    | LInBody, Some o =>
      if hij x then    (* hijacked: the deferred release is skipped, the connection owns the permit *)
        Some (lkeep s x (ldone th (lheld th) (match o with LReq true => 3%Z | _ => 1%Z end)))
      else lstep s x
    | LIdle, Some (LCancel k) =>
      if hij k && Nat.ltb 0 (lc s) then   (* Close(): latch.Return() succeeds whenever a permit is out - anybody's *)
        Some (mkLS (lcap s) (pred (lc s)) (lsig s) (lacq s) (S (lrel s)) (lrogue s)
                   (upd_nth (lthreads s) x (ldone th (lheld th) 1)))
      else lstep s x
    | _, _ => lstep s x
    end
  | None => lstep s x
  end.

(* n = 1: thread 0's handler hijacks and returns, the connection is closed (permit back), thread 1
   enters, the connection is closed AGAIN (thread 1's permit is popped), thread 2 is let in: two
   handlers inside *)
Theorem close_releases_cap_exceeded_refuted :
  exists n scripts sched,
    0 < n /\ n < linbody (run (close_releases_lstep (Nat.eqb 0)) (linit n scripts) sched).
Proof.
  exists 1, [[LReq false; LCancel 0; LCancel 0]; [LReq false]; [LReq false]], [0; 0; 0; 1; 0; 2].
  vm_compute. split; repeat constructor.
Qed.

Example real_maxconns_ignores_conn_close :
  let s := lexec 1 [[LReq false; LCancel 0; LCancel 0]; [LReq false]; [LReq false]] [0; 0; 0; 1; 0; 2] in
  (linbody s, lc s, map lres (lthreads s)) = (1, 1, [[1; 1; 1]; []; [0]]%Z).
Proof. vm_compute. reflexivity. Qed.

(* (l) Pool.Put that first evicts the stale idle resources - from the first stale node of the idle
   stack downwards: destroy, created-- - but cuts the list only BELOW a fresh node: when the top
   of the stack is itself stale the destroyed nodes stay linked (seeded change C05-4).  A later Get
   pops such a zombie as "expired" and un-counts it a second time. *)
Fixpoint stale_from (maxage now : Z) (idle : list (nat * Z)) : nat :=
  match idle with
  | [] => 0
  | (x, last) :: rest => if expired maxage now last then 0 else S (stale_from maxage now rest)
  end.

Definition evict_stale_pstep (s : pstate) (t : nat) : option pstate :=
  match nth_error (pthreads s) t with
  | Some th =>
    match ppcof th, pcur th, pheld th with
    | PEnter, Some PPut, x :: rest =>
      if plocked s then None else
      let i := stale_from (pmaxage s) (pclock s) (pidle s) in
      let stale := skipn i (pidle s) in
      let idle' := match i with 0 => pidle s | _ => firstn i (pidle s) end in   (* prev == nil: not cut *)
      let sig' := if Nat.ltb (psig s) (pwaiting s) then S (psig s) else psig s in
      Some (mkPS (plimit s) (pmaxage s) (pcreated s - length stale) ((x, pclock s) :: idle') (pclock s) (pnext s)
                 sig' (pdestroyed s ++ map fst stale)
                 (upd_nth (pthreads s) t (mkPT PIdle (pscript th) (S (popi th)) rest (pres th ++ [(-1)%Z]))) false)
    | _, _, _ => pstep s t
    end
  | None => pstep s t
  end.

(* limit 2, max-age 100: two resources taken, one returned, 500 later the other one is returned
   while the idle one is stale; three Gets follow and all three are served: 3 resources held *)
Theorem evict_stale_limit_exceeded_refuted :
  exists n maxage scripts sched,
    let s := run evict_stale_pstep (pinit n maxage scripts) sched in
    0 < n /\ n < pheldcount s.
Proof.
  exists 2, 100%Z, [[PGet; PGet; PPut; PAdv 500; PPut; PGet; PGet; PGet]], (repeat 0 24).
  vm_compute. split; repeat constructor.
Qed.

Example real_pool_put_evicts_nothing :
  let s := pexec 2 100 [[PGet; PGet; PPut; PAdv 500; PPut; PGet; PGet; PGet]] (repeat 0 24) in
  (pheldcount s, pcreated s, map ppcof (pthreads s), pdestroyed s) = (2, 2, [PWaiting], [1]).
Proof. vm_compute. reflexivity. Qed.

(* (m) a caller that instantiates the latch more than once for ONE route: rest/engine.go assembling
   the middleware chain of a route on its first request, without holding the lock, each racing
   first request keeping the chain - and so the latch - it built itself (seeded change C05-9).  The
   route's guarded region is then the union of the regions of k independent latches of capacity n. *)
Definition route_inbody (latches : list lstate) : nat := sumf linbody latches.

Theorem latch_per_first_request_cap_exceeded_refuted :
  exists n k, 0 < n /\ n < route_inbody (map (fun _ => lexec n [[LReq false]] [0]) (seq 0 k)).
Proof. exists 1, 3. vm_compute. split; repeat constructor. Qed.

(* the engine binds ONE chain per route before the first request: the same three first requests
   meet one latch, one is inside, two are refused *)
Example real_engine_one_latch_per_route :
  let s := lexec 1 [[LReq false]; [LReq false]; [LReq false]] [0; 1; 2] in
  (route_inbody [s], map lres (lthreads s)) = (1, [[]; [0]; [0]]%Z).
Proof. vm_compute. reflexivity. Qed.

(* (n) Pool.Put that first looks for its argument on the idle stack with Go's `==` and, on a hit,
   returns without stacking it ("put back twice"; seeded change C05-10).  `==` on interface values
   is VALUE equality: two DISTINCT resources - the k-th and the l-th call of create() - whose
   values are equal (struct values, strings, ints, struct{}{}, one shared pointer) are taken for
   one.  [val k] = the value of the k-th creation.  The model (Model.v) tracks resources by the
   creation index only - it has no values at all -, so every theorem of Props.v about the pool
   (pool_counts, pool_exclusive, let_in_below_limit_pool, ...) holds for ARBITRARY, possibly equal,
   values; the variant below is what a pool looks like that lets values in. *)
Definition dedup_put_pstep (val : nat -> nat) (s : pstate) (t : nat) : option pstate :=
  match nth_error (pthreads s) t with
  | Some th =>
    match ppcof th, pcur th, pheld th with
    | PEnter, Some PPut, x :: rest =>
      if plocked s then None else
      if existsb (fun p => Nat.eqb (val (fst p)) (val x)) (pidle s) then
        (* "already pooled": not stacked, nobody signalled, created unchanged - the slot is gone *)
        Some (mkPS (plimit s) (pmaxage s) (pcreated s) (pidle s) (pclock s) (pnext s) (psig s) (pdestroyed s)
                   (upd_nth (pthreads s) t (mkPT PIdle (pscript th) (S (popi th)) rest (pres th ++ [(-1)%Z]))) false)
      else pstep s t
    | _, _, _ => pstep s t
    end
  | None => pstep s t
  end.

(* limit 2, all values equal: two resources borrowed together and both returned; of the two Gets
   that follow - within the cap, nobody holds anything - the second waits for ever: two resources
   are counted, one is idle-or-held, one is lost *)
Theorem dedup_put_capacity_lost_refuted :
  exists n val scripts sched,
    let s := run (dedup_put_pstep val) (pinit n 0 scripts) sched in
    map ppcof (pthreads s) = [PWaiting] /\ pheldcount s < n /\ pidle s = [] /\ pcreated s = n.
Proof.
  exists 2, (fun _ => 0), [[PGet; PGet; PPut; PPut; PGet; PGet]], (repeat 0 20).
  vm_compute. repeat split; repeat constructor.
Qed.

(* distinct values: the variant behaves as the real pool ... *)
Example dedup_put_harmless_with_distinct_values :
  let s := run (dedup_put_pstep (fun k => k)) (pinit 2 0 [[PGet; PGet; PPut; PPut; PGet; PGet]]) (repeat 0 20) in
  (map ppcof (pthreads s), pheldcount s, pcreated s) = ([PIdle], 2, 2).
Proof. vm_compute. reflexivity. Qed.

(* ... and the real pool serves both Gets whatever the values are (it never looks at them) *)
Example real_pool_ignores_values :
  let s := pexec 2 0 [[PGet; PGet; PPut; PPut; PGet; PGet]] (repeat 0 20) in
  (map ppcof (pthreads s), pheldcount s, pcreated s, length (pidle s)) = ([PIdle], 2, 2, 0).
Proof. vm_compute. reflexivity. Qed.

(* (o) Pool.Get that, on the expiry path, calls the user's destroy() BEFORE created-- ("uncount an
   expired resource only after destroy returned"; seeded change C05-11).  The expired node is
   already unlinked when destroy runs: if destroy PANICS, Get panics (the deferred Unlock runs) and
   the resource stays counted for ever.  [PGetX] is the Get whose user callback panics; for the
   destroy callback the step of the real code - pop the expired head, created--, destroy panics,
   result -2 - is the step [pget ... true] takes when exactly one resource is idle and expired
   (nothing is created: cp).  The variant keeps the count. *)
Definition destroy_first_pstep (s : pstate) (t : nat) : option pstate :=
  match nth_error (pthreads s) t with
  | Some th =>
    match ppcof th, pcur th, pidle s with
    | PEnter, Some PGetX, (x, last) :: rest =>
      if plocked s then None else
      if expired (pmaxage s) (pclock s) last then
        (* unlinked, destroy(x) panics, created-- never runs *)
        Some (mkPS (plimit s) (pmaxage s) (pcreated s) rest (pclock s) (pnext s) (psig s) (pdestroyed s ++ [x])
                   (upd_nth (pthreads s) t (mkPT PIdle (pscript th) (S (popi th)) (pheld th) (pres th ++ [(-2)%Z]))) false)
      else pstep s t
    | _, _, _ => pstep s t
    end
  | None => pstep s t
  end.

(* limit 1, max-age 100: the only resource is returned, expires, the Get that drops it has a
   panicking destroy; nobody holds anything, nothing is idle - and the next Get waits for ever *)
Theorem destroy_first_capacity_lost_refuted :
  exists n maxage scripts sched,
    let s := run destroy_first_pstep (pinit n maxage scripts) sched in
    map ppcof (pthreads s) = [PWaiting] /\ pheldcount s = 0 /\ pidle s = [] /\ pdestroyed s = [0] /\ 0 < n.
Proof.
  exists 1, 100%Z, [[PGet; PPut; PAdv 500; PGetX; PGet]], (repeat 0 14).
  vm_compute. repeat split; repeat constructor.
Qed.

(* the real order (created-- first): the panicking destroy costs nothing, the next Get creates *)
Example real_pool_destroy_panic_keeps_capacity :
  let s := pexec 1 100 [[PGet; PPut; PAdv 500; PGetX; PGet]] (repeat 0 14) in
  (map ppcof (pthreads s), pheldcount s, pcreated s, pdestroyed s, map pres (pthreads s)) =
  ([PIdle], 1, 1, [0], [[0; -1; -1; -2; 1]%Z]).
Proof. vm_compute. reflexivity. Qed.
