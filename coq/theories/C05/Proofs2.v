(* C05 — round 3: admission below the cap, TaskRunner.Wait, the WorkerGroup LTS, statically
   balanced Limit/MaxConns scripts (capacity restored without a dynamic hypothesis), MaxConns
   with n <= 0 (no limit) and the dead error branch of its deferred Return. *)
From Coq Require Import List ZArith Bool Arith Lia.
From GZ Require Import Lib.Sched Lib.SchedProofs C05.Model C05.Proofs.
Import ListNotations.

(* ---- small list facts ---- *)
Lemma sumf_nth_le {A} (f : A -> nat) l n x : nth_error l n = Some x -> f x <= sumf f l.
Proof.
  revert n. induction l as [|z l IH]; intros [|n] H; cbn in *; try discriminate.
  - inversion H; subst. lia.
  - specialize (IH _ H). lia.
Qed.

Lemma sumf_zero_inv {A} (f : A -> nat) l : sumf f l = 0 -> forall x, In x l -> f x = 0.
Proof.
  induction l as [|z l IH]; cbn; intros H x Hin; [contradiction|].
  destruct Hin as [<-|Hin]; [lia|apply IH; [lia|exact Hin]].
Qed.

Lemma sumf_lt_len {A} (f : A -> nat) l n x :
  (forall y, In y l -> f y <= 1) -> nth_error l n = Some x -> f x = 0 -> sumf f l < length l.
Proof.
  revert n. induction l as [|z l IH]; intros [|n] Hb H H0; cbn in *; try discriminate.
  - inversion H; subst. rewrite H0.
    assert (sumf f l <= length l).
    { clear -Hb. induction l as [|y l IH]; cbn; [lia|].
      pose proof (Hb y (or_intror (or_introl eq_refl))).
      assert (sumf f l <= length l) by (apply IH; intros w [Hw|Hw]; apply Hb; [left|right; right]; auto). lia. }
    lia.
  - pose proof (Hb z (or_introl eq_refl)).
    assert (sumf f l < length l) by (eapply IH; eauto). lia.
Qed.

Lemma skipn_nth {A} (l : list A) n x : nth_error l n = Some x -> skipn n l = x :: skipn (S n) l.
Proof.
  revert l. induction n as [|n IH]; intros [|y l] H; cbn in *; try discriminate.
  - inversion H; reflexivity.
  - apply IH. exact H.
Qed.

Lemma skipn_none {A} (l : list A) n : nth_error l n = None -> skipn n l = [].
Proof. intros H. apply nth_error_None in H. apply skipn_all2. exact H. Qed.

(* ================================================================== *)
(* let in below the cap (the dual of refused_or_blocked): any state   *)

Lemma lim_let_in_l : forall s t th o,
  nth_error (lthreads s) t = Some th -> t < length (lthreads s) -> lcur th = Some o -> lc s < lcap s ->
  match lpcof th, o with
  | LIdle, LTry => lstep s t = Some (lacquire s t (ldone th (S (lheld th)) 1))
  | LIdle, LTBorrow _ => lstep s t = Some (lacquire s t (ldone th (S (lheld th)) 1))
  | LIdle, LReq _ => lstep s t = Some (lacquire s t (lgo th LInBody (S (lheld th))))
  | LBorrowing, _ => lstep s t = Some (lacquire s t (ldone th (S (lheld th)) 1))
  | LTWoken, _ => lstep s t = Some (lacquire s t (ldone th (S (lheld th)) 1))
  | _, _ => True
  end.
Proof.
  intros s t th o Ht Hlt Ho Hc. unfold lstep.
  destruct (Nat.ltb_spec t (length (lthreads s))); [|lia]. rewrite Ht, Ho. unfold lstep_thread.
  destruct (Nat.ltb_spec (lc s) (lcap s)); [|lia].
  destruct (lpcof th); try exact I; destruct o; try exact I; reflexivity.
Qed.

Lemma tr_let_in_l : forall s t th o,
  nth_error (rthreads s) t = Some th -> t < length (rthreads s) -> rcur th = Some o -> rc s < rcap s ->
  let spawn := rtasks s ++ [mkTask TSpawned (rpanics o)] in
  match rpcof th, o with
  | RIdle, RSchedNow _ =>
    rstep s t = Some (mkRS (rcap s) (S (rc s)) (S (rwg s)) spawn (upd_nth (rthreads s) t (rdone th 1)))
  | RScheduling, _ =>
    rstep s t = Some (mkRS (rcap s) (S (rc s)) (rwg s) spawn (upd_nth (rthreads s) t (rdone th 1)))
  | _, _ => True
  end.
Proof.
  intros s t th o Ht Hlt Ho Hc spawn. unfold rstep.
  destruct (Nat.ltb_spec t (length (rthreads s))); [|lia]. rewrite Ht, Ho.
  destruct (Nat.ltb_spec (rc s) (rcap s)); [|lia].
  destruct (rpcof th); destruct o; try exact I; reflexivity.
Qed.

Lemma pool_let_in_l : forall s t th,
  nth_error (pthreads s) t = Some th -> pcur th = Some PGet -> ppcof th = PEnter -> plocked s = false ->
  pidle s = [] -> pcreated s < plimit s ->
  exists s', pstep s t = Some s' /\ pcreated s' = S (pcreated s) /\ plocked s' = true /\
             nth_error (pthreads s') t =
             Some (mkPT (PCreating (pnext s)) (pscript th) (popi th) (pnext s :: pheld th) (pres th)).
Proof.
  intros s t th Ht Ho Epc Hlk Hi Hc. unfold pstep. rewrite Ht, Ho, Epc, Hlk. eexists. split; [reflexivity|].
  unfold pget. rewrite Hi. cbn [pdrain]. destruct (Nat.ltb_spec (pcreated s) (plimit s)); [|lia]. cbn.
  split; [reflexivity|]. split; [reflexivity|]. eapply nth_error_upd_nth_eq; eauto.
Qed.

(* ================================================================== *)
(* TaskRunner.Wait                                                      *)

Lemma tr_wait_l : forall n scripts sched t th s',
  let s := rexec n scripts sched in
  nth_error (rthreads s) t = Some th -> rpcof th = RWaitingWg -> rstep s t = Some s' ->
  rwg s = 0 /\ rc s = 0 /\ rlive s = 0 /\ rrunning s = 0 /\ rscheduling s = 0 /\ rreleased s = 0.
Proof.
  intros n scripts sched t th s' s Ht Epc H.
  destruct (rexec_inv n scripts sched) as [A B C D]. fold s in A, B, C, D.
  assert (Hlt : t < length (rthreads s)) by (apply nth_error_Some; rewrite Ht; discriminate).
  unfold rstep in H. destruct (Nat.ltb_spec t (length (rthreads s))); [|lia].
  rewrite Ht in H. destruct (rcur th) as [o|]; [|discriminate]. rewrite Epc in H.
  assert (W : rwg s = 0).
  { destruct o; destruct (Nat.eqb_spec (rwg s) 0); auto; discriminate. }
  assert (E : rscheduling s = sumf sched_ind (rthreads s)) by reflexivity.
  assert (R : rrunning s <= rlive s).
  { unfold rrunning, rlive. apply sumf_le. intros tk. unfold is_running, is_live. destruct (tst tk); lia. }
  repeat split; lia.
Qed.

(* while a task is live or a Schedule is pending, Wait stays blocked *)
Lemma tr_wait_blocked_l : forall s t th o,
  nth_error (rthreads s) t = Some th -> t < length (rthreads s) -> rcur th = Some o ->
  rpcof th = RWaitingWg -> rwg s <> 0 -> rstep s t = None.
Proof.
  intros s t th o Ht Hlt Ho Epc Hw. unfold rstep.
  destruct (Nat.ltb_spec t (length (rthreads s))); [|lia]. rewrite Ht, Ho, Epc.
  destruct (Nat.eqb_spec (rwg s) 0); [contradiction|]. destruct o; reflexivity.
Qed.

(* ================================================================== *)
(* WG: WorkerGroup                                                      *)

Record GInv (n : nat) (s : gstate) : Prop := mkGInv
  { gv_n : gn s = n;
    gv_len : length (gtasks s) = gi s;
    gv_le : gi s <= n;
    gv_wg : gwg s = sumf w_counted (gtasks s);
    gv_norel : Forall (fun tk => wst tk <> WRel) (gtasks s);
    gv_d : match gd s with GInit => gi s = 0 | GLoop => True | GWait | GDone => gi s = n end;
    gv_done : gd s = GDone -> gwg s = 0 }.

Lemma ginit_inv n : GInv n (ginit n).
Proof. constructor; cbn; auto; try lia; try discriminate. Qed.

Lemma gstep_inv n p s x s' : GInv n s -> gstep p s x = Some s' -> GInv n s'.
Proof.
  intros [A B C D E F G] H. unfold gstep in H. destruct x as [|k].
  - destruct (gd s) eqn:Ed.
    + inversion H; subst s'; clear H. constructor; cbn; auto. discriminate.
    + destruct (Nat.ltb_spec (gi s) (gn s)); inversion H; subst s'; clear H; constructor; cbn; auto; try lia; try discriminate.
      * rewrite app_length. cbn. lia.
      * rewrite sumf_app. cbn. lia.
      * apply Forall_app. split; [exact E|]. constructor; [cbn; discriminate|constructor].
    + destruct (Nat.eqb_spec (gwg s) 0); inversion H; subst s'; clear H. constructor; cbn; auto.
    + discriminate.
  - destruct (nth_error (gtasks s) k) as [tk|] eqn:Hk; [|discriminate].
    pose proof (sumf_upd_nth w_counted (gtasks s) k) as V.
    pose proof (sumf_nth_le w_counted _ _ _ Hk) as Le.
    destruct (wst tk) eqn:Et; try discriminate; inversion H; subst s'; clear H;
      match goal with |- context [upd_nth (gtasks s) k ?t'] => specialize (V t' tk Hk) end;
      assert (E2 : w_counted tk = match wst tk with WSp | WRun => 1 | _ => 0 end) by reflexivity;
      rewrite Et in E2; rewrite E2 in V, Le; cbn [w_counted wst] in V;
      (constructor; cbn [gn gi gwg gd gtasks]; auto; try lia;
       first [ rewrite length_upd_nth; exact B
             | apply Forall_upd_nth; [exact E|cbn; discriminate]
             | intros Hd; specialize (G Hd); lia ]).
Qed.

Lemma gexec_inv n p sched : GInv n (gexec n p sched).
Proof. unfold gexec. apply run_inv; [intros; eapply gstep_inv; eauto | apply ginit_inv]. Qed.

Lemma wg_cap_l : forall n p sched,
  let s := gexec n p sched in
  grunning s <= glive s /\ glive s <= length (gtasks s) /\ length (gtasks s) = gi s /\ gi s <= n.
Proof.
  intros n p sched s. destruct (gexec_inv n p sched) as [A B C D E F G]. fold s in A, B, C, D, E, F, G.
  split; [|split; [|split; [exact B|exact C]]].
  - unfold grunning, glive. apply sumf_le. intros tk. unfold w_running, w_live. destruct (wst tk); lia.
  - unfold glive. clear. induction (gtasks s) as [|z l IH]; cbn; [lia|].
    unfold w_live at 1. destruct (wst z); lia.
Qed.

(* Start returns only after exactly n workers have been started and every one of them has
   finished (job returned or panicked) *)
Lemma wg_done_l : forall n p sched,
  let s := gexec n p sched in
  gd s = GDone -> length (gtasks s) = n /\ gwg s = 0 /\ forall tk, In tk (gtasks s) -> wst tk = WDn.
Proof.
  intros n p sched s Hd. destruct (gexec_inv n p sched) as [A B C D E F G]. fold s in A, B, C, D, E, F, G.
  rewrite Hd in F. specialize (G Hd). split; [lia|]. split; [exact G|].
  intros tk Hin. rewrite D in G. pose proof (sumf_zero_inv _ _ G tk Hin) as Z.
  rewrite Forall_forall in E. specialize (E tk Hin). unfold w_counted in Z.
  destruct (wst tk); try discriminate; try reflexivity. contradiction.
Qed.

Lemma wg_wait_blocked_l : forall p s, gd s = GWait -> gwg s <> 0 -> gstep p s 0 = None.
Proof. intros p s Hd Hw. unfold gstep. rewrite Hd. destruct (Nat.eqb_spec (gwg s) 0); [contradiction|reflexivity]. Qed.

(* no (n+1)-th worker is ever started *)
Lemma wg_no_more_l : forall p s, gd s = GLoop -> gi s = gn s ->
  gstep p s 0 = Some (mkGS (gn s) (gi s) (gwg s) GWait (gtasks s)).
Proof. intros p s Hd Hi. unfold gstep. rewrite Hd, Hi, Nat.ltb_irrefl. reflexivity. Qed.

(* ================================================================== *)
(* statically balanced Limit / MaxConns scripts                         *)

Fixpoint bal (h : nat) (sc : list lop) : option nat :=
  match sc with
  | [] => Some h
  | LBorrow :: r => bal (S h) r
  | LReturn :: r => match h with 0 => None | S h' => bal h' r end
  | LReq _ :: r => bal h r
  | LCancel _ :: r => bal h r
  | _ => None
  end.

Definition lrest (th : lthread) : list lop := skipn (lopi th) (lscript th).

Definition bal_thread (th : lthread) : Prop :=
  match lpcof th with
  | LIdle => bal (lheld th) (lrest th) = Some 0
  | LBorrowing => bal (lheld th) (lrest th) = Some 0 /\ lcur th = Some LBorrow
  | LInBody => exists h p, lheld th = S h /\ bal h (lrest th) = Some 0 /\ lcur th = Some (LReq p)
  | _ => False
  end.

Definition BInv (s : lstate) : Prop := lrogue s = false /\ Forall bal_thread (lthreads s).

Lemma lrest_cur th o : lcur th = Some o -> lrest th = o :: skipn (S (lopi th)) (lscript th).
Proof. intros H. unfold lrest. apply skipn_nth. exact H. Qed.

Lemma held_le_lc n s t th : LInv n s -> lrogue s = false -> nth_error (lthreads s) t = Some th -> lheld th <= lc s.
Proof.
  intros [A B C D E] R Ht. rewrite <- (D R). unfold lholders. eapply sumf_nth_le; eauto.
Qed.

Lemma bal_step n s x s' : LInv n s -> BInv s -> lstep s x = Some s' -> BInv s'.
Proof.
  intros HL [R F] H. unfold lstep in H.
  destruct (Nat.ltb x (length (lthreads s))).
  - destruct (nth_error (lthreads s) x) as [th|] eqn:Ht; [|discriminate].
    destruct (lcur th) as [o|] eqn:Ho; [|discriminate].
    pose proof (Forall_nth _ _ _ _ F Ht) as Bt. unfold bal_thread in Bt.
    pose proof (lrest_cur th o Ho) as Er.
    pose proof (held_le_lc n s x th HL R Ht) as Hle.
    unfold lstep_thread in H. cbv zeta in H.
    destruct (lpcof th) eqn:Epc; try contradiction.
    + (* LIdle *)
      rewrite Er in Bt.
      destruct o; cbn [bal] in Bt; try discriminate.
      * (* Borrow invoked *)
        inversion H; subst s'; clear H. split; [exact R|]. cbn. apply Forall_upd_nth; auto.
        unfold bal_thread. cbn. split; [|exact Ho]. unfold lrest. cbn. fold (lrest th). rewrite Er. exact Bt.
      * (* Return *)
        destruct (lheld th) as [|h'] eqn:Eh; [discriminate|].
        destruct (Nat.ltb_spec 0 (lc s)); [|lia].
        inversion H; subst s'; clear H. split; cbn.
        -- rewrite R, Eh. reflexivity.
        -- apply Forall_upd_nth; auto; try (unfold bal_thread; cbn; unfold lrest; cbn; rewrite Eh; cbn; exact Bt).
      * (* request *)
        destruct (Nat.ltb (lc s) (lcap s)); inversion H; subst s'; clear H; (split; [exact R|]); cbn;
          apply Forall_upd_nth; auto; unfold bal_thread; cbn; try (unfold lrest; cbn; exact Bt).
        exists (lheld th), panics. split; [reflexivity|]. split; [|exact Ho].
        unfold lrest. cbn. fold (lrest th). rewrite Er. cbn. exact Bt.
      * (* a request context is cancelled: nothing moves *)
        inversion H; subst s'; clear H. split; [exact R|]. cbn. apply Forall_upd_nth; auto;
          try (unfold bal_thread; cbn; unfold lrest; cbn; exact Bt).
    + (* LBorrowing *)
      destruct Bt as [Bt Hc]. rewrite Hc in Ho. inversion Ho; subst o. rewrite Er in Bt. cbn [bal] in Bt.
      destruct (Nat.ltb (lc s) (lcap s)); [|discriminate].
      inversion H; subst s'; clear H. split; [exact R|]. cbn. apply Forall_upd_nth; auto;
        try (unfold bal_thread; cbn; unfold lrest; cbn; exact Bt).
    + (* LInBody *)
      destruct Bt as (h & p & Eh & Bt & Hc). rewrite Hc in Ho. inversion Ho; subst o.
      rewrite Er in Bt. cbn [bal] in Bt.
      destruct (Nat.ltb_spec 0 (lc s)); [|lia].
      inversion H; subst s'; clear H. split; cbn.
      * rewrite R, Eh. reflexivity.
      * apply Forall_upd_nth; auto; try (unfold bal_thread; cbn; unfold lrest; cbn; rewrite Eh; cbn; exact Bt).
  - unfold lstep_timer in H.
    destruct (nth_error (lthreads s) (x - length (lthreads s))) as [th|] eqn:Ht; [|discriminate].
    pose proof (Forall_nth _ _ _ _ F Ht) as Bt. unfold bal_thread in Bt.
    destruct (lpcof th); try discriminate. contradiction.
Qed.

Lemma lim_capacity_restored_l : forall n scripts sched,
  Forall (fun sc => bal 0 sc = Some 0) scripts ->
  let s := lexec n scripts sched in
  lrogue s = false /\ lholders s = lc s /\ lc s <= n /\
  ((forall th, In th (lthreads s) -> lcur th = None) -> lc s = 0).
Proof.
  intros n scripts sched Hs s.
  assert (H : LInv n s /\ BInv s).
  { unfold s, lexec. apply (run_inv lstep (fun s => LInv n s /\ BInv s)).
    - intros s0 t s1 [A B] Hst. split; [eapply lstep_inv; eauto | eapply bal_step; eauto].
    - split; [apply linit_inv|]. split; [reflexivity|]. cbn. apply Forall_forall.
      intros th Hin. apply in_map_iff in Hin. destruct Hin as (sc & <- & Hsc).
      rewrite Forall_forall in Hs. unfold bal_thread, lrest. cbn. apply Hs. exact Hsc. }
  destruct H as [[A B C D E] [R F]].
  split; [exact R|]. split; [exact (D R)|]. split; [exact B|].
  intros Hfin. rewrite <- (D R). unfold lholders. apply sumf_zero. intros th Hin.
  rewrite Forall_forall in F. specialize (F th Hin). specialize (Hfin th Hin). unfold bal_thread in F.
  destruct (lpcof th).
  - unfold lrest in F. unfold lcur in Hfin. rewrite (skipn_none _ _ Hfin) in F. cbn in F. inversion F. reflexivity.
  - destruct F as [_ F]. rewrite F in Hfin. discriminate.
  - contradiction.
  - contradiction.
  - contradiction.
  - destruct F as (h & p & _ & _ & F). rewrite F in Hfin. discriminate.
Qed.

(* ================================================================== *)
(* MaxConns: the error branch of the deferred Return is dead; n <= 0     *)

Lemma mc_invs n scripts sched :
  Forall (Forall is_req) scripts ->
  LInv n (lexec n scripts sched) /\ MInv (lexec n scripts sched).
Proof.
  intros Hs. unfold lexec. apply (run_inv lstep (fun s => LInv n s /\ MInv s)).
  - intros s0 t s1 [A B] Hst. split; [eapply lstep_inv; eauto | eapply mc_step; eauto].
  - split; [apply linit_inv|]. split; [reflexivity|]. cbn. apply Forall_forall.
    intros th Hin. apply in_map_iff in Hin. destruct Hin as (sc & <- & Hsc).
    rewrite Forall_forall in Hs. split; cbn; auto.
Qed.

Lemma maxconns_return_never_fails_l : forall n scripts sched t th,
  Forall (Forall is_req) scripts ->
  let s := lexec n scripts sched in
  nth_error (lthreads s) t = Some th -> lpcof th = LInBody -> 0 < lc s.
Proof.
  intros n scripts sched t th Hs s Ht Epc.
  destruct (mc_invs n scripts sched Hs) as [HL [R F]]. fold s in HL, R, F.
  pose proof (held_le_lc n s t th HL R Ht) as Hle.
  pose proof (Forall_nth _ _ _ _ F Ht) as [_ [[E1 _]|[_ E2]]]; [rewrite Epc in E1; discriminate|lia].
Qed.

Definition no_refusal (th : lthread) : Prop := ~ In 0%Z (lres th).

Lemma mc_unlimited_step n s x s' :
  LInv n s -> MInv s -> length (lthreads s) <= n -> Forall no_refusal (lthreads s) ->
  lstep s x = Some s' -> length (lthreads s') <= n /\ Forall no_refusal (lthreads s').
Proof.
  intros HL [R F] Hlen Hn H. unfold lstep in H.
  destruct (Nat.ltb x (length (lthreads s))).
  - destruct (nth_error (lthreads s) x) as [th|] eqn:Ht; [|discriminate].
    destruct (lcur th) as [o|] eqn:Ho; [|discriminate].
    pose proof (Forall_nth _ _ _ _ F Ht) as [Sc St].
    pose proof (Forall_nth _ _ _ _ Hn Ht) as Nr.
    assert (Hreq : is_req o). { rewrite Forall_forall in Sc. apply Sc. eapply nth_error_In; eauto. }
    unfold lstep_thread in H. cbv zeta in H.
    destruct St as [[Epc Eh]|[Epc Eh]]; rewrite Epc in H.
    + destruct o; try contradiction;
        [|inversion H; subst s'; clear H; cbn; rewrite length_upd_nth; (split; [exact Hlen|]);
          apply Forall_upd_nth; auto; unfold no_refusal; cbn; intros Hin;
          apply in_app_or in Hin; destruct Hin as [Hin|[Hin|[]]]; [exact (Nr Hin)|discriminate]].
      assert (Hfree : lc s < lcap s).
      { destruct HL as [A B C D E]. rewrite <- (D R), A. unfold lholders.
        assert (sumf lheld (lthreads s) < length (lthreads s)); [|lia].
        eapply sumf_lt_len; eauto. intros y Hy. rewrite Forall_forall in F.
        destruct (F y Hy) as [_ [[_ E1]|[_ E1]]]; lia. }
      destruct (Nat.ltb_spec (lc s) (lcap s)); [|lia].
      inversion H; subst s'; clear H. cbn. rewrite length_upd_nth. split; [exact Hlen|].
      apply Forall_upd_nth; auto.
    + destruct (Nat.ltb 0 (lc s)); inversion H; subst s'; clear H; cbn; rewrite length_upd_nth;
        (split; [exact Hlen|]); apply Forall_upd_nth; auto; unfold no_refusal; cbn; intros Hin;
        apply in_app_or in Hin; (destruct Hin as [Hin|[Hin|[]]]; [exact (Nr Hin)|destruct o as [| | | | |[|]|]; discriminate]).
  - unfold lstep_timer in H.
    destruct (nth_error (lthreads s) (x - length (lthreads s))) as [th|] eqn:Ht; [|discriminate].
    pose proof (Forall_nth _ _ _ _ F Ht) as [Sc [[Epc _]|[Epc _]]]; rewrite Epc in H; discriminate.
Qed.

(* with a capacity of at least the number of client threads, no request is ever refused: this
   is the configuration by which the harness models MaxConnsHandler(n <= 0) = "no limit" *)
Lemma maxconns_unlimited_l : forall n scripts sched,
  Forall (Forall is_req) scripts -> length scripts <= n ->
  let s := lexec n scripts sched in
  forall th, In th (lthreads s) -> ~ In 0%Z (lres th).
Proof.
  intros n scripts sched Hs Hlen s.
  assert (H : (LInv n s /\ MInv s) /\ length (lthreads s) <= n /\ Forall no_refusal (lthreads s)).
  { unfold s, lexec.
    apply (run_inv lstep (fun s => (LInv n s /\ MInv s) /\ length (lthreads s) <= n /\ Forall no_refusal (lthreads s))).
    - intros s0 t s1 [[A B] [C D]] Hst. split; [split; [eapply lstep_inv; eauto | eapply mc_step; eauto]|].
      eapply mc_unlimited_step; eauto.
    - split; [split; [apply linit_inv|]|].
      + split; [reflexivity|]. cbn. apply Forall_forall.
        intros th Hin. apply in_map_iff in Hin. destruct Hin as (sc & <- & Hsc).
        rewrite Forall_forall in Hs. split; cbn; auto.
      + cbn. rewrite map_length. split; [exact Hlen|]. apply Forall_forall.
        intros th Hin. apply in_map_iff in Hin. destruct Hin as (sc & <- & Hsc). unfold no_refusal. cbn. auto. }
  destruct H as [_ [_ H]]. rewrite Forall_forall in H. exact H.
Qed.

(* ================================================================== *)
(* a holder's context is cancelled while it is inside: no capacity moves *)

Lemma lim_ctx_cancel_l : forall s t th k,
  nth_error (lthreads s) t = Some th -> t < length (lthreads s) -> lpcof th = LIdle ->
  lcur th = Some (LCancel k) ->
  lstep s t = Some (lkeep s t (ldone th (lheld th) 1)) /\
  let s' := lkeep s t (ldone th (lheld th) 1) in
  lc s' = lc s /\ lcap s' = lcap s /\ lacq s' = lacq s /\ lrel s' = lrel s /\ lrogue s' = lrogue s /\
  lholders s' = lholders s /\ linbody s' = linbody s /\
  (forall u, u <> t -> nth_error (lthreads s') u = nth_error (lthreads s) u).
Proof.
  intros s t th k Ht Hlt Epc Ho. split.
  - unfold lstep. destruct (Nat.ltb_spec t (length (lthreads s))); [|lia].
    rewrite Ht, Ho. unfold lstep_thread. rewrite Epc. reflexivity.
  - cbn. repeat split; auto.
    + pose proof (sumf_upd_nth lheld (lthreads s) t (ldone th (lheld th) 1) th Ht) as U.
      unfold lholders. cbn in *. lia.
    + pose proof (sumf_upd_nth (fun th => match lpcof th with LInBody => 1 | _ => 0 end)
                               (lthreads s) t (ldone th (lheld th) 1) th Ht) as U.
      unfold linbody. cbn in *. rewrite Epc in U. lia.
    + intros u Hu. apply nth_error_upd_nth_neq. auto.
Qed.

(* history level: whatever contexts are cancelled and whenever, the permits outstanding are
   exactly the requests whose handler has not returned yet - cancelled or not - and at most n *)
Lemma lim_ctx_history_l : forall n scripts sched,
  Forall (Forall is_req) scripts ->
  let s := lexec n scripts sched in
  lrogue s = false /\ lc s = linbody s /\ linbody s <= n.
Proof.
  intros n scripts sched Hs s.
  destruct (maxconns_idle_means_zero_l n scripts sched Hs) as (R & E & _). fold s in R, E.
  destruct (lim_cap_l n scripts sched) as (A & _). fold s in A.
  repeat split; auto. lia.
Qed.

(* ================================================================== *)
(* a Get whose create() panics counts nothing                            *)

Lemma pool_create_panic_l : forall s t th,
  nth_error (pthreads s) t = Some th -> pcur th = Some PGetX -> ppcof th = PEnter -> plocked s = false ->
  pidle s = [] -> pcreated s < plimit s ->
  exists s', pstep s t = Some s' /\ pcreated s' = pcreated s /\ pidle s' = [] /\ plocked s' = false /\
             pnext s' = pnext s /\ psig s' = psig s /\
             nth_error (pthreads s') t =
             Some (mkPT PIdle (pscript th) (S (popi th)) (pheld th) (pres th ++ [(-2)%Z])).
Proof.
  intros s t th Ht Ho Epc Hlk Hi Hc. unfold pstep. rewrite Ht, Ho, Epc, Hlk. eexists. split; [reflexivity|].
  unfold pget. rewrite Hi. cbn [pdrain]. destruct (Nat.ltb_spec (pcreated s) (plimit s)); [|lia]. cbn.
  repeat split; auto. eapply nth_error_upd_nth_eq; eauto.
Qed.
