"""C20 — grammar-based generator of goctl .api programs, decorator (comments / blank lines /
odd spacing in every legal position) and mutator (invalid variants).

A program is first produced as a list of atoms:
    ("T", text)      a token
    ("G", policy)    the gap between two tokens:
        "tight"  blanks only, no comment (directly after the '/' of a route path the parser
                 rejects a comment on the same line)
        "glue"   inside a route path / @server value / "name-api": conventionally nothing, but
                 blanks, comments and line breaks are legal
        "same"   must stay on one line (the grammar is line sensitive there)
        "nl"     must contain a line break (idem)
        "any-s"  free; conventional layout keeps it on one line
        "any-n"  free; conventional layout breaks the line here
Every gap then gets a random layout: blanks, tabs, line breaks, line comments, block comments
(single- and multi-line), doc comments on their own lines.
"""
import re

HTTP = ["get", "head", "post", "put", "patch", "delete", "connect", "options", "trace"]
GO_KEYWORDS = {"break", "case", "chan", "const", "continue", "default", "defer", "else", "fallthrough", "for",
               "func", "go", "goto", "if", "import", "interface", "map", "package", "range", "return", "select",
               "struct", "switch", "type", "var"}
BASE = ["int", "string", "bool", "int64", "uint8", "float64", "byte", "any", "int32", "rune"]
WORDS = ["user", "order", "item", "id", "name", "list", "get", "info", "x1", "v1", "api", "foo", "bar_baz", "q",
         "Req", "Resp", "data", "A", "B2", "_u", "returns", "service", "syntax", "type2", "handler", "doc"]


DELETED_KINDS = ["d_info0", "d_infoz", "d_import", "d_imports0", "d_importsz", "d_types"]
DELETED_TEXT = {"d_info0": "info ()", "d_infoz": 'info (\n\ttitle: ""\n\tdesc: ``\n)', "d_import": 'import ""',
                "d_imports0": "import ()", "d_importsz": 'import (\n\t""\n)', "d_types": "type ()"}


def deletion_matrix():
    """every statement kind the formatter deletes x what stands before it (nothing, a single-line
    import, a run of them, an import group, a type, a service, syntax, another deleted statement) x
    what stands behind it (end of file, a single-line import, an import group, a type, a service)"""
    before = {"start": "", "import": 'import "a.api"\n', "imports": 'import "a.api"\nimport "b.api"\n',
              "group": 'import (\n\t"a.api"\n)\n', "type": "type A {}\n", "service": "service s {\n\t@handler h\n\tget /a\n}\n",
              "syntax": 'syntax = "v1"\n', "deleted": 'import "a.api"\ntype ()\n'}
    after = {"eof": "", "import": 'import "z.api"\n', "group": 'import (\n\t"z.api"\n)\n', "type": "type Z {}\n",
             "service": "service z {\n\t@handler hz\n\tget /z\n}\n"}
    res = []
    for dk, dt in DELETED_TEXT.items():
        for bk, bt in before.items():
            for ak, at in after.items():
                src = bt + dt + "\n" + at
                if src.strip():
                    res.append(src)
    return res


EMPTY_INNER = ["", "\n", "\n\t// only a comment\n", " /* c */ "]      # in every position
EMPTY_INNER_MORE = [" ", "\n\n", "\n\t/* a\n\t b */\n\t// c\n"]      # alone and in the middle


def empty_matrix():
    """EMPTY forms of every grouping construct (type / info / import groups, @server, @doc group,
    service body, struct, anonymous struct, struct-typed members of every shape, '()' bodies; files
    holding only comments or only white space), written with nothing / blanks / line breaks / only
    comments between the delimiters, in every position (alone, first, middle, last, twice in a row,
    twice around something) -- fixed, the same programs in every run, executed before anything
    random (seed C20-8: 'type ()' made the parser return neither a description nor an error and the
    formatter crash)."""
    X = "type A {\n\tF int\n}\n"
    Y = "service y {\n\t@handler hy\n\tget /y\n}\n"

    def stmts(inner):
        return ["type (%s)\n" % inner, "info (%s)\n" % inner, "import (%s)\n" % inner, "type T {%s}\n" % inner,
                "service s {%s}\n" % inner, "@server (%s)\nservice s {\n\t@handler h\n\tget /a\n}\n" % inner,
                "@server (%s)\nservice s {%s}\n" % (inner, inner)]

    res = []
    for inner in EMPTY_INNER:
        for e in stmts(inner):
            e2 = e.replace("type T", "type U")
            res += [e, e + X, X + e, X + e + Y, e + e2, e + X + e2, X + e + e2 + Y]
    for inner in EMPTY_INNER_MORE:
        for e in stmts(inner):
            res += [e, X + e + Y]
    for e in ["type(\n)\n", "type()", "type (\n\n\n)", "type ( // c\n)\n", "info(\n)\n", "import(\n)\n", "@server()\nservice s{}\n",
              "type T = {}\n", "type (\n\tT {}\n)\n", "type (\n\tT {}\n\tU {}\n)\n", "type (\n\tT {\n\t}\n)\n"]:
        res += [e, X + e + Y, e + e]
    # empty constructs inside a service item / a struct: first, middle, last member; twice
    item = "\t@handler h%d\n\tget /p%d\n"
    for inner in EMPTY_INNER + EMPTY_INNER_MORE:
        d = "\t@doc (%s)\n" % inner
        forms = [d + item % (1, 1), item % (0, 0) + d + item % (1, 1), d + item % (1, 1) + d + item % (2, 2),
                 item % (0, 0) + d + item % (1, 1) + item % (2, 2) + d + item % (3, 3)]
        res += ["service s {\n%s}\n" % f for f in (forms if inner in EMPTY_INNER else forms[1:2])]
    for inner in EMPTY_INNER:
        for ty in ("{%s}", "[]{%s}", "map[string]{%s}", "[2]{%s}", "{\n\t\tB {%s}\n\t}"):
            m = "\tM%d " + ty % inner
            tag = ' `json:"m"`'
            forms = [m % 1 + "\n", "\tA int\n" + m % 1 + "\n\tZ int\n", "\tA int\n" + m % 1 + "\n" + m % 2 + "\n",
                     m % 1 + tag + "\n", "\tA int\n" + m % 1 + tag + "\n" + m % 2 + tag + "\n\tZ int\n"]
            res += ["type T {\n%s}\n" % f for f in forms]
    for d in ('\t@doc ""\n', "\t@doc ``\n", '\t@doc (\n\t\ta: ""\n\t)\n'):
        res += ["service s {\n%s}\n" % f for f in
                (d + item % (1, 1), item % (0, 0) + d + item % (1, 1), d + item % (1, 1) + d + item % (2, 2))]
    for req in ("()", "( )", "(\n)", "( /* c */ )"):
        res += ["service s {\n\t@handler h\n\tget /a %s\n}\n" % req, "service s {\n\t@handler h\n\tget /a returns %s\n}\n" % req,
                "service s {\n\t@handler h\n\tget /a %s returns %s\n}\n" % (req, req),
                "service s {\n\t@handler h\n\tget /a %s returns (T)\n\t@handler g\n\tpost /b (T) returns %s\n}\n" % (req, req)]
    # files that hold no statement at all
    res += ["// c\n", "// c", "/* c */", "/* c */\n", "// a\n// b\n", "\n// c\n\n", "/* a\n b */\n\n// c", "//", "/**/",
            "\n", " ", "\t\n \n", "\r\n", ";", ";\n;\n"]
    seen = set()
    out = []
    for x in res:
        if x and x not in seen:
            seen.add(x)
            out.append(x)
    return out


def layout_core():
    """comment-free programs in the sub-language of the text model (Text.v) whose text depends on each
    parameter of the tabwriter as ast.NewBufferWriter configures it (padding, tab width at the
    boundaries 7 / 8 / 9 through the unindented anonymous member with a tag, rune widths)"""
    return ['type T {\n\tFoo1234 `json:"a"`\n\tB int\n}\n', 'type T {\n\tFoo12345 `json:"a"`\n\tB int\n}\n',
            'type T {\n\tFoo123456 `json:"a"`\n\tB int\n\tCc, D string `x:"y"`\n}\n',
            'type (\n\tT {\n\t\t*Foo12345 `json:"a"`\n\t\tB int\n\t}\n\tU {}\n)\n',
            'info (\n\ta: "x"\n\tlonger_key: "y"\n\tb: `z`\n)\n',
            'type T {\n\tA string `json:"é"`\n\tBcdef map[string]int `x:"日本"`\n\tC, D []*T\n}\n',
            '@server (\n\tprefix: /api/v1\n\tt: 1h30m\n\tmiddleware: A,B\n)\nservice s-api {\n\t@doc (\n\t\ta: "µ"\n\t\tlonger: "y"\n\t)\n'
            '\t@handler h\n\tget /a/:id (T) returns ([]*T)\n\n\t@handler g\n\tpost /\n}\n']


LEX_WORDS = ["type", "service", "info", "get", "returns", "import", "syntax", "group", "prefix", "jwt", "middleware",
             "timeout", "maxBytes", "api", "map", "any", "interface", "post", "handler", "doc", "server", "string",
             "struct", "func", "go", "T"]
LEX_STRINGS = ['""', '"a"', '"a\\"', '"a\\nb"', '"a`b"', '"//"', '"/*x*/"', '" "', '"%d"', '"\t"', '"é日本"', '"a\nb"',
               '"@doc"', '"}"', '"\\""']
LEX_TAGS = ["``", '`json:"a"`', "`a\\nb`", '`a"b`', "`a\nb`", "` `", "`\\`", "`//x`", "`/*x*/`", "`%d`", "`\t`", "`日本`",
            "`'`", "`@doc`", "`}`", '`json:"a,optional" form:"b"`']
LEX_PATHS = ["/", "/a", "/a/", "/a/b", "/:a", "/a-b", "/a_b", "/_a", "/a.b", "/a:b", "/:a-b", "/a-", "/-a", "//", "/a//b",
             "/1", "/a1", "/1-2", "/a/:b/c-d", "/:1", "/api/v1.0", "/a/:b/", "/A-B-c", "/:a/:b", "/a-1"]
LEX_SVALUES = ["0", "007", "1", "18446744073709551616", "1s", "1ms", "1µs", "1ns", "1m", "1h", "1h30m", "1h30m5s",
               "1m5s10ms3µs7ns", "1s1s", "1.5s", "-1", "1_000", "0x10", "1e3", "1ss", "1sm", "3sx", "5ns3", "2h1ms",
               "a", "a,b", "a-b", "a/b", "/a/b", "/a-b/c", "a.b", "a:b", '"s"', "`r`", "a,b,c", "a-b-c", "a/b-c/d", "/"]
SVC = "service s {\n\t@handler h\n\tget /a\n}\n"


LEX_WS = ['"\t"', '"a\tb"', '" "', '"a\nb"', '"a \n b"', "`\t`", "`a\tb`", "` `", "`a\nb`", "`a \n\tb`"]


def literal_positions(v):
    """one program per position of the grammar that holds a string literal"""
    return ["syntax = %s\n" % v, "import %s\n" % v, "import (\n\t%s\n\t\"b\"\n)\n" % v,
            "info (\n\ta: %s\n\tb: \"x\"\n)\n" % v, "type T {\n\tA int %s\n\tB int\n}\n" % v,
            "type T {\n\tFoo %s\n}\n" % v,
            "service s {\n\t@doc %s\n\t@handler h\n\tget /a\n}\n" % v,
            "service s {\n\t@doc (\n\t\ta: %s\n\t\tb: \"y\"\n\t)\n\t@handler h\n\tget /a\n}\n" % v,
            "@server (\n\tk: %s\n\tj: x\n)\n" % v + SVC]


LEX_FF = ['"a\x0cb"', '"a\x0bb"', '"\x0c"', "`a\x0cb`", "`\x0b`"]


def lexeme_core(ff=False):
    """white space (tab, blank, line break) as the content of, and inside, a string / raw string in
    every literal position -- in every run (seeds C20-3, C20-4, C20-7).  ff: also form feed and
    vertical tab, which the tabwriter reads as "end of line" / "end of cell" (finding
    C20-formfeed-inside-literal-or-comment)"""
    res = []
    for v in LEX_WS + (LEX_FF if ff else []):
        res += literal_positions(v)
    return res


def lexeme_matrix():
    """names and lexemes as inputs, enumerated: keyword-like identifiers in every position where the
    grammar has an identifier; string / raw-string forms in every position of a literal; route
    paths; @server values (numbers, durations, lists, paths); white-space / encoding variants of one
    program.  Valid or not is goctl's decision: the model must agree, a valid one must be formatted
    correctly, an invalid one must be an error."""
    res = []
    for w in LEX_WORDS:
        res += ["type %s {\n\tA int\n}\n" % w, "type T {\n\t%s int\n}\n" % w, "type T {\n\tA %s\n}\n" % w,
                "type T {\n\t%s\n\tB int\n}\n" % w, "type T {\n\t*%s\n}\n" % w, "type T {\n\tA, %s int\n}\n" % w,
                "type T map[%s]%s\n" % (w, w), "type T []*%s\n" % w, "type %s = int\n" % w, "type (\n\t%s int\n)\n" % w,
                'info (\n\t%s: "x"\n)\n' % w,
                "@server (\n\t%s: x\n)\n" % w + SVC, "@server (\n\tk: %s\n)\n" % w + SVC,
                "@server (\n\tk: a,%s\n)\n" % w + SVC, "@server (\n\tk: %s-b\n)\n" % w + SVC,
                "@server (\n\tk: /%s/b\n)\n" % w + SVC,
                "service %s {\n\t@handler h\n\tget /a\n}\n" % w, "service %s-api {\n\t@handler h\n\tget /a\n}\n" % w,
                "service s {\n\t@handler %s\n\tget /a\n}\n" % w, "service s {\n\t@handler h\n\t%s /a\n}\n" % w,
                "service s {\n\t@handler h\n\tget /%s\n}\n" % w, "service s {\n\t@handler h\n\tget /:%s\n}\n" % w,
                "service s {\n\t@handler h\n\tget /a-%s (T)\n}\n" % w, "service s {\n\t@handler h\n\tget /%s/b returns (T)\n}\n" % w,
                "service s {\n\t@handler h\n\tget /a (%s)\n}\n" % w, "service s {\n\t@handler h\n\tget /a returns ([]%s)\n}\n" % w,
                'service s {\n\t@doc (\n\t\t%s: "x"\n\t)\n\t@handler h\n\tget /a\n}\n' % w]
    for v in LEX_STRINGS + LEX_TAGS:
        res += literal_positions(v)
    for pth in LEX_PATHS:
        res += ["service s {\n\t@handler h\n\tget %s\n}\n" % pth, "service s {\n\t@handler h\n\tget %s (T) returns (U)\n}\n" % pth,
                "service s {\n\t@handler h\n\tget %s returns (U);\n\t@handler g\n\tpost %s\n}\n" % (pth, pth)]
    for v in LEX_SVALUES:
        res += ["@server (\n\tk: %s\n)\n" % v + SVC, "@server (\n\tk: %s\n\tj: %s\n)\n" % (v, v) + SVC]
    base = ('// head\nsyntax = "v1"\n\ninfo (\n\ttitle: "t" // c\n)\n\ntype T {\n\tA int `json:"a"` // a\n\t/* b */\n\tB, C []string\n}\n\n'
            '@server (\n\tprefix: /api/v1\n\ttimeout: 1h30m\n)\nservice s-api {\n\t@doc "d"\n\t@handler h\n\tget /a/:id (T) returns ([]T) // r\n}\n')
    res += [base, base.replace("\n", "\r\n"), base.replace("\n", "\r"), base.replace("\t", "    "), base.replace(" ", "\t"),
            base.replace("\n", " \n"), base.replace("\n", "\t\n"), "\ufeff" + base, base.replace("type T", "\ufefftype T"),
            base.rstrip("\n"), base + "\n\n\n", base + "\x00", base.replace("type T", "\x00type T"), base.replace("\n\n", "\n\f\n"),
            base.replace("\n\n", "\n\v\n"), base.replace("type T", "type\u00a0T"), base.replace("\n\n", "\n\u2028\n"),
            base.replace("\n", "\n\n"), base.replace("\n", ""), base.replace("\n\t", " ").replace("\n", " ")]
    seen = set()
    out = []
    for x in res:
        if x not in seen and x.strip("\x00 \t\r\n") and x[0] != "\x00":
            seen.add(x)
            out.append(x)
    return out


class Gen:
    def __init__(self, rng, opts=None):
        self.r = rng
        self.o = dict(percent=False, f10=True, empties=True, adjacent=False, maxstmts=7,
                      emptydoc=False, svc_comment=False, multi_indent=False, empty_after_import=False,
                      strws=False, glue=True, cmt_tab=False, ff=False)
        self.svcnames = []
        self.in_field = 0       # inside the members of a struct: free gaps are "fld"
        if opts:
            self.o.update(opts)
        self.a = []
        self.types = []
        self.nid = 0

    # ---- atoms ---------------------------------------------------------------
    def t(self, text, gap=None):
        """emit a token; gap = policy of the gap *before* it (default any-s)"""
        if self.a:
            self.a.append(("G", gap or ("fld" if self.in_field else "any-s")))
        self.a.append(("T", text))

    def ident(self, upper=False, allow_kw_like=True):
        r = self.r
        while True:
            w = r.choice(WORDS)
            if r.random() < 0.5:
                w = w + str(r.randrange(30))
            if upper:
                w = w[0].upper() + w[1:] if w[0] != "_" else "T" + w
            if w in GO_KEYWORDS:
                continue
            return w

    def pident(self):
        while True:
            w = self.ident()
            if w != "returns":
                return w

    def string(self, nonzero=False):
        r = self.r
        if nonzero:
            while True:
                v = self.string()
                if v != '""':
                    return v
        parts = []
        for _ in range(r.randint(0, 3)):
            parts.append(r.choice(["a", "hello world", "x/y", "{id}", "1.0", "it's", "α", "a-b", " ", "#", "//no", "/*no*/"]))
        s = " ".join(parts) if r.random() < 0.7 else "".join(parts)
        if self.o["percent"] and r.random() < 0.5:
            s += r.choice(["100%", "%d", "50% off", "%"])
        if r.random() < 0.03:
            s += "x" * r.choice([80, 200, 600])        # a very long line
        if r.random() < 0.05:
            s += r.choice(["日本語", "é", "\\n", "\\", "'", "`", "@doc", "}", "µs", "\u00a0", "\u2028"])
        if self.o["strws"] and r.random() < 0.3:
            s += r.choice(["a\tb", "\t", "x \n y", "x\n  y", "x  \ny"])
        if self.o["ff"] and r.random() < 0.3:
            # form feed / vertical tab: "end of line" / "end of cell" for the tabwriter
            s += r.choice(["a\x0cb", "\x0b", "x\x0c", "\x0c\x0by"])
        if not s and not (self.o["empties"] and r.random() < 0.3):
            s = "v"
        return '"' + s + '"'

    def rawstring(self):
        r = self.r
        k = r.choice(["json", "form", "path", "header"])
        n = r.choice(["a", "id", "user_name", "x"])
        opt = r.choice(["", ",optional", ",default=1", ",options=a|b", ",range=[1:5]"])
        s = '%s:"%s%s"' % (k, n, opt)
        if r.random() < 0.2:
            s += ' validate:"required"'
        if self.o["percent"] and r.random() < 0.3:
            s += r.choice([' fmt:"%d"', ' x:"100%"', '%'])
        if r.random() < 0.06:
            # characters next to the back quotes, unicode, things that look like other tokens
            s = r.choice([" ", "", '"', "//", "/*", "*/", "é", "日本", "\\", "{", "@handler"]) + s + \
                r.choice([" ", "", '"', "//", "*/", "é", "}", "\\"])
        if r.random() < 0.02:
            s += ' d:"' + "y" * r.choice([100, 400]) + '"'
        if self.o["strws"] and r.random() < 0.25:
            s += r.choice(["\tk:\"v\"", "\n k:\"v\"", " \nk:\"v\"", "\n\tk:\"v\""])
        if self.o["ff"] and r.random() < 0.25:
            s += r.choice(["\x0ck:\"v\"", " k:\"\x0b\"", "\x0b"])
        return "`" + s + "`"

    # ---- grammar -------------------------------------------------------------
    def program(self):
        r = self.r
        n = r.randint(1, self.o["maxstmts"])
        kinds = []
        if r.random() < 0.7:
            kinds.append("syntax")
        if r.random() < 0.4:
            kinds.append("info")
        for _ in range(n):
            kinds.append(r.choice(["import", "imports", "type", "type", "types", "types", "service", "service", "service",
                                   "info", "syntax"] if r.random() < 0.15 else
                                  ["import", "imports", "type", "types", "types", "service", "service"]))
        if self.o["empties"] and self.o["empty_after_import"] and r.random() < 0.3:
            # runs of single-line imports, and statements the formatter deletes in every position
            # relative to them and to the other statements (start, between, end of file)
            out = []
            for k in kinds:
                out += ["import"] * r.choice([2, 3]) if (k == "import" and r.random() < 0.5) else [k]
            kinds = out
            for _ in range(r.choice([1, 1, 2, 3])):
                near = [i + d for i, k in enumerate(kinds) if k == "import" for d in (0, 1)]
                pos = r.choice(near) if near and r.random() < 0.6 else r.randint(0, len(kinds))
                kinds.insert(pos, r.choice(DELETED_KINDS))
        first = True
        prevk = None
        for k in kinds:
            start = len(self.a)
            # a statement the formatter deletes (empty group, import "") right after a single
            # import changes the blank lines of the next pass (finding F21)
            saved = self.o["empties"]
            if prevk == "import" and not self.o["empty_after_import"]:
                self.o["empties"] = False
            if k in DELETED_KINDS:
                self.s_deleted(k)
            else:
                getattr(self, "s_" + k)()
            self.o["empties"] = saved
            prevk = k
            # statements conventionally start on a new line
            if not first and start < len(self.a) and self.a[start][0] == "G":
                self.a[start] = ("G", "any-n")
            first = False
        return self.a

    def s_deleted(self, k):
        """a statement that format.Source deletes"""
        r = self.r
        if k == "d_info0":
            self.t("info"); self.t("("); self.t(")", "any-n")
        elif k == "d_infoz":
            self.t("info"); self.t("(")
            for _ in range(r.randint(1, 3)):
                self.t(r.choice(["title", "desc", self.ident()]), "any-n"); self.t(":"); self.t(r.choice(['""', '""', "``"]))
            self.t(")", "any-n")
        elif k == "d_import":
            self.t("import"); self.t('""')
        elif k == "d_imports0":
            self.t("import"); self.t("("); self.t(")", "any-n")
        elif k == "d_importsz":
            self.t("import"); self.t("(")
            for _ in range(r.randint(1, 3)):
                self.t('""', "any-n")
            self.t(")", "any-n")
        else:
            self.t("type"); self.t("("); self.t(")", "any-n")

    def s_syntax(self):
        self.t("syntax")
        self.t("=")
        self.t(self.r.choice(['"v1"', '"v2"', self.string()]))

    def kvs(self, raw_ok=True, nonzero=False):
        r = self.r
        n = r.choice([0, 1, 1, 2, 3, 4]) if (self.o["empties"] and not nonzero) else r.randint(1, 4)
        for i in range(n):
            self.t(r.choice(["title", "desc", "author", "version", "summary", self.ident()]), "any-n")
            self.t(":")
            self.t(self.rawstring() if raw_ok and r.random() < 0.2 else self.string(nonzero and i == 0))
        return n

    def s_info(self):
        self.t("info")
        self.t("(")
        self.kvs()
        self.t(")", "any-n")

    def s_import(self):
        self.t("import")
        self.t(self.string(not (self.o["empties"] and self.o["empty_after_import"])) if self.r.random() < 0.3
               else '"%s.api"' % self.ident())

    def s_imports(self):
        r = self.r
        self.t("import")
        self.t("(")
        n = r.choice([0, 1, 2, 3, 4, 6]) if self.o["empties"] else r.randint(1, 6)
        for _ in range(n):
            self.t('"%s.api"' % self.ident() if r.random() < 0.85 else self.string(), "any-n")
        self.t(")", "any-n")

    def tname(self):
        self.nid += 1
        n = self.ident(upper=True) + str(self.nid)
        self.types.append(n)
        return n

    def s_type(self):
        self.t("type")
        self.texpr("any-s")

    def s_types(self):
        r = self.r
        self.t("type")
        self.t("(")
        n = r.choice([0, 1, 2, 3]) if self.o["empties"] else r.randint(1, 3)
        for _ in range(n):
            self.texpr("any-n")
        self.t(")", "any-n")

    def texpr(self, gap):
        r = self.r
        self.t(self.tname(), gap)
        if r.random() < 0.15:
            self.t("=")
        if r.random() < 0.75:
            self.struct(0)
        else:
            self.dtype(0, top=True)

    def tref(self):
        r = self.r
        if self.types and r.random() < 0.4:
            return r.choice(self.types)
        if r.random() < 0.1:
            return self.ident(upper=True)
        return r.choice(BASE)

    def dtype(self, depth, top=False, gap=None, nostruct=False):
        """emit a data type; gap = policy before its first token"""
        r = self.r
        x = r.random()
        if depth > 3:
            x = 0.0
        if x < 0.45:
            self.t(self.tref(), gap)
        elif x < 0.52:
            self.t("interface{}", gap)
        elif x < 0.65:
            self.t("[", gap)
            self.t("]")
            self.dtype(depth + 1, nostruct=nostruct)
        elif x < 0.72:
            self.t("[", gap)
            self.t(r.choice(["3", "0", "16", "..."]))
            self.t("]")
            self.dtype(depth + 1, nostruct=nostruct)
        elif x < 0.82:
            self.t("map", gap)
            self.t("[")
            if r.random() < 0.8:
                self.t(r.choice(["string", "int", "int64", self.tref()]))
            else:
                self.dtype(depth + 1, nostruct=True)
            self.t("]")
            self.dtype(depth + 1, nostruct=nostruct)
        elif x < 0.92:
            self.t("*", gap)
            # pointer: IDENT | [ | interface{} | *   (not '{')
            self.dtype(depth + 1, nostruct=True)
        else:
            if nostruct or depth > 2:
                self.t(self.tref(), gap)
            else:
                self.struct(depth + 1, gap)

    def struct(self, depth, gap=None):
        r = self.r
        self.t("{", gap)
        self.in_field += 1
        try:
            self._members(depth)
        finally:
            self.in_field -= 1

    def _members(self, depth):
        r = self.r
        n = r.choice([0, 1, 2, 3, 4, 5]) if depth == 0 else r.choice([0, 1, 2])
        must_nl = False
        for _ in range(n):
            g = "nl" if must_nl else "any-n"
            must_nl = False
            x = r.random()
            if x < 0.15:
                # embedded field: IDENT | *IDENT, optional tag
                if r.random() < 0.3:
                    self.t("*", g)
                    self.t(self.tref() if r.random() < 0.5 else self.ident(upper=True))
                    if r.random() < 0.3:
                        self.t(self.rawstring())
                else:
                    self.t(self.tref() if r.random() < 0.5 else self.ident(upper=True), g)
                    if r.random() < 0.3:
                        self.t(self.rawstring())
                    else:
                        must_nl = True
            else:
                self.t(self.ident(upper=r.random() < 0.8), g)
                k = 0
                while r.random() < 0.12 and k < 3:
                    self.t(",", "same" if k == 0 else None)
                    self.t(self.ident(upper=True))
                    k += 1
                tg = "same" if k == 0 else None
                if depth <= 1 and r.random() < 0.12:
                    # a member whose type contains an inline struct: T {..}, []{..}, map[K]{..}, [N]{..}
                    y = r.random()
                    if y < 0.4:
                        self.struct(depth + 1, tg)
                    elif y < 0.6:
                        self.t("[", tg)
                        self.t("]", "fld")
                        self.struct(depth + 1, "fld")
                    elif y < 0.8:
                        self.t("map", tg)
                        self.t("[", "fld")
                        self.t(r.choice(["string", "int64"]), "fld")
                        self.t("]", "fld")
                        self.struct(depth + 1, "fld")
                    else:
                        self.t("[", tg)
                        self.t(r.choice(["2", "..."]), "fld")
                        self.t("]", "fld")
                        self.struct(depth + 1, "fld")
                    if r.random() < 0.85:
                        self.t(self.rawstring(), "fld")
                else:
                    self.dtype(depth, gap=tg)
                    if r.random() < 0.7:
                        self.t(self.rawstring(), "fld")
        self.t("}", "nl" if must_nl else "any-n")

    def duration(self):
        """a DURATION token of scanner.go: units in the order h m s ms µs ns, each at most once,
        digits before every unit (1h30m, 100ms, 1s500ms, 2µs, 1m5s10ms3µs7ns ...)"""
        r = self.r
        units = ["h", "m", "s", "ms", "µs", "ns"]
        k = r.choice([1, 1, 1, 2, 2, 3, 6])
        idx = sorted(r.sample(range(6), k))
        return "".join(str(r.choice([0, 1, 5, 30, 100, 1500])) + units[i] for i in idx)

    def svalue(self):
        """@server value"""
        r = self.r
        x = r.random()
        if x < 0.25:
            self.t(self.ident())
        elif x < 0.35:
            self.t(self.string())
        elif x < 0.43:
            self.t(r.choice(["1", "1024", "0", "007", "18446744073709551616"]))
        elif x < 0.53:
            self.t(self.duration())
        elif x < 0.63:
            self.t(self.ident())
            for _ in range(r.randint(1, 3)):
                self.t(",")
                self.t(self.ident())
        elif x < 0.73:
            self.t(self.ident())
            for _ in range(r.randint(1, 3)):
                self.t("-", "glue")
                self.t(self.ident(), "glue")
        else:
            lead = r.random() < 0.5
            if lead:
                self.t(self.ident())
            for i in range(r.randint(0 if lead else 1, 3)):
                self.t("/", "glue" if (lead or i > 0) else None)
                self.t(self.ident(), "glue")
                if r.random() < 0.2:
                    self.t("-", "glue")
                    self.t(self.ident(), "glue")

    def s_service(self):
        r = self.r
        if r.random() < 0.5:
            self.t("@server")
            self.t("(")
            n = r.choice([0, 1, 2, 3, 4]) if self.o["empties"] else r.randint(1, 4)
            allzero = self.o["empties"] and r.random() < 0.08      # a block the formatter deletes
            for _ in range(n):
                self.t(r.choice(["group", "prefix", "jwt", "middleware", "timeout", "maxBytes", "summary", self.ident()]), "any-n")
                self.t(":")
                if allzero:
                    self.t('""')
                else:
                    self.svalue()
            self.t(")", "any-n")
            self.t("service", "any-n")
        else:
            self.t("service")
        # several service blocks of one file usually carry the same name
        if self.svcnames and r.random() < 0.6:
            name, api = r.choice(self.svcnames)
        else:
            name, api = self.ident(), r.random() < 0.5
            self.svcnames.append((name, api))
        self.t(name)
        if api:
            self.t("-", "glue")
            self.t("api", "glue")
        self.t("{")
        nitems = r.choice([0, 1, 1, 2, 3, 4])
        for _ in range(nitems):
            self.item()
        # a comment inside an empty service body is finding F16
        self.t("}", "any-n" if (nitems > 0 or self.o["svc_comment"]) else "nocomment")

    def body(self, gap=None, nonempty=False):
        r = self.r
        self.t("(", gap)
        if self.o["empties"] and not nonempty and r.random() < 0.12:
            self.t(")")
            return
        if r.random() < 0.25:
            self.t("[")
            self.t("]")
        if r.random() < 0.2:
            self.t("*")
        self.t(r.choice(self.types) if self.types and r.random() < 0.8 else self.ident(upper=True))
        self.t(")")

    def path(self):
        r = self.r
        nseg = r.choice([0, 1, 1, 2, 2, 3])
        self.t("/")
        for i in range(nseg):
            if i > 0:
                self.t("/", "glue")
            colon = r.random() < 0.25
            if colon:
                self.t(":", "tight")
            self.t(r.choice(["1", "42", "2024"]) if r.random() < 0.07 else self.pident(), "glue" if colon else "tight")
            while r.random() < 0.2:
                self.t("-", "glue")
                self.t(self.pident(), "glue")
            if self.o["adjacent"] and r.random() < 0.3:
                self.t(self.ident(), "same")
        if nseg > 0 and r.random() < 0.07:
            self.t("/", "glue")   # trailing slash

    def item(self):
        r = self.r
        if r.random() < 0.45:
            self.t("@doc", "any-n")
            nz = not self.o["emptydoc"]      # an all-empty @doc is finding F15
            if r.random() < 0.6:
                self.t(self.string(nz))
            else:
                self.t("(")
                self.kvs(raw_ok=True, nonzero=nz)
                self.t(")", "any-n")
        self.t("@handler", "any-n")
        self.t(self.ident())
        self.t(r.choice(HTTP), "any-n")
        self.path()
        # gap after the last token of the path, before '(' or 'returns': often a comment and a
        # line break (the repaired finding F10), whatever follows -- also an empty "()"
        after_path = "path-end"
        x = r.random()
        if x < 0.75:
            self.body(after_path)
            if r.random() < 0.7:
                self.t("returns", "route")
                self.body("route")
        elif x < 0.9:
            self.t("returns", after_path)
            self.body("route")
        if r.random() < 0.08:
            self.t(";")


# ---- decoration -------------------------------------------------------------------------

CWORDS = ["c1", "todo", "note: x", "see /a/b", "αβ", "a*b", "x = y", "{", "}", "(", "@handler h", "type T {", "returns", "\"q", "`", "//", "-"]


class Deco:
    def __init__(self, rng, odd=0.15, pc=0.15, percent=False, inline=1, multi_indent=False, f10=True, glue=True, cmt_tab=False, ff=False):
        self.r = rng
        # 0: comments only at conventional line ends / on their own lines between elements
        # 1: + single-line block comments between tokens of one line
        # 2: + line comments / line breaks with comments inside constructs printed on one line
        self.inline = int(inline)
        self.multi_indent = multi_indent
        self.f10 = f10
        self.o_glue = glue
        self.cmt_tab = cmt_tab
        self.ff = ff
        self.odd = odd     # probability of an unconventional layout in a free gap
        self.pc = pc       # comment density
        self.percent = percent
        self.nc = 0

    def ctext(self):
        r = self.r
        self.nc += 1
        s = r.choice(CWORDS) + (" %d" % self.nc)
        if self.percent and r.random() < 0.4:
            s += r.choice([" 100%", " %s", " 5% d"])
        if self.cmt_tab and r.random() < 0.3:
            s += r.choice(["\t", "\tx", " \t ", "\t\t", "  ", "   "])
        elif r.random() < 0.05:
            s += " "          # a trailing blank
        if self.ff and r.random() < 0.3:
            s += r.choice(["\x0c", "\x0bz", " \x0c w", "\x0b\x0c"])
        return s

    def line_comment(self):
        return "//" + self.r.choice(["", " "]) + self.ctext()

    def block(self, multiline=False):
        r = self.r
        return self._fixblock(self._block(multiline))

    @staticmethod
    def _fixblock(s):
        # goctl's scanner closes a block comment at the first '/' that follows any '*'
        # (the "half closed" state is never left), so '/' must not occur after a '*' inside
        body = s[2:-2]
        i = body.find("*")
        if i >= 0:
            body = body[:i] + body[i:].replace("/", "|")
        return "/*" + body + "*/"

    def _block(self, multiline=False):
        r = self.r
        if multiline and r.random() < 0.6:
            # continuation lines that start with a tab or with 2+ blanks are re-indented by every
            # formatting pass (finding F17)
            cont = ["", " * ", "* "] + (["\t", "  ", "\t\t * "] if self.multi_indent else [])
            return "/*" + r.choice(["", "*", " "]) + self.ctext() + "\n" + r.choice(cont) + self.ctext() + r.choice(["\n */", " */", "*/", "\n*/"])
        return "/*" + r.choice(["", "*", " "]) + self.ctext() + r.choice([" ", ""]) + "*/"

    def ws(self, conventional=" "):
        r = self.r
        if r.random() < 0.8:
            return conventional
        return r.choice(["", " ", "  ", "\t", " \t ", "   "])

    def same(self, allow_comment=True, allow_empty=False):
        """layout that stays on the line"""
        r = self.r
        s = self.ws()
        if allow_comment and self.inline >= 1 and r.random() < self.pc * 0.5:
            s = (self.ws() or " ") + self.block() + self.ws()     # "/" + "/*..." would be a line comment
        if s == "" and not allow_empty:
            s = " "
        return s

    def newline(self, indent, comments=True):
        r = self.r
        s = ""
        if not comments:
            s = r.choice(["", "", " ", "\t"]) + "\n"
            while r.random() < 0.2:
                s += r.choice(["", "", " ", "\t"]) + "\n"
            return s + (indent if r.random() < 0.85 else r.choice(["", " ", "\t\t\t", "    "]))
        # trailing part of the current line
        x = r.random()
        if x < self.pc:
            s += (self.ws() or " ") + self.line_comment()
        elif x < self.pc * 1.4:
            s += (self.ws() or " ") + self.block() + self.ws("")
            if r.random() < 0.3:
                s += " " + self.line_comment()
        elif r.random() < 0.1:
            s += r.choice([" ", "\t", "  "])
        s += "\n" if r.random() < 0.97 else "\r\n"
        # blank lines and head comments
        while r.random() < 0.2:
            s += r.choice(["", "", " ", "\t"]) + "\n"
        while r.random() < self.pc:
            ind = indent if r.random() < 0.8 else r.choice(["", " ", "\t\t"])
            if r.random() < 0.6:
                s += ind + self.line_comment() + "\n"
            else:
                s += ind + self.block(multiline=True)
                if r.random() < 0.25:
                    s += " "          # block comment then the token on the same line
                    return s
                s += "\n"
            while r.random() < 0.15:
                s += "\n"
        s += indent if r.random() < 0.85 else r.choice(["", " ", "\t\t\t", "    "])
        return s

    def render(self, atoms):
        r = self.r
        out = []
        depth = 0
        prev = None
        for i, (k, v) in enumerate(atoms):
            if k == "T":
                if v in ")}":
                    pass
                out.append(v)
                prev = v
                continue
            nxt = atoms[i + 1][1]
            d = depth_after(atoms, i)
            indent = "\t" * d if r.random() < 0.9 else "  " * d
            if v == "tight":
                out.append("" if r.random() < 0.93 or needs_space(prev, nxt) else r.choice([" ", "\t", "  "]))
            elif v == "glue":
                if not self.o_glue or r.random() < 0.85:
                    out.append(" " if needs_space(prev, nxt) else "")
                elif r.random() < self.odd and self.inline >= 2:
                    out.append(self.newline(indent, comments=True))
                else:
                    out.append(self.same(allow_empty=not needs_space(prev, nxt)))
            elif v == "same":
                out.append(self.same())
            elif v == "nl":
                out.append(self.newline(indent))
            elif v == "nocomment":
                out.append(r.choice(["", " ", "\n", "\n\n", " \n\t"]))
            elif v == "path-end" and self.f10 and r.random() < 0.3:
                # (repaired finding F10) a comment right after the route path, then a line break
                out.append((self.ws() or " ") + (self.line_comment() if r.random() < 0.6 else self.block()) + "\n" + indent)
            elif v == "fld" and self.inline >= 2 and r.random() < 0.45:
                x = r.random()
                if x < 0.3:        # end-of-line comment behind the previous token, next token on the next line
                    out.append((self.ws() or " ") + (self.line_comment() if r.random() < 0.6 else self.block()) + "\n" + indent)
                elif x < 0.6:      # comment on lines of its own
                    out.append("\n" + indent + (self.line_comment() if r.random() < 0.5 else self.block(r.random() < 0.3)) + "\n" + indent)
                elif x < 0.75:     # comment on the line of the next token
                    out.append("\n" + indent + self.block() + " ")
                elif x < 0.85:     # a bare line break
                    out.append("\n" + indent)
                else:
                    out.append(self.same())
            elif v in ("any-s", "path-end", "route", "fld"):
                if r.random() < self.odd:
                    out.append(self.newline(indent, comments=self.inline >= 2))
                else:
                    out.append(self.same(allow_empty=not needs_space(prev, nxt)))
            else:
                if r.random() < self.odd * 0.6:
                    out.append(self.same(allow_empty=not needs_space(prev, nxt)))
                else:
                    out.append(self.newline(indent))
        text = "".join(out)
        # file head / tail
        head = ""
        while r.random() < self.pc:
            head += (self.line_comment() if r.random() < 0.6 else self.block(True)) + "\n" + ("\n" if r.random() < 0.3 else "")
        tail = "\n" if r.random() < 0.9 else ""
        while r.random() < self.pc:
            tail += ("" if tail.endswith("\n") or not tail else "\n") + (self.line_comment() if r.random() < 0.6 else self.block(True)) + ("\n" if r.random() < 0.7 else "")
        if r.random() < 0.05:
            tail += " // " + self.ctext()
        return head + text + tail


_depth_cache = {}


def depth_after(atoms, i):
    """nesting depth (brackets) of the token following gap i"""
    key = id(atoms)
    dc = _depth_cache.get(key)
    if dc is None or dc[0] is not atoms:
        depths = []
        d = 0
        for k, v in atoms:
            if k == "T":
                if v in (")", "}"):
                    d = max(0, d - 1)
                depths.append(d)
                if v in ("(", "{"):
                    d += 1
            else:
                depths.append(None)
        _depth_cache.clear()
        _depth_cache[key] = (atoms, depths)
        dc = _depth_cache[key]
    return dc[1][i + 1] or 0


_WORD = re.compile(r"[A-Za-z0-9_µ\"`@]")


def needs_space(a, b):
    """would tokens a b lex differently if written without a separator?"""
    if a is None or b is None:
        return False
    if _WORD.match(a[-1]) and _WORD.match(b[0]):
        return True
    if a == "/" and b[0] in "/*":
        return True
    if a == "." and b == ".":
        return True
    if a == "interface" and b == "{":
        return True
    return False


# ---- mutation ---------------------------------------------------------------------------

TOKEN_RE = re.compile(r'"[^"\n]*"|`[^`]*`|//[^\n]*|/\*.*?\*/|@?[A-Za-z_][A-Za-z_0-9]*|[0-9]+[a-zµ]*|\.\.\.|\S', re.S)
GARBAGE = ["@", "#", "$", "\"", "`", "/*", "*/", "//", "{", "}", "(", ")", "[", "]", ":", ",", "-", "=", ";", ".", "...",
           "\x00", "\x7f", "µ", "€", "@doc", "@handler", "@server", "@foo", "returns", "service", "type", "map", "interface{}",
           "struct", "1s2", "9999999999999999999999", "\\", "'", "?", "get", "*", "/", "\n"]


def mutants(rng, src, n):
    toks = [(m.start(), m.end()) for m in TOKEN_RE.finditer(src)]
    res = []
    for _ in range(n):
        x = rng.random()
        s = src
        if not toks:
            x = 0.9
        if x < 0.3:      # delete 1..3 tokens
            k = rng.randint(1, 3)
            for _ in range(k):
                tk = [(m.start(), m.end()) for m in TOKEN_RE.finditer(s)]
                if not tk:
                    break
                a, b = rng.choice(tk)
                s = s[:a] + s[b:]
        elif x < 0.5:    # swap two adjacent tokens
            if len(toks) >= 2:
                i = rng.randrange(len(toks) - 1)
                (a, b), (c, d) = toks[i], toks[i + 1]
                s = src[:a] + src[c:d] + src[b:c] + src[a:b] + src[d:]
        elif x < 0.58:   # truncate anywhere
            s = src[:rng.randrange(1, max(2, len(src)))]
        elif x < 0.65:   # truncate right after an operator ("dangling operator")
            ops = [e for (a, e) in toks if src[a:e] in ("-", ":", "=", "(", "[", "{", "/", "*", ",", "@handler", "@doc", "returns")]
            s = src[:rng.choice(ops)] if ops else src[:rng.randrange(1, max(2, len(src)))]
        elif x < 0.85:   # insert garbage at a token boundary
            a, b = rng.choice(toks)
            pos = rng.choice([a, b])
            s = src[:pos] + rng.choice([" ", ""]) + rng.choice(GARBAGE) + rng.choice([" ", ""]) + src[pos:]
        elif x < 0.93:   # replace a token by another one of the program
            a, b = rng.choice(toks)
            c, d = rng.choice(toks)
            s = src[:a] + src[c:d] + src[b:]
        elif x < 0.97:   # duplicate a token
            a, b = rng.choice(toks)
            s = src[:b] + " " + src[a:b] + src[b:]
        elif x < 0.985:  # a comment where the parser forbids one: on the line of a '/' of a route path
            sl = [e for (a, e) in toks if src[a:e] == "/"]
            pos = rng.choice(sl) if sl else 0
            s = src[:pos] + rng.choice([" /* c */", "/**/", " // c\n"]) + src[pos:]
        else:            # byte order mark / NUL (the scanner's end-of-input mark) / lone CR
            pos = rng.choice([0, 0, rng.randrange(len(src) + 1)])
            s = src[:pos] + rng.choice(["\ufeff", "\x00", "\r", "\ufffd", "\x0c"]) + src[pos:]
        if s.strip("\x00 \t\r\n\f\v") == "" or s[0] == "\x00":
            s = "x" + s
        res.append(s)
    return res


# ---- invalid sources, enumerated ---------------------------------------------------------

MUT_BASE = ['syntax = "v1"\n',
            'info (\n\ttitle: "t"\n\tdesc: `d`\n)\n',
            'import "a.api"\nimport (\n\t"b.api"\n)\n',
            'type T {\n\tA, B int `json:"a"` // c\n\tFoo\n\t*Bar\n\tM map[string][]*T\n\tN [2]any\n}\n',
            'type (\n\tU = interface{}\n\tV {\n\t\tW {\n\t\t\tX [...]int\n\t\t}\n\t}\n)\n',
            '@server (\n\tprefix: /api/v1\n\ttimeout: 1h30m\n\tjwt: Auth\n\tmw: A,B\n\tn: 10\n)\nservice s-api {\n}\n',
            'service s {\n\t@doc "d"\n\t@handler h\n\tget /a/:id/b-c (Req) returns ([]*Resp);\n\t/* k */\n\t@doc (\n\t\tx: "y"\n\t)\n\t@handler g\n\tpost /\n}\n']
# one character of every lexical class of scanner.go
MUT_CHARS = ['"', "`", "@", "/", "*", "(", ")", "{", "}", "[", ":", ",", ".", "-", "=", ";", "a", "1", "s", " ", "\n", "#", "\x00", "µ"]


def char_mutations(part=None, parts=1):
    """per-position single-character mutations of a small corpus that uses every construct: at every
    position of every program the character is deleted, replaced by and preceded by one character of
    every lexical class.  Each mutant is a CASE of its own (not only "no crash"): the model scanner
    must read the same tokens / report an error where scanner.go does, the model parser must reject
    it iff goctl's parser does, and an invalid one must be an error of the parser, of format.Source
    and of format.File.  part/parts: the k-th of n slices (quick tier); all of them otherwise."""
    res = []
    for p in MUT_BASE:
        for i in range(len(p)):
            res.append(p[:i] + p[i + 1:])
            for c in MUT_CHARS:
                if c != p[i]:
                    res.append(p[:i] + c + p[i + 1:])
                res.append(p[:i] + c + p[i:])
        res += [p + c for c in MUT_CHARS]
    seen = set(MUT_BASE)
    out = []
    for x in res:
        if x not in seen and x.strip("\x00 \t\r\n") and x[0] != "\x00":
            seen.add(x)
            out.append(x)
    if part is not None:
        out = out[part % parts::parts]
    return out


def multi_file_set(rng):
    """a set of .api files importing one another that goctl's analyzer accepts (declared types only,
    one service name, unique handlers and routes), in a random odd layout with comments on lines of
    their own and at line ends: {"files": {name: text}, "root": name}"""
    base = ["int", "string", "bool", "int64", "[]string", "map[string]int", "*int", "[]byte", "float64"]
    names = []

    def tdef(i):
        n = "T%d" % i
        members = []
        for j in range(rng.randint(0, 4)):
            ty = rng.choice(base + names + ["[]" + x for x in names] + ["*" + x for x in names] + ["map[string]" + x for x in names])
            tag = rng.choice(['`json:"f%d"`' % j, '`json:"f%d,optional"`' % j, '`form:"f%d"`' % j, ""])
            members.append("\tF%d %s %s" % (j, ty, tag))
        if names and rng.random() < 0.3:
            members.append("\t" + rng.choice(names))
        names.append(n)
        return n, members

    def types_block(k0, k):
        defs = [tdef(i) for i in range(k0, k0 + k)]
        if rng.random() < 0.5:
            return "type (\n" + "".join("\t%s {\n%s\t}\n" % (n, "".join("\t" + m + "\n" for m in ms)) for n, ms in defs) + ")\n"
        return "".join("type %s {\n%s}\n" % (n, "".join(m + "\n" for m in ms)) for n, ms in defs)

    hid = [0]

    def service_block(name):
        text = ""
        if rng.random() < 0.6:
            text += "@server (\n\tgroup: g%d\n\tprefix: /v%d\n%s)\n" % (hid[0], hid[0], rng.choice(["", "\ttimeout: 3s\n", "\tjwt: Auth\n"]))
        text += "service %s {\n" % name
        for _ in range(rng.randint(1, 3)):
            hid[0] += 1
            if rng.random() < 0.5:
                text += rng.choice(['\t@doc "d%d"\n' % hid[0], '\t@doc (\n\t\tsummary: "s%d"\n\t)\n' % hid[0], '\t@doc ""\n'])
            text += "\t@handler h%d\n" % hid[0]
            req = rng.choice(["", " (%s)" % rng.choice(names)]) if names else ""
            resp = rng.choice(["", " returns (%s)" % rng.choice(names), " returns ([]%s)" % rng.choice(names)]) if names else ""
            text += "\t%s /r%d/:id%s%s\n" % (rng.choice(["get", "post", "put"]), hid[0], req, resp)
        return text + "}\n"

    svc = rng.choice(["demo", "demo-api"])
    f_types = types_block(0, rng.randint(1, 3))
    chain = rng.random() < 0.5          # root -> more -> types, or root -> {types, more}
    f_more = ('import "types.api"\n' if chain else "") + types_block(10, rng.randint(1, 2)) + service_block(svc)
    root = 'syntax = "v1"\n\ninfo (\n\ttitle: "multi"\n\tdesc: ""\n)\n\n'
    if chain:
        root += rng.choice(['import "more.api"\n', 'import (\n\t"more.api"\n)\n', 'import "more.api"\ntype ()\n'])
    else:
        root += rng.choice(['import "types.api"\nimport "more.api"\n', 'import (\n\t"types.api"\n\t"more.api"\n)\n',
                            'import "types.api"\ntype ()\nimport (\n\t"more.api"\n)\n'])
    root += types_block(20, rng.randint(0, 2)) + service_block(svc) + (service_block(svc) if rng.random() < 0.4 else "")

    def mess(text):
        out = []
        for ln in text.split("\n"):
            if rng.random() < 0.3:
                ln = ln.lstrip("\t")
            if rng.random() < 0.2:
                ln = ln.replace(" ", rng.choice(["  ", "\t", " \t "]))
            if ln.strip() and rng.random() < 0.12 and "`" not in ln and '"' not in ln:
                ln += rng.choice([" // c%d" % len(out), " /* c%d */" % len(out)])
            if rng.random() < 0.08:
                out.append(rng.choice(["// own %d" % len(out), "", "/* own %d */" % len(out)]))
            out.append(ln)
        return ("\r\n" if rng.random() < 0.1 else "\n").join(out)

    files = {"types.api": mess(f_types), "more.api": mess(f_more), "root.api": mess(root)}
    return {"files": files, "root": "root.api", "src": files["root.api"], "muts": []}


def generate(rng, opts=None, odd=None, pc=None, inline=1):
    g = Gen(rng, opts)
    d = Deco(rng, odd=odd if odd is not None else rng.choice([0.0, 0.05, 0.15, 0.3]),
             pc=pc if pc is not None else rng.choice([0.0, 0.05, 0.15, 0.3, 0.45]),
             percent=g.o["percent"], inline=inline, multi_indent=g.o["multi_indent"], f10=g.o["f10"], glue=g.o["glue"], cmt_tab=g.o["cmt_tab"], ff=g.o["ff"])
    if rng.random() < 0.015:
        # a file that holds nothing but comments
        text = ""
        for _ in range(rng.randint(1, 4)):
            text += (d.line_comment() if rng.random() < 0.6 else d.block(True)) + rng.choice(["\n", "\n\n", "\n \n"])
        return text if rng.random() < 0.7 else text.rstrip("\n")
    text = d.render(g.program())
    x = rng.random()
    if x < 0.04:
        text = text.replace("\r\n", "\n").replace("\n", "\r\n")     # a DOS file
    elif x < 0.06:
        # form feed / vertical tab are white space for the scanner
        text = re.sub(r"\n\n", lambda m: rng.choice(["\n\f\n", "\n\v\n", "\n\n"]), text)
    return text
