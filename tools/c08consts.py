"""C08 translator: the constants and constructions the C08 model and generator rely on
-> coq/gen/C08Consts.v, re-extracted from the Go sources on every run (regex over the
declarations; fails loudly when a declaration is no longer found — the runner reports that as a
broken obligation).  coq/theories/C08/GenProofs.v states what must hold of today's values.

  core/mapping/unmarshaler.go       delimiter, ignoreKey, defaultKeyName, readKeys (opaque keys bypass the key table)
  core/mapping/jsonunmarshaler.go   jsonTagKey, options of the JSON unmarshaller
  core/mapping/utils.go             option words and separators of the tag grammar; key of the struct-required memo
  rest/httpx/requests.go            tag keys and options of the form / path unmarshallers, order of the passes in Parse, maxBodyLen
  rest/httpx/util.go                maxFormParamCount, arraySuffix
  rest/internal/encoding/parser.go  tag key and options of the header unmarshaller
"""
import os
import re

import vlib
from vlib import cstr, clist, cz

OUT = os.path.join(vlib.COQ, "gen", "C08Consts.v")


def _read(rel):
    """the named file first, then the other non-test files of its package: a declaration that moved to
    another file of the package is still found (functions and constants are package-level)"""
    d = os.path.dirname(os.path.join(vlib.REPO, rel))
    first = os.path.join(vlib.REPO, rel)
    parts = [open(first).read()] if os.path.exists(first) else []
    for n in sorted(os.listdir(d)):
        q = os.path.join(d, n)
        if n.endswith(".go") and not n.endswith("_test.go") and q != first:
            parts.append(open(q).read())
    return "\n".join(parts)


def _str_const(src, name, rel):
    m = re.search(r"\b%s\s*=\s*\"([^\"]*)\"" % re.escape(name), src)
    if not m:
        raise RuntimeError("constant %s no longer found in %s" % (name, rel))
    return m.group(1)


def _char_const(src, name, rel):
    m = re.search(r"\b%s\s*=\s*'(\\?.)'" % re.escape(name), src)
    if not m:
        raise RuntimeError("constant %s no longer found in %s" % (name, rel))
    c = m.group(1)
    return c[1:] if c.startswith("\\") else c


def _int_const(src, name, rel):
    m = re.search(r"\b%s\s*=\s*(\d+)\s*(?:<<\s*(\d+))?" % re.escape(name), src)
    if not m:
        raise RuntimeError("constant %s no longer found in %s" % (name, rel))
    v = int(m.group(1))
    if m.group(2):
        v <<= int(m.group(2))
    return v


def _unmarshaler(src, var, rel, consts):
    """`var = mapping.NewUnmarshaler(key, opts...)` -> (tag key, sorted option names)"""
    m = re.search(r"\b%s\s*=\s*(?:mapping\.)?NewUnmarshaler\(((?:[^()]|\([^()]*\))*)\)" % re.escape(var), src)
    if not m:
        raise RuntimeError("%s = NewUnmarshaler(...) no longer found in %s" % (var, rel))
    args = [a.strip() for a in re.split(r",\s*(?![^()]*\))", m.group(1)) if a.strip()]
    key = args[0]
    if key.startswith('"'):
        key = key.strip('"')
    else:
        key = consts[key]
    opts = sorted(re.match(r"(?:mapping\.)?(With\w+)\(", a).group(1) for a in args[1:])
    return key, opts


def extract():
    c = {}
    rel = "core/mapping/unmarshaler.go"
    s = _read(rel)
    c["delimiter"] = _char_const(s, "delimiter", rel)
    c["ignoreKey"] = _str_const(s, "ignoreKey", rel)
    c["defaultKeyName"] = _str_const(s, "defaultKeyName", rel)
    c["key_unmarshaler"] = _unmarshaler(s, "keyUnmarshaler", rel, {"defaultKeyName": c["defaultKeyName"]})
    m = re.search(r"func readKeys\((\w+) string, (\w+) bool\) \[\]string \{\s*if \2 \{\s*return \[\]string\{\1\}\s*\}", s)
    c["opaque_bypasses_table"] = bool(m)
    if "func readKeys(" not in s:
        raise RuntimeError("readKeys no longer found in " + rel)
    m = re.search(r"defaultCache\s*=\s*make\(map\[(\w+)\]any\)", s)
    if not m:
        raise RuntimeError("defaultCache no longer found in " + rel)
    if m.group(1) == "string":
        c["default_memo_per_reading"] = False
    else:
        mm = re.search(r"%s struct \{([^}]*)\}" % re.escape(m.group(1)), s)
        c["default_memo_per_reading"] = bool(mm and re.search(r"\bbool\b", mm.group(1)) and re.search(r"\bstring\b", mm.group(1)))
    # absent struct / map / slice values are filled from a map: the package-level emptyMap (handed out to
    # map[string]any fields, F31) or a fresh one
    c["empty_map_private"] = "value: emptyMap" not in s
    rel = "core/mapping/jsonunmarshaler.go"
    s = _read(rel)
    c["jsonTagKey"] = _str_const(s, "jsonTagKey", rel)
    c["json_unmarshaler"] = _unmarshaler(s, "jsonUnmarshaler", rel, {"jsonTagKey": c["jsonTagKey"]})
    rel = "core/mapping/utils.go"
    s = _read(rel)
    for n in ("defaultOption", "envOption", "inheritOption", "stringOption", "optionalOption", "optionsOption",
              "rangeOption", "optionSeparator", "equalToken"):
        c[n] = _str_const(s, n, rel)
    for n in ("segmentSeparator", "escapeChar", "leftBracket", "rightBracket", "leftSquareBracket", "rightSquareBracket"):
        c[n] = _char_const(s, n, rel)
    # float32 fields read from strings: is the range checked on the number as written (F33)?
    mm = re.search(r"func validateAndSetValue\(.*?\n}\n", s, re.S)
    if not mm:
        raise RuntimeError("validateAndSetValue no longer found in " + rel)
    c["f32_range_on_text"] = bool(re.search(r"reflect\.Float32", mm.group(0)) and re.search(r"ParseFloat\(\w+, 64\)", mm.group(0)))
    m = re.search(r"structRequiredCache\s*=\s*make\(map\[(\w+(?:\.\w+)?)\]requiredCacheValue\)", s)
    if not m:
        raise RuntimeError("structRequiredCache no longer found in " + rel)
    keytype = m.group(1)
    if keytype == "reflect.Type":
        c["required_memo_per_tag"] = False
    else:
        mm = re.search(r"%s struct \{([^}]*)\}" % re.escape(keytype), s)
        c["required_memo_per_tag"] = bool(mm and re.search(r"\btag\s+string\b", mm.group(1)) and "reflect.Type" in mm.group(1))
    rel = "rest/httpx/requests.go"
    s = _read(rel)
    c["formKey"] = _str_const(s, "formKey", rel)
    c["pathKey"] = _str_const(s, "pathKey", rel)
    c["maxBodyLen"] = _int_const(s, "maxBodyLen", rel)
    consts = {"formKey": c["formKey"], "pathKey": c["pathKey"]}
    c["form_unmarshaler"] = _unmarshaler(s, "formUnmarshaler", rel, consts)
    c["path_unmarshaler"] = _unmarshaler(s, "pathUnmarshaler", rel, consts)
    m = re.search(r"func Parse\((\w+) \*http\.Request, (\w+) (?:any|interface\{\})\) error \{(.*?)\n\}\n", s, re.S)
    if not m:
        raise RuntimeError("func Parse no longer found in " + rel)
    args = r"\(%s, %s\)" % (re.escape(m.group(1)), re.escape(m.group(2)))
    body = m.group(3)
    c["parse_order"] = re.findall(r"\b(ParsePath|ParseForm|ParseHeaders|ParseJsonBody)" + args, body)
    last = [x.start() for x in re.finditer(r"\bParseJsonBody" + args, body)]
    c["validator_after_passes"] = bool(last) and last[-1] < body.find("Validate(")
    rel = "rest/httpx/util.go"
    s = _read(rel)
    c["maxFormParamCount"] = _int_const(s, "maxFormParamCount", rel)
    c["arraySuffix"] = _str_const(s, "arraySuffix", rel)
    rel = "rest/internal/encoding/parser.go"
    s = _read(rel)
    c["headerKey"] = _str_const(s, "headerKey", rel)
    c["header_unmarshaler"] = _unmarshaler(s, "headerUnmarshaler", rel, {"headerKey": c["headerKey"]})
    return c


def regen():
    c = extract()
    b = lambda x: "true" if x else "false"
    um = lambda kv: "(%s, %s)" % (cstr(kv[0]), clist([cstr(o) for o in kv[1]]))
    lines = [
        "(* GENERATED by tools/c08consts.py from the Go sources of go-zero - do not edit. *)",
        "From Coq Require Import List ZArith String.",
        "Import ListNotations.",
        "Open Scope string_scope.",
        "",
        "Definition gen_delimiter : string := %s." % cstr(c["delimiter"]),
        "Definition gen_ignore_key : string := %s." % cstr(c["ignoreKey"]),
        "(* the unmarshallers go-zero builds: (tag key, options given to NewUnmarshaler, sorted) *)",
        "Definition gen_json_unmarshaler : string * list string := %s." % um(c["json_unmarshaler"]),
        "Definition gen_key_unmarshaler : string * list string := %s." % um(c["key_unmarshaler"]),
        "Definition gen_form_unmarshaler : string * list string := %s." % um(c["form_unmarshaler"]),
        "Definition gen_path_unmarshaler : string * list string := %s." % um(c["path_unmarshaler"]),
        "Definition gen_header_unmarshaler : string * list string := %s." % um(c["header_unmarshaler"]),
        "(* readKeys returns the key itself for opaque unmarshallers before looking at the key table *)",
        "Definition gen_opaque_bypasses_table : bool := %s." % b(c["opaque_bypasses_table"]),
        "(* the struct-required memo is keyed by (tag key, type) *)",
        "Definition gen_required_memo_per_tag : bool := %s." % b(c["required_memo_per_tag"]),
        "(* the memo of parsed slice defaults is keyed by (read as segments / as JSON, text) *)",
        "Definition gen_default_memo_per_reading : bool := %s." % b(c["default_memo_per_reading"]),
        "(* a float32 field read from a string has its range checked on the number as written *)",
        "Definition gen_f32_range_on_text : bool := %s." % b(c["f32_range_on_text"]),
        "(* no package-level map is handed out as the value of a field *)",
        "Definition gen_empty_map_private : bool := %s." % b(c["empty_map_private"]),
        "(* rest/httpx.Parse: the passes in source order; the validator comes after the last one *)",
        "Definition gen_parse_order : list string := %s." % clist([cstr(x) for x in c["parse_order"]]),
        "Definition gen_validator_after_passes : bool := %s." % b(c["validator_after_passes"]),
        "(* the tag grammar *)",
        "Definition gen_option_words : list string := %s." % clist([cstr(c[n]) for n in (
            "optionalOption", "defaultOption", "rangeOption", "optionsOption", "stringOption", "inheritOption", "envOption")]),
        "Definition gen_tag_separators : list string := %s." % clist([cstr(c[n]) for n in (
            "segmentSeparator", "equalToken", "optionSeparator", "escapeChar", "leftBracket", "rightBracket",
            "leftSquareBracket", "rightSquareBracket")]),
        "(* front-end limits mirrored by the generator (tools/props/c08.py) *)",
        "Definition gen_max_form_values : Z := %s." % cz(c["maxFormParamCount"]),
        "Definition gen_max_body : Z := %s." % cz(c["maxBodyLen"]),
        "Definition gen_array_suffix : string := %s." % cstr(c["arraySuffix"]),
        "",
    ]
    text = "\n".join(lines)
    if not os.path.exists(OUT) or open(OUT).read() != text:
        with open(OUT, "w") as f:
            f.write(text)
    return c, ["C08Consts.v regenerated from %s" % vlib.REPO]
