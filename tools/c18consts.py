"""C18 translator: constants the C18 models depend on -> coq/gen/C18Consts.v.

Re-extracted from the Go sources on every run (regex over the declarations, looked for in the named file and then
in the other files of its package).  A value that is found and differs from what GenProofs.v expects breaks that
obligation.  A declaration that is not found any more falls back to the committed value with a note (see DEFAULTS):
  rest/httpx/vars.go, rest/httpx/requests.go      header/attribute names, separator, codes
  rest/internal/security/contentsecurity.go        signature/time attribute names, X-Request-Uri
  rest/handler/authhandler.go                      the claims that are not copied to the context
  rest/handler/contentsecurityhandler.go           the methods that are verified
  rest/handler/cryptionhandler.go                  maxBytes
  rest/config.go                                   default signature expiry
"""
import os
import re

import vlib


def _read(rel):
    return open(os.path.join(vlib.REPO, rel)).read()


def _pkg(rel):
    """the file itself first, then every other non-test .go file of its package: a declaration may be moved to
    another file of the package without any change of behaviour"""
    d = os.path.dirname(os.path.join(vlib.REPO, rel))
    out = [(rel, _read(rel))] if os.path.exists(os.path.join(vlib.REPO, rel)) else []
    for f in sorted(os.listdir(d)):
        q = os.path.join(os.path.dirname(rel), f)
        if f.endswith(".go") and not f.endswith("_test.go") and q != rel:
            out.append((q, _read(q)))
    return out


def _str_const(src, name, rel):
    for _, text in [(rel, src)] + _pkg(rel)[1:]:
        m = re.search(r"\b%s\s*(?:string\s*)?=\s*\"([^\"]*)\"" % re.escape(name), text)
        if m:
            return m.group(1)
    raise RuntimeError("constant %s no longer found in the package of %s" % (name, rel))


def _int_const(src, name, rel):
    for _, text in [(rel, src)] + _pkg(rel)[1:]:
        m = re.search(r"\b%s\s*(?:int\d*\s*)?=\s*(\d+)\s*(?:<<\s*(\d+))?" % re.escape(name), text)
        if m:
            v = int(m.group(1))
            if m.group(2):
                v <<= int(m.group(2))
            return v
    raise RuntimeError("constant %s no longer found in the package of %s" % (name, rel))


# What the UNCHANGED tree declares (committed here).  A declaration that the extractor cannot find any more (the code
# was restructured: a switch became a map, a test was split over two statements, ...) falls back to these values WITH A
# NOTE, and the correspondence run decides: if the behaviour is the same nothing is reported (a harmless rewrite must
# not alarm); if it differs, the model disagrees with the implementation on generated requests and prop_ok fails on a
# concrete request (claims delivered, methods verified, bodies decrypted are all judged on observations).  A declaration
# that IS found and has another value is written to coq/gen/C18Consts.v as found, and GenProofs.v no longer checks.
DEFAULTS = {
    "ContentSecurity": "X-Content-Security", "KeyField": "key", "SecretField": "secret", "TypeField": "type",
    "CryptionType": 1, "codes": ["CodeSignaturePass", "CodeSignatureInvalidHeader", "CodeSignatureWrongTime", "CodeSignatureInvalidToken"],
    "separator": ";", "tokensInAttribute": 2, "requestUriHeader": "X-Request-Uri", "signatureField": "signature",
    "timeField": "time", "registered_claims": ["aud", "exp", "jti", "iat", "iss", "nbf", "sub"],
    "verified_methods": ["DELETE", "GET", "POST", "PUT"], "contentSecurityHandlerHeader": "X-Content-Security",
    "maxBytes": 1 << 20, "unknown_length_fix": True, "expiry_default_s": 3600,
}
NOTES = []


def _registered_claims(s, rel):
    # the claim filter of Authorize: switch k { case jwtAudience, ...: default: WithValue }  (names of string constants)
    m = re.search(r"switch\s+k\s*\{\s*case\s+([\w,\s]+?):\s*(?://[^\n]*\n\s*)*default:\s*ctx\s*=\s*context\.WithValue\(ctx,\s*k,\s*v\)", s)
    if m:
        return [_str_const(s, n.strip(), rel) for n in m.group(1).split(",")]
    # ... or a set literal of the same constants consulted before WithValue
    m = re.search(r"map\[string\](?:struct\{\}|bool)\s*\{((?:[^{}]|\{\})*)\}", s)
    if m and "WithValue(ctx, k, v)" in s.replace(" ", "").replace("WithValue(ctx,k,v)", "WithValue(ctx, k, v)"):
        names = re.findall(r"(\w+)\s*:", m.group(1))
        if names:
            return [_str_const(s, n, rel) for n in names]
    raise RuntimeError("claim filter of Authorize (switch k { case ...: default: WithValue }) no longer found in " + rel)


def _verified_methods(s, rel):
    m = re.search(r"switch\s+r\.Method\s*\{\s*case\s+((?:http\.Method\w+\s*,?\s*)+):", s)
    if m:
        return [x.upper() for x in re.findall(r"http\.Method(\w+)", m.group(1))]
    ms = re.findall(r"r\.Method\s*==\s*http\.Method(\w+)", s)
    if ms:
        return [x.upper() for x in ms]
    raise RuntimeError("method filter (switch r.Method { case http.Method...: }) no longer found in " + rel)


def _unknown_length(cs, cr):
    def side(text, pinned, repaired, what):
        if re.search(pinned, text):
            return False
        if re.search(repaired, text):
            return True
        raise RuntimeError(what)
    fix_cs = side(cs, r"r\.ContentLength\s*>\s*0\s*&&\s*header\.Encrypted\(\)", r"r\.ContentLength\s*!=\s*0\s*&&\s*header\.Encrypted\(\)",
                  "the hand-over test (r.ContentLength ... && header.Encrypted()) no longer found in contentsecurityhandler.go")
    fix_cr = side(cr, r"if\s+r\.ContentLength\s*<=\s*0\s*\{\s*next\.ServeHTTP\(cw,\s*r\)", r"if\s+r\.ContentLength\s*==\s*0\s*\{\s*next\.ServeHTTP\(cw,\s*r\)",
                  "the pass-through test (if r.ContentLength <= 0 / == 0 { next.ServeHTTP(cw, r)) no longer found in cryptionhandler.go")
    if fix_cs != fix_cr:
        raise RuntimeError("contentsecurityhandler.go and cryptionhandler.go disagree about bodies of unknown length")
    return fix_cr


def extract():
    """every item on its own: found -> the value in the source; not found -> the committed value + a note"""
    del NOTES[:]
    c = {}

    def item(key, f):
        try:
            c[key] = f()
        except Exception as e:       # restructured source: see DEFAULTS
            c[key] = DEFAULTS[key]
            NOTES.append("%s: %s; committed value %r assumed, the correspondence run decides" % (key, e, DEFAULTS[key]))
    rel = "rest/httpx/vars.go"
    for n in ("ContentSecurity", "KeyField", "SecretField", "TypeField"):
        item(n, lambda n=n: _str_const(_read(rel), n, rel))
    item("CryptionType", lambda: _int_const(_read(rel), "CryptionType", rel))

    def codes():
        for _, s in _pkg(rel):
            m = re.search(r"CodeSignaturePass\s*=\s*iota\s*((?:\s*//[^\n]*\n|\s*Code\w+\s*(?://[^\n]*)?\n)+)", s)
            if m:
                return ["CodeSignaturePass"] + re.findall(r"^\s*(Code\w+)\s*(?://.*)?$", m.group(1), re.M)
        raise RuntimeError("CodeSignature* iota block no longer found in the package of " + rel)
    item("codes", codes)
    rel2 = "rest/httpx/requests.go"
    item("separator", lambda: _str_const(_read(rel2), "separator", rel2))
    item("tokensInAttribute", lambda: _int_const(_read(rel2), "tokensInAttribute", rel2))
    rel3 = "rest/internal/security/contentsecurity.go"
    for n in ("requestUriHeader", "signatureField", "timeField"):
        item(n, lambda n=n: _str_const(_read(rel3), n, rel3))
    rel4 = "rest/handler/authhandler.go"
    item("registered_claims", lambda: _registered_claims(_read(rel4), rel4))
    rel5 = "rest/handler/contentsecurityhandler.go"
    item("verified_methods", lambda: _verified_methods(_read(rel5), rel5))
    item("contentSecurityHandlerHeader", lambda: _str_const(_read(rel5), "contentSecurity", rel5))
    rel6 = "rest/handler/cryptionhandler.go"
    item("maxBytes", lambda: _int_const(_read(rel6), "maxBytes", rel6))
    item("unknown_length_fix", lambda: _unknown_length(_read(rel5), _read(rel6)))

    def expiry():
        m = re.search(r"Expiry\s+time\.Duration\s+`json:\",default=(\d+)([smh])\"`", _read("rest/config.go"))
        if not m:
            raise RuntimeError("SignatureConf.Expiry default no longer found in rest/config.go")
        return int(m.group(1)) * {"s": 1, "m": 60, "h": 3600}[m.group(2)]
    item("expiry_default_s", expiry)
    return c


def _bytes(s):
    return "[" + "; ".join(str(b) for b in s.encode()) + "]"


def regen():
    c = extract()
    body = ["(* GENERATED by tools/c18consts.py from rest/httpx, rest/internal/security, rest/handler, rest/config.go",
            "   - do not edit.  Strings are lists of byte codes. *)",
            "From Coq Require Import List ZArith.", "Import ListNotations.", "Open Scope Z_scope.", ""]
    for coqname, key in (("hdr_content_security", "ContentSecurity"), ("hdr_content_security_handler", "contentSecurityHandlerHeader"),
                         ("hdr_request_uri", "requestUriHeader"), ("attr_key", "KeyField"), ("attr_secret", "SecretField"),
                         ("attr_type", "TypeField"), ("attr_signature", "signatureField"), ("attr_time", "timeField"),
                         ("separator", "separator")):
        body.append("Definition %s : list Z := %s.  (* %s *)" % (coqname, _bytes(c[key]), c[key]))
    body.append("Definition tokens_in_attribute : Z := %d." % c["tokensInAttribute"])
    body.append("Definition cryption_type : Z := %d." % c["CryptionType"])
    body.append("Definition max_bytes : Z := %d." % c["maxBytes"])
    body.append("Definition signature_expiry_default_s : Z := %d." % c["expiry_default_s"])
    body.append("Definition unknown_length_fix : bool := %s.  (* bodies with ContentLength = -1 are decrypted *)"
                % ("true" if c["unknown_length_fix"] else "false"))
    body.append("Definition signature_codes : list (list Z) := [%s].  (* %s, numbered from 0 *)"
                % ("; ".join(_bytes(n) for n in c["codes"]), ", ".join(c["codes"])))
    body.append("Definition registered_claims : list (list Z) := [%s].  (* %s *)"
                % ("; ".join(_bytes(n) for n in c["registered_claims"]), ", ".join(c["registered_claims"])))
    body.append("Definition verified_methods : list (list Z) := [%s].  (* %s *)"
                % ("; ".join(_bytes(n) for n in c["verified_methods"]), ", ".join(c["verified_methods"])))
    text = "\n".join(body) + "\n"
    path = os.path.join(vlib.COQ, "gen", "C18Consts.v")
    os.makedirs(os.path.dirname(path), exist_ok=True)
    old = open(path).read() if os.path.exists(path) else None
    if old != text:
        with open(path, "w") as f:
            f.write(text)
    return ["C18Consts.v: registered_claims=%s verified_methods=%s separator=%r expiry_default=%ds unknown_length_fix=%s"
            % (c["registered_claims"], c["verified_methods"], c["separator"], c["expiry_default_s"], c["unknown_length_fix"])] + \
        ["C18Consts.v: NOT FOUND, " + n for n in NOTES]
