"""gosrc - small, package-wide readers of Go source for the constant / script extractors of C03 and C19.

The extractors used to read ONE named file with one regular expression per constant; moving a constant or
the `//go:embed` variable into another file of the package, giving a constant a type, or defining one
constant by another made them fail loudly although nothing had changed.  These helpers look at the whole
package directory (non-test files) and evaluate constant expressions over the package's own constants.
They still fail loudly (GoSrcError) when something cannot be found or is not a constant expression.
"""
import os
import re


class GoSrcError(RuntimeError):
    pass


def pkg_files(repo, reldir):
    """{repo-relative path: text} of the non-test Go files of a package directory"""
    d = os.path.join(repo, reldir)
    res = {}
    for fn in sorted(os.listdir(d)):
        if fn.endswith(".go") and not fn.endswith("_test.go"):
            res[os.path.join(reldir, fn)] = open(os.path.join(d, fn), encoding="utf-8").read()
    if not res:
        raise GoSrcError("no Go files in %s" % reldir)
    return res


def strip_comments(text):
    """remove // and /* */ comments (string, rune and raw-string literals respected); keeps line structure"""
    out = []
    i, n = 0, len(text)
    while i < n:
        c = text[i]
        if c == '"' or c == "'":
            j = i + 1
            while j < n and text[j] != c:
                j += 2 if text[j] == "\\" else 1
            out.append(text[i:j + 1])
            i = j + 1
        elif c == "`":
            j = text.find("`", i + 1)
            j = n - 1 if j < 0 else j
            out.append(text[i:j + 1])
            i = j + 1
        elif text.startswith("//", i):
            j = text.find("\n", i)
            i = n if j < 0 else j
        elif text.startswith("/*", i):
            j = text.find("*/", i + 2)
            seg = text[i:(n if j < 0 else j + 2)]
            out.append("\n" * seg.count("\n") or " ")
            i = n if j < 0 else j + 2
        else:
            out.append(c)
            i += 1
    return "".join(out)


_TYPE = r"(?:[A-Za-z_][\w.]*\s+)?"          # an optional type between the name and '='
_ONE = re.compile(r"^[ \t]*const[ \t]+([A-Za-z_]\w*)[ \t]+" + _TYPE + r"=[ \t]*(.+?)[ \t]*$", re.M)
_ONE2 = re.compile(r"^[ \t]*const[ \t]+([A-Za-z_]\w*)[ \t]*=[ \t]*(.+?)[ \t]*$", re.M)
_BLOCK = re.compile(r"^[ \t]*const[ \t]*\(\s*\n(.*?)^[ \t]*\)", re.M | re.S)
_ENTRY = re.compile(r"^[ \t]*([A-Za-z_]\w*)[ \t]*" + _TYPE + r"=[ \t]*(.+?)[ \t]*$")
_ENTRY2 = re.compile(r"^[ \t]*([A-Za-z_]\w*)[ \t]*=[ \t]*(.+?)[ \t]*$")


def pkg_consts(repo, reldir):
    """{name: (expression text, file)} for every `const name [type] = expr` of the package (single declarations
    and const ( ... ) blocks; entries without '=' - iota continuations - are skipped)"""
    table = {}
    for rel, text in pkg_files(repo, reldir).items():
        t = strip_comments(text)
        for rx in (_ONE2, _ONE):
            for m in rx.finditer(t):
                table.setdefault(m.group(1), (m.group(2), rel))
        for b in _BLOCK.finditer(t):
            for line in b.group(1).split("\n"):
                m = _ENTRY2.match(line) or _ENTRY.match(line)
                if m:
                    table.setdefault(m.group(1), (m.group(2), rel))
    return table


UNITS = {"time.Nanosecond": 1, "time.Microsecond": 1000, "time.Millisecond": 1000000, "time.Second": 1000000000,
         "time.Minute": 60000000000, "time.Hour": 3600000000000}


def const_int(table, name, who="", _depth=0):
    """the integer value of a package constant: integer literals, + - * / ( ), time.* units, conversions like
    time.Duration(x) / int64(x), and other integer constants of the package"""
    if name not in table:
        raise GoSrcError("%s: constant %s not found in the package" % (who, name))
    if _depth > 20:
        raise GoSrcError("%s: constant %s is defined cyclically" % (who, name))
    expr = table[name][0]
    e = expr
    for u, v in UNITS.items():
        e = re.sub(r"\b%s\b" % re.escape(u), str(v), e)
    e = re.sub(r"\b(?:time\.Duration|u?int(?:8|16|32|64)?|uintptr)\s*\(", "(", e)

    def ident(m):
        w = m.group(0)
        return str(const_int(table, w, who, _depth + 1))
    e = re.sub(r"\b[A-Za-z_]\w*\b", ident, e)
    e = re.sub(r"\b(\d[\d_]*)\b", lambda m: m.group(1).replace("_", ""), e)
    if not re.fullmatch(r"[0-9+\-*/()\s]+", e):
        raise GoSrcError("%s: %s is not an integer constant expression: %r" % (who, name, expr))
    try:
        return int(eval(e.replace("/", "//"), {"__builtins__": {}}))
    except Exception as x:
        raise GoSrcError("%s: cannot evaluate %s = %r: %s" % (who, name, expr, x))


def const_string(table, name, who=""):
    """the value of a package string constant given by ONE interpreted string literal without escapes, or by
    another such constant"""
    seen = set()
    while True:
        if name not in table or name in seen:
            raise GoSrcError("%s: string constant %s not found in the package" % (who, name))
        seen.add(name)
        expr = table[name][0]
        m = re.fullmatch(r'"([^"\\\n]*)"', expr)
        if m:
            return m.group(1)
        if re.fullmatch(r"[A-Za-z_]\w*", expr):
            name = expr
            continue
        raise GoSrcError("%s: %s is not a plain string literal: %r" % (who, name, expr))


_EMBED = re.compile(r"^[ \t]*//go:embed[ \t]+(\S+)[ \t]*\n(?:[ \t]*//[^\n]*\n)*[ \t]*(?:var[ \t]+)?([A-Za-z_]\w*)[ \t]+(?:string|\[\]byte)\b", re.M)
_RAW = re.compile(r"^[ \t]*(?:var[ \t]+|const[ \t]+)?([A-Za-z_]\w*)[ \t]*(?:string[ \t]*)?=[ \t]*`([^`]*)`", re.M)


def lua_scripts(repo, reldir):
    """the Lua scripts of a package: [(variable, source text, where)] from `//go:embed x.lua` + the variable that
    follows, wherever in the package it is, and from raw-string literals that look like a Redis script"""
    res = []
    for rel, text in pkg_files(repo, reldir).items():
        for m in _EMBED.finditer(text):
            path = os.path.join(repo, reldir, m.group(1))
            if not m.group(1).endswith(".lua"):
                continue
            if not os.path.exists(path):
                raise GoSrcError("%s embeds %s, which does not exist" % (rel, m.group(1)))
            res.append((m.group(2), open(path, encoding="utf-8").read(), os.path.join(reldir, m.group(1))))
        for m in _RAW.finditer(text):
            if "redis.call" in m.group(2) or "redis.pcall" in m.group(2):
                res.append((m.group(1), m.group(2), rel + ":" + m.group(1)))
    return res


def pick_script(scripts, default_file, words, who=""):
    """the script of a family: the one embedded from `default_file` when it is still there, otherwise the only one
    whose variable or file name contains one of `words` (case-insensitive)"""
    for var, src, where in scripts:
        if os.path.basename(where) == default_file:
            return src, where
    for label in (lambda var, where: var.lower(), lambda var, where: os.path.basename(where).split(":")[0].lower()):
        hits = [(var, src, where) for var, src, where in scripts if any(w in label(var, where) for w in words)]
        if len(hits) == 1:
            return hits[0][1], hits[0][2]
    raise GoSrcError("%s: cannot tell which Lua script of the package is the %s script (candidates: %s)"
                     % (who, "/".join(words), [w for _, _, w in scripts]))
