"""Shared driver library for the go-zero Rocq verification checks.

One pipeline for every property (DESIGN.md §2):
  regenerate gen/ -> build the Coq development -> build + run the Go executor on
  generated histories -> evaluate the model and the property on the observed
  histories inside Coq (vm_compute) -> verdict -> search / shrink / replay ->
  evidence.
"""
import concurrent.futures
import fcntl
import glob
import hashlib
import json
import os
import random
import re
import shutil
import subprocess
import sys
import time

ROOT = os.path.dirname(os.path.dirname(os.path.abspath(__file__)))
REPO = os.environ.get("VERIF_REPO", "/repo")
COQ = os.path.join(ROOT, "coq")
HARNESS = os.path.join(ROOT, "harness")
CASES_DIR = os.path.join(COQ, "cases")
EVID = os.path.join(ROOT, "evidence")
REPLAYS = os.path.join(ROOT, "replays")
KNOWN_FILE = os.path.join(ROOT, "KNOWN_FINDINGS.jsonl")
NCPU = os.cpu_count() or 4
# VERIF_COVER=<dir>: executors are built with coverage instrumentation of go-zero and leave their
# counters under <dir> (tools/anchorcov.py: which anchored code does the correspondence execute)
COVER = os.environ.get("VERIF_COVER")
COVERPKG = "github.com/zeromicro/go-zero/..."

FORBIDDEN = re.compile(
    r"\b(Admitted|admit|Axiom|Axioms|Parameter|Parameters|Conjecture|Conjectures|"
    r"Admit Obligations|bypass_check|Unset Guard Checking|Unset Positivity Checking|"
    r"Unset Universe Checking|type-in-type|impredicative-set|native_compute)\b")

OBLIGATION = re.compile(
    r"^\s*(?:Local\s+|Global\s+|#\[[^\]]*\]\s*)*(Theorem|Lemma|Example|Corollary|Fact|Remark|Proposition)\s+([A-Za-z_][A-Za-z0-9_']*)",
    re.M)


def log(msg):
    print(msg, flush=True)


def goenv(extra=None):
    env = dict(os.environ)
    env.update({"GOFLAGS": "-mod=mod", "GOPROXY": "off", "GOSUMDB": "off",
                "GOTOOLCHAIN": "local", "CGO_ENABLED": env.get("CGO_ENABLED", "1")})
    if extra:
        env.update(extra)
    return env


def sh(cmd, cwd=None, env=None, timeout=600, stdin=None):
    """Run a command, return (rc, combined output). rc 124 on timeout."""
    try:
        p = subprocess.run(cmd, cwd=cwd, env=env, timeout=timeout, input=stdin,
                           stdout=subprocess.PIPE, stderr=subprocess.STDOUT,
                           shell=isinstance(cmd, str), text=True, errors="replace")
        return p.returncode, p.stdout
    except subprocess.TimeoutExpired as e:
        out = e.stdout if isinstance(e.stdout, str) else (e.stdout or b"").decode("utf-8", "replace")
        return 124, out + "\n[timeout after %ss]" % timeout


# ----------------------------------------------------------------------------
# Coq


class Lock:
    def __init__(self, name):
        self.path = os.path.join(COQ, name)

    def __enter__(self):
        self.f = open(self.path, "w")
        fcntl.flock(self.f, fcntl.LOCK_EX)
        return self

    def __exit__(self, *a):
        fcntl.flock(self.f, fcntl.LOCK_UN)
        self.f.close()


def coq_files():
    fs = sorted(glob.glob(os.path.join(COQ, "theories", "**", "*.v"), recursive=True))
    fs += sorted(glob.glob(os.path.join(COQ, "gen", "*.v")))
    return [os.path.relpath(f, COQ) for f in fs]


def forbidden_scan(files=None):
    """Return list of (file, line_no, text) with forbidden vernacular (comments stripped)."""
    hits = []
    for rel in files or coq_files():
        try:
            src = open(os.path.join(COQ, rel)).read()
        except OSError:
            continue
        src = strip_coq_comments(src)
        for i, line in enumerate(src.split("\n"), 1):
            if FORBIDDEN.search(line):
                hits.append((rel, i, line.strip()))
    return hits


def strip_coq_comments(src):
    out = []
    depth = 0
    i = 0
    n = len(src)
    while i < n:
        if src.startswith("(*", i):
            depth += 1
            i += 2
        elif src.startswith("*)", i) and depth > 0:
            depth -= 1
            i += 2
        else:
            if depth == 0:
                out.append(src[i])
            elif src[i] == "\n":
                out.append("\n")
            i += 1
    return "".join(out)


def coq_project_sync():
    """(Re)write _CoqProject from the files present and (re)run coq_makefile when it changed."""
    files = coq_files()
    text = "-Q theories GZ\n-Q gen GZgen\n-arg -w -arg -notation-overridden,-deprecated\n" + "\n".join(files) + "\n"
    proj = os.path.join(COQ, "_CoqProject")
    mk = os.path.join(COQ, "Makefile.coq")
    old = open(proj).read() if os.path.exists(proj) else None
    if old != text or not os.path.exists(mk):
        with open(proj, "w") as f:
            f.write(text)
        rc, out = sh(["coq_makefile", "-f", "_CoqProject", "-o", "Makefile.coq"], cwd=COQ, timeout=120)
        if rc != 0:
            raise RuntimeError("coq_makefile failed:\n" + out)


def coq_build(targets, timeout=1500):
    """Full .vo build of the given targets (relative to coq/). Returns (ok, log)."""
    with Lock(".build.lock"):
        coq_project_sync()
        cmd = ["timeout", str(timeout), "make", "-f", "Makefile.coq", "-j%d" % NCPU, "-k"] + list(targets)
        rc, out = sh(cmd, cwd=COQ, timeout=timeout + 30)
    return rc == 0, out


def coq_obligations(vfiles):
    """[(file, kind, name)] of every statement that needs a proof in the given files."""
    obs = []
    for rel in vfiles:
        path = os.path.join(COQ, rel)
        if not os.path.exists(path):
            continue
        src = strip_coq_comments(open(path).read())
        for m in OBLIGATION.finditer(src):
            obs.append((rel, m.group(1), m.group(2)))
    return obs


def vo_fresh(rel):
    v = os.path.join(COQ, rel)
    vo = v[:-2] + ".vo"
    return os.path.exists(vo) and os.path.getmtime(vo) >= os.path.getmtime(v)


def coq_deps(rel, seen=None):
    """Transitive GZ/GZgen dependencies (as files relative to coq/) of a .v file, itself included."""
    seen = seen if seen is not None else []
    if rel in seen:
        return seen
    path = os.path.join(COQ, rel)
    if not os.path.exists(path):
        return seen
    seen.append(rel)
    src = strip_coq_comments(open(path).read())
    for m in re.finditer(r"From\s+(GZ|GZgen)\s+Require\s+(?:Import\s+|Export\s+)?(.*?)\.(?=\s)", src, re.S):
        root = "theories" if m.group(1) == "GZ" else "gen"
        for mod in m.group(2).split():
            coq_deps(os.path.join(root, *mod.split(".")) + ".v", seen)
    for m in re.finditer(r"Require\s+(?:Import\s+|Export\s+)?((?:GZ|GZgen)\.[A-Za-z0-9_.']+)", src):
        parts = m.group(1).split(".")
        root = "theories" if parts[0] == "GZ" else "gen"
        coq_deps(os.path.join(root, *parts[1:]) + ".v", seen)
    return seen


def _coqc_tmp(name, text, timeout=600):
    os.makedirs(CASES_DIR, exist_ok=True)
    base = os.path.join(CASES_DIR, name)
    with open(base + ".v", "w") as f:
        f.write(text)
    rc, out = sh(["timeout", str(timeout), "coqc", "-Q", "theories", "GZ", "-Q", "gen", "GZgen",
                  "-w", "-notation-overridden,-deprecated",
                  os.path.relpath(base + ".v", COQ)], cwd=COQ, timeout=timeout + 20)
    for ext in (".v", ".vo", ".vok", ".vos", ".glob"):
        try:
            os.remove(base + ext)
        except OSError:
            pass
    try:
        os.remove(os.path.join(CASES_DIR, "." + name + ".aux"))
    except OSError:
        pass
    return rc, out


def coq_print_assumptions(prop, props_module, theorems):
    """Run Print Assumptions for each theorem; returns {name: text}."""
    text = "From GZ Require Import %s.\n" % props_module
    for t in theorems:
        text += 'Print Assumptions %s.\nGoal True. idtac "@@END". Abort.\n' % t
    rc, out = _coqc_tmp("%s_assum_%d" % (prop, os.getpid()), text)
    res = {}
    if rc != 0:
        return {"_error": out[-2000:]}
    chunks = out.split("@@END")
    for t, ch in zip(theorems, chunks):
        res[t] = " ".join(ch.split())
    return res


PAIR_RE = re.compile(r"=\s*\((true|false),\s*(true|false)\)")


def coq_eval_cases(prop, check_module, terms, preamble="", shard=400, timeout=900):
    """Evaluate (agrees c, prop_ok c) for every Gallina case term. Returns list of
    (agrees, prop_ok) or raises RuntimeError with the coqc output."""
    if not terms:
        return []
    # spread over all cores: at most `shard` cases per coqc process, at least ~8
    shard = max(8, min(shard, -(-len(terms) // NCPU)))
    shards = [terms[i:i + shard] for i in range(0, len(terms), shard)]

    def work(ix):
        body = ["From Coq Require Import List ZArith String.",
                "From GZ Require Import %s." % check_module,
                "Import ListNotations.", "Open Scope Z_scope.", preamble]
        for j, t in enumerate(shards[ix]):
            body.append("Definition c%d : case := %s." % (j, t))
            body.append("Eval vm_compute in (agrees c%d, prop_ok c%d)." % (j, j))
        # a coqc process that dies without a Coq error message (killed for memory, starved past its
        # time limit on an overloaded machine) says nothing about the cases: the shard is evaluated
        # again, twice at most, before the run is declared broken.  A genuine Coq error (ill-typed
        # case term, missing definition) prints "Error:" and fails at once.
        for attempt in range(3):
            rc, out = _coqc_tmp("%s_cases_%d_%d_%d" % (prop, os.getpid(), ix, attempt), "\n".join(body) + "\n", timeout)
            rs = [(a == "true", b == "true") for a, b in PAIR_RE.findall(out)]
            if rc == 0 and len(rs) == len(shards[ix]):
                return rs
            if "Error:" in out or attempt == 2:
                break
            log("coqc on case shard %d of %s ended with status %s and %d of %d results, no Coq error: evaluating it again"
                % (ix, prop, rc, len(rs), len(shards[ix])))
            time.sleep(5 * (attempt + 1))
        if rc != 0:
            raise RuntimeError("coqc failed on case shard %d:\n%s" % (ix, out[-4000:]))
        raise RuntimeError("case shard %d: expected %d results, got %d\n%s" % (ix, len(shards[ix]), len(rs), out[-2000:]))

    with concurrent.futures.ThreadPoolExecutor(max_workers=NCPU) as ex:
        parts = list(ex.map(work, range(len(shards))))
    return [r for p in parts for r in p]


def coq_eval_term(prop, check_module, term, preamble=""):
    """vm_compute an arbitrary term (diagnostics); returns Coq's printed output."""
    text = ("From Coq Require Import List ZArith String.\nFrom GZ Require Import %s.\n"
            "Import ListNotations.\nOpen Scope Z_scope.\n%s\nEval vm_compute in (%s).\n" % (check_module, preamble, term))
    rc, out = _coqc_tmp("%s_term_%d" % (prop, os.getpid()), text)
    return " ".join(out.split())


# Gallina rendering helpers

def cz(n):
    n = int(n)
    return "(%d)" % n if n < 0 else "%d" % n


def clist(items):
    return "[" + "; ".join(items) + "]"


def cbool(b):
    return "true" if b else "false"


def cstr(s):
    return '"' + s.replace('"', '""') + '"%string'


def copt(x):
    return "None" if x is None else "(Some %s)" % x


# ----------------------------------------------------------------------------
# Go


def harness_modfile():
    """go.mod/go.sum for the harness module with `replace go-zero => REPO` (REPO is /repo
    unless VERIF_REPO points at a scratch worktree)."""
    d = os.path.join(ROOT, ".run", "mod-" + hashlib.sha256(REPO.encode()).hexdigest()[:10])
    os.makedirs(d, exist_ok=True)
    base = open(os.path.join(HARNESS, "go.mod")).read()
    text = re.sub(r"replace github.com/zeromicro/go-zero => \S+", "replace github.com/zeromicro/go-zero => " + REPO, base)
    mod = os.path.join(d, "go.mod")
    if not os.path.exists(mod) or open(mod).read() != text:
        with open(mod, "w") as f:
            f.write(text)
    shutil.copyfile(os.path.join(REPO, "go.sum"), os.path.join(d, "go.sum"))
    return mod


def _cover_materialize(files):
    """go's cover tool does not see -overlay files: in a coverage run (VERIF_COVER, always against
    a scratch worktree made by tools/anchorcov.py) the overlay files are also copied into the tree."""
    if COVER and REPO != "/repo" and files:
        for rel, src in files.items():
            dst = os.path.join(REPO, rel)
            os.makedirs(os.path.dirname(dst), exist_ok=True)
            shutil.copyfile(src, dst)


def write_overlay(files, tag):
    """files: {path relative to REPO : absolute source path}. Returns overlay json path or None."""
    if not files:
        return None
    _cover_materialize(files)
    d = os.path.join(ROOT, ".run")
    os.makedirs(d, exist_ok=True)
    ov = {"Replace": {os.path.join(REPO, rel): src for rel, src in files.items()}}
    ovp = os.path.join(d, "overlay_%s_%d.json" % (tag, os.getpid()))
    with open(ovp, "w") as f:
        json.dump(ov, f)
    return ovp


def go_build(cmd_name, tags="verif", overlay=None, race=False):
    """Build harness/cmd/<cmd_name> against REPO's working tree (optionally with overlay files
    {repo-relative path: source under /verif} replacing/adding files in go-zero packages).
    Returns (ok, binpath or log)."""
    out_bin = os.path.join(HARNESS, "bin", cmd_name + ("-" + hashlib.sha256(REPO.encode()).hexdigest()[:6] if REPO != "/repo" else "")
                           + ("-cover" if COVER else ""))
    os.makedirs(os.path.dirname(out_bin), exist_ok=True)
    cmd = ["go", "build", "-modfile", harness_modfile(), "-tags", tags, "-o", out_bin]
    ovp = write_overlay(overlay, "build_" + cmd_name)
    if ovp:
        cmd += ["-overlay", ovp]
    if race:
        cmd.append("-race")
    if COVER:
        cmd += ["-cover", "-coverpkg=" + COVERPKG + ",verifh/..."]  # main must be instrumented too or nothing is emitted
    cmd.append("./cmd/" + cmd_name)
    rc, out = sh(cmd, cwd=HARNESS, env=goenv(), timeout=900)
    return (rc == 0), (out_bin if rc == 0 else out)


def _io_paths(tag):
    d = os.path.join(ROOT, ".run")
    os.makedirs(d, exist_ok=True)
    base = os.path.join(d, "%s_%d_%d" % (tag, os.getpid(), int(time.time() * 1000) % 100000000))
    return base + ".in.json", base + ".out.jsonl"


def _read_jsonl(path):
    res = []
    with open(path) as f:
        for line in f:
            line = line.strip()
            if line:
                res.append(json.loads(line))
    return res


def go_run(binpath, cases, tag="x", timeout=900, env=None, args=None):
    """Run an executor binary on cases (JSON array in $VERIF_IN, JSON lines in $VERIF_OUT)."""
    pin, pout = _io_paths(tag)
    with open(pin, "w") as f:
        json.dump(cases, f)
    e = goenv({"VERIF_IN": pin, "VERIF_OUT": pout})
    if env:
        e.update(env)
    if COVER:
        cd = os.path.join(COVER, "bin")
        os.makedirs(cd, exist_ok=True)
        e["GOCOVERDIR"] = cd
    rc, out = sh([binpath] + (args or []), cwd=HARNESS, env=e, timeout=timeout)
    try:
        res = _read_jsonl(pout) if os.path.exists(pout) else []
    finally:
        for p in (pin, pout):
            try:
                os.remove(p)
            except OSError:
                pass
    return rc, out, res


def go_test_overlay(pkg, files, run, cases, tag="x", timeout=900, env=None, race=False, extra_args=None):
    """Run a white-box executor written as a _test.go file injected into a /repo package
    with `go test -overlay` (nothing is written under /repo).
    files: {path relative to /repo : absolute source path under /verif}."""
    pin, pout = _io_paths(tag)
    with open(pin, "w") as f:
        json.dump(cases, f)
    _cover_materialize(files)
    ov = {"Replace": {os.path.join(REPO, rel): src for rel, src in files.items()}}
    ovp = pin[:-8] + ".overlay.json"
    with open(ovp, "w") as f:
        json.dump(ov, f)
    e = goenv({"VERIF_IN": pin, "VERIF_OUT": pout})
    if env:
        e.update(env)
    cmd = ["go", "test", "-tags", "verif", "-vet=off", "-count=1", "-overlay", ovp,
           "-timeout", "%ds" % timeout, "-run", run]
    if race:
        cmd.append("-race")
    if COVER:
        os.makedirs(COVER, exist_ok=True)
        cmd += ["-coverpkg=" + COVERPKG,
                "-coverprofile=" + os.path.join(COVER, "test_%s_%d_%d.out" % (tag, os.getpid(), int(time.time() * 1000) % 100000000))]
    cmd += (extra_args or []) + [pkg]
    rc, out = sh(cmd, cwd=REPO, env=e, timeout=timeout + 60)
    try:
        res = _read_jsonl(pout) if os.path.exists(pout) else []
    finally:
        for p in (pin, pout, ovp):
            try:
                os.remove(p)
            except OSError:
                pass
    return rc, out, res


# ----------------------------------------------------------------------------
# Findings, replays, evidence


def load_known():
    res = []
    if os.path.exists(KNOWN_FILE):
        for line in open(KNOWN_FILE):
            line = line.strip()
            if line and not line.startswith("#"):
                res.append(json.loads(line))
    return res


def known_ids(prop):
    return {e["id"]: e for e in load_known() if e.get("property") == prop and e.get("kind") == "known"}


def canon_hash(obj):
    return hashlib.sha256(json.dumps(obj, sort_keys=True, separators=(",", ":")).encode()).hexdigest()[:12]


def write_replay(prop, obj, kind="fail"):
    os.makedirs(REPLAYS, exist_ok=True)
    name = "%s-%s-%s.json" % (prop, kind, canon_hash(obj))
    path = os.path.join(REPLAYS, name)
    with open(path, "w") as f:
        json.dump(obj, f, indent=1, sort_keys=True)
    return os.path.relpath(path, ROOT)


def write_evidence(prop, ev):
    # evidence/ describes /repo only: a run against a scratch worktree (VERIF_REPO, mutation
    # self-tests) or a coverage-instrumented run leaves its evidence under .run/
    evid = EVID if (REPO == "/repo" and not COVER) else os.path.join(ROOT, ".run", "evidence-scratch")
    os.makedirs(evid, exist_ok=True)
    path = os.path.join(evid, prop + ".json")
    tmp = path + ".tmp%d" % os.getpid()
    with open(tmp, "w") as f:
        json.dump(ev, f, indent=1, sort_keys=False)
    os.replace(tmp, path)


def tree_id():
    rc, out = sh("git rev-parse HEAD; git status --porcelain | sha256sum | cut -c1-12", cwd=REPO, timeout=60)
    return " ".join(out.split())
