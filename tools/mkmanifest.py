"""Generate /verif/MANIFEST.json from tools/registry.py and the property modules."""
import importlib
import json
import os
import sys

sys.path.insert(0, os.path.dirname(os.path.abspath(__file__)))
import vlib  # noqa: E402
import registry  # noqa: E402

ALL = ["C%02d" % i for i in range(1, 21)]


def main():
    checks = []
    for pid in registry.PROPS:
        P = importlib.import_module("props." + pid.lower()).PROPERTY
        checks.append({
            "property_id": pid,
            "quick_cmd": "./check %s --tier quick" % pid,
            "thorough_cmd": "./check %s --tier thorough" % pid,
            "evidence_file": "/verif/evidence/%s.json" % pid,
            "replay_cmd_template": "./check %s --replay {path}" % pid,
            "engine": "rocq-models",
            "level_claimed": {"category": P.level if P.level in ("exploration","fault_enumeration","model_checking","proof","translation_validation","other") else "other", "text": P.level_text, "design_ref": P.design_ref},
            "level_note": P.level_note,
            "technique": P.technique,
        })
    na = []
    for pid in ALL:
        if pid not in registry.PROPS:
            na.append({"property_id": pid,
                       "reason": registry.NOT_CLAIMED.get(pid, "no check registered yet (work in progress, see DESIGN.md §6)")})
    m = {
        "version": 1,
        "setup_cmd": "./setup.sh",
        "hooks": {
            "guard": "verif",
            "enable": "go build/test -tags verif (executors under /verif/harness and overlay tests injected with go test -overlay)",
            "baseline_off_cmd": "cd /repo && go test -mod=mod -json -vet=off -count=1 -timeout 25m ./...",
            "source_commits": registry.HOOK_COMMITS if hasattr(registry, "HOOK_COMMITS") else [],
            "add_only": True,
        },
        "engines": [
            {"name": "rocq-models", "path": "coq/", "serves_properties": registry.PROPS,
             "kind_free_text": "Coq 8.16.1 development: executable Gallina models, refinement/invariant proofs, property theorems (Props.v), case checkers (Check.v) evaluated with vm_compute"},
            {"name": "go-harness", "path": "harness/", "serves_properties": registry.PROPS,
             "kind_free_text": "Go executors (module verifh, replace => /repo) and overlay white-box tests that run the implementation on generated histories"},
            {"name": "driver", "path": "tools/", "serves_properties": registry.PROPS,
             "kind_free_text": "Python driver: generation, correspondence, search/shrink/replay, known findings, evidence"},
        ],
        "checks": checks,
        "not_applicable": na,
        "notes": "Every check: ./check <id> [--tier quick|thorough] [--replay file]. See DESIGN.md.",
    }
    with open(os.path.join(vlib.ROOT, "MANIFEST.json"), "w") as f:
        json.dump(m, f, indent=1)
    print("MANIFEST.json: %d checks, %d not claimed" % (len(checks), len(na)))


if __name__ == "__main__":
    main()
