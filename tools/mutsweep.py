"""Mutation sweep: how many small source mutations of a property's anchored files, which the
existing tests of go-zero do not notice, does the property's check notice?

usage: python3 tools/mutsweep.py Cnn [--n 120] [--workers 3] [--seed 1] [--verif /var/tmp/vmut] [--only-covered]

A measuring instrument, not a check: it never alarms and nothing registered in MANIFEST.json runs it.
  1. tools/mutgen lists the mutation points of every anchored Go file (operator swaps, negated
     conditions, integer literals +-1, deleted calls / assignments / sends, defer and go removed);
     with --only-covered only those on lines which the quick check executes (coverage/Cnn.txt) are kept.
  2. A deterministic sample of N of them is taken.  Each is applied in a scratch worktree of /repo
     (under /var/tmp, removed afterwards): it has to build, and the unedited tests of the file's
     package and of the other anchored packages have to pass ("survivor").
  3. For each survivor the property's quick check runs against the worktree
     (VERIF_REPO=<worktree> ./check Cnn, in a clone of /verif so that coq/gen of /verif itself
     keeps describing /repo): a VIOLATION line = noticed.
Results: mutation/Cnn.jsonl (one line per sampled mutant) and mutation/Cnn.md (summary and the list
of survivors the check did not notice, to be triaged in notes/Cnn.md: outside the property, an
equivalent mutant, or a gap).
"""
import json
import os
import random
import re
import shutil
import subprocess
import sys
import threading
import time

ROOT = os.path.dirname(os.path.dirname(os.path.abspath(__file__)))
REPO = "/repo"
ENV = {"GOFLAGS": "-mod=mod", "GOPROXY": "off", "GOSUMDB": "off", "GOTOOLCHAIN": "local"}


def sh(cmd, cwd=None, env=None, timeout=1800):
    e = dict(os.environ)
    e.update(ENV)
    if env:
        e.update(env)
    try:
        p = subprocess.run(cmd, cwd=cwd, env=e, timeout=timeout, stdout=subprocess.PIPE,
                           stderr=subprocess.STDOUT, text=True, errors="replace")
        return p.returncode, p.stdout
    except subprocess.TimeoutExpired as ex:
        return 124, (ex.stdout if isinstance(ex.stdout, str) else "") + "\ntimeout"


def arg(name, default):
    return sys.argv[sys.argv.index(name) + 1] if name in sys.argv else default


def anchors(pid):
    for line in open(os.path.join(ROOT, "properties.jsonl")):
        d = json.loads(line)
        if d["id"] == pid:
            return [f for f in d["anchors"].get("files", []) if f.endswith(".go")]
    raise SystemExit("unknown property " + pid)


def uncovered(pid):
    """{file: set(lines)} never executed by the quick check, from coverage/Cnn.txt"""
    res, cur = {}, None
    p = os.path.join(ROOT, "coverage", pid + ".txt")
    if not os.path.exists(p):
        return res
    for line in open(p):
        m = re.match(r"(\S+\.go): ", line)
        if m:
            cur = m.group(1)
            res.setdefault(cur, set())
            if "NOT INSTRUMENTED" in line:
                res[cur] = None
            continue
        m = re.search(r"unexecuted lines: (.*)$", line)
        if m and cur and res[cur] is not None:
            for part in m.group(1).replace("...", "").split(","):
                part = part.strip()
                if not part:
                    continue
                a, _, b = part.partition("-")
                for ln in range(int(a), int(b or a) + 1):
                    res[cur].add(ln)
    return res


def mutants(pid, mutgen):
    out = []
    for rel in anchors(pid):
        path = os.path.join(REPO, rel)
        if not os.path.exists(path):
            continue
        rc, txt = sh([mutgen, path, rel])
        for l in txt.split("\n"):
            if l.startswith("{"):
                m = json.loads(l)
                # a negated condition that is one comparison duplicates the operator swap
                if m["kind"] == "cond" and re.fullmatch(r"[^&|]*(==|!=)[^&|]*", m["orig"]):
                    continue
                out.append(m)
    return out


def apply(wt, m):
    p = os.path.join(wt, m["file"])
    src = open(p, "rb").read()
    assert src[m["off"]:m["off"] + m["len"]].decode() == m["orig"], m
    open(p, "wb").write(src[:m["off"]] + m["repl"].encode() + src[m["off"] + m["len"]:])
    return src


def main():
    pid = sys.argv[1]
    n = int(arg("--n", "120"))
    workers = int(arg("--workers", "3"))
    seed = int(arg("--seed", "1"))
    verif = arg("--verif", "/var/tmp/vmut")
    goctl = pid == "C20"
    mutgen = "/var/tmp/mutgen-bin"
    if not os.path.exists(mutgen):
        rc, out = sh(["go", "build", "-o", mutgen, "."], cwd=os.path.join(ROOT, "tools", "mutgen"))
        if rc:
            raise SystemExit(out)
    ms = mutants(pid, mutgen)
    total = len(ms)
    if "--only-covered" in sys.argv:
        unc = uncovered(pid)
        ms = [m for m in ms if unc.get(m["file"], set()) is not None and m["line"] not in unc.get(m["file"], set())]
    rng = random.Random(seed * 1000 + int(pid[1:]))
    rng.shuffle(ms)
    ms = ms[:n]
    for i, m in enumerate(ms):
        m["id"] = "%s-m%03d" % (pid, i)
    pkgs = sorted(set("./" + os.path.dirname(f) for f in anchors(pid)))
    lock = threading.Lock()
    todo = list(ms)
    outdir = os.path.join(ROOT, "mutation")
    os.makedirs(outdir, exist_ok=True)
    wts = []

    def mkwt(k):
        wt = "/var/tmp/mut-%s-%d-w%d" % (pid, os.getpid(), k)
        sh(["git", "-C", REPO, "worktree", "add", "-q", "--detach", "-f", wt, "HEAD"])
        wts.append(wt)
        return wt

    modargs = []

    def phase1(k):
        wt = mkwt(k)
        margs = list(modargs)
        moddir = wt
        if goctl:
            sys.path.insert(0, os.path.join(ROOT, "tools"))
            import seedcheck
            margs = ["-modfile", seedcheck.goctl_modfile(wt)]
            moddir = os.path.join(wt, "tools", "goctl")
        while True:
            with lock:
                if not todo:
                    return
                m = todo.pop(0)
            orig = apply(wt, m)
            try:
                own = "./" + os.path.dirname(m["file"])
                if goctl:
                    own = "./" + os.path.relpath(os.path.dirname(m["file"]), "tools/goctl")
                t0 = time.time()
                rc, out = sh(["go", "build"] + margs + [own], cwd=moddir, timeout=600)
                if rc:
                    m["status"] = "nobuild"
                    continue
                rc, out = sh(["go", "vet"] + margs + [own], cwd=moddir, timeout=600)
                if rc:
                    m["status"] = "novet"
                    continue
                rc, out = sh(["go", "test"] + margs + ["-vet=off", "-count=1", own], cwd=moddir, timeout=240)
                if rc == 0 and not goctl:
                    others = [p for p in pkgs if p != own]
                    if others:
                        rc, out = sh(["go", "test", "-vet=off", "-count=1"] + others, cwd=moddir, timeout=400)
                m["status"] = "survived" if rc == 0 else ("timeout" if rc == 124 else "killed")
                m["test_s"] = round(time.time() - t0, 1)
            finally:
                open(os.path.join(wt, m["file"]), "wb").write(orig)
                with lock:
                    print("%s %-8s %s:%d %s %r -> %r" % (m["id"], m.get("status"), m["file"], m["line"], m["kind"],
                                                          m["orig"][:40], m["repl"][:40]), flush=True)

    ths = [threading.Thread(target=phase1, args=(k,)) for k in range(workers)]
    for t in ths:
        t.start()
    for t in ths:
        t.join()
    # phase 2: the check, one at a time
    wt = wts[0]
    surv = [m for m in ms if m.get("status") == "survived"]
    for m in surv:
        orig = apply(wt, m)
        try:
            t0 = time.time()
            rc, out = sh(["./check", pid], cwd=verif, env={"VERIF_REPO": wt}, timeout=1500)
            lines = [l for l in out.split("\n") if l.startswith("VIOLATION")]
            m["check_rc"] = rc
            m["check_s"] = round(time.time() - t0, 1)
            m["noticed"] = rc == 1 and bool(lines)
            m["violation"] = lines[:1]
            if rc not in (0, 1):
                m["check_tail"] = out[-600:]
        finally:
            open(os.path.join(wt, m["file"]), "wb").write(orig)
        print("%s noticed=%s rc=%s %.0fs" % (m["id"], m["noticed"], m["check_rc"], m["check_s"]), flush=True)
    for w in wts:
        sh(["git", "-C", REPO, "worktree", "remove", "--force", w])
        shutil.rmtree(w, ignore_errors=True)
        for ext in (".goctl.mod", ".goctl.sum"):
            try:
                os.remove(w + ext)
            except OSError:
                pass
    with open(os.path.join(outdir, pid + ".jsonl"), "w") as f:
        for m in ms:
            f.write(json.dumps(m, sort_keys=True) + "\n")
    cnt = lambda s: sum(1 for m in ms if m.get("status") == s)
    noticed = [m for m in surv if m.get("noticed")]
    missed = [m for m in surv if not m.get("noticed")]
    rep = ["# %s: mutation sweep (tools/mutsweep.py, seed %d%s)" % (pid, seed, ", covered lines only" if "--only-covered" in sys.argv else ""), "",
           "%d mutation points in the anchored Go files; %d sampled: %d do not build/vet, %d killed by the existing tests "
           "(%d timed out), **%d survive the existing tests**; of these the quick check notices **%d** and not %d."
           % (total, len(ms), cnt("nobuild") + cnt("novet"), cnt("killed"), cnt("timeout"), len(surv), len(noticed), len(missed)), "",
           "## Survivors the check did not notice (triage in notes/%s.md)" % pid, ""]
    for m in missed:
        rep.append("* `%s` %s:%d `%s` %s: `%s` -> `%s`" % (m["id"], m["file"], m["line"], m["func"], m["kind"],
                                                         m["orig"].replace("\n", " ")[:80], m["repl"].replace("\n", " ")[:80]))
    rep += ["", "## Survivors noticed", ""]
    for m in noticed:
        rep.append("* `%s` %s:%d `%s` %s: `%s` -> `%s`" % (m["id"], m["file"], m["line"], m["func"], m["kind"],
                                                         m["orig"].replace("\n", " ")[:80], m["repl"].replace("\n", " ")[:80]))
    with open(os.path.join(outdir, pid + ".md"), "w") as f:
        f.write("\n".join(rep) + "\n")
    print("\n".join(rep[:4]))


if __name__ == "__main__":
    main()
