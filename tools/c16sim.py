"""Steering simulators for the C16 generators.

They are NOT used to judge anything: the generators use them to know where a structure stands
(how full the queue's buffer is and where its head is, which SafeMap generation is being
written and how far the deletion counters are from the thresholds, which key the cache would
evict next) so that multi-phase histories reach the interesting states by construction.  If a
simulator were wrong the check would only lose aim, never soundness.
"""


class QueueSim:
    def __init__(self, size):
        self.size, self.cap, self.head, self.tail, self.count, self.grown, self.grown_wrapped = size, size, 0, 0, 0, 0, 0

    def will_grow(self):
        return self.head == self.tail and self.count > 0

    def put(self):
        if self.will_grow():
            self.grown += 1
            if self.head != 0:
                self.grown_wrapped += 1
            old = self.cap
            self.cap += self.size
            self.head, self.tail = 0, old
        self.tail = (self.tail + 1) % self.cap
        self.count += 1

    def take(self):
        if self.count:
            self.head = (self.head + 1) % self.cap
            self.count -= 1


class SafeMapSim:
    """dirtyOld / dirtyNew as sets of keys, the two deletion counters, and which branches ran."""

    def __init__(self, ct, md):
        self.ct, self.md = ct, md
        self.old, self.new, self.do, self.dn = set(), set(), 0, 0
        self.hits = {}

    def _hit(self, x):
        self.hits[x] = self.hits.get(x, 0) + 1

    def draining(self):
        return self.do > self.md

    def set(self, k):
        if self.do <= self.md:
            if k in self.new:
                self.new.discard(k)
                self.dn += 1
                self._hit("set-old-rmnew")
            self.old.add(k)
        else:
            self._hit("set-new")
            if k in self.old:
                self.old.discard(k)
                self.do += 1
                self._hit("set-new-rmold")
            self.new.add(k)

    def dele(self, k):
        if k in self.old:
            self.old.discard(k)
            self.do += 1
        elif k in self.new:
            self.new.discard(k)
            self.dn += 1
            self._hit("del-new")
        if self.do >= self.md and len(self.old) < self.ct:
            self._hit("mig1")
            self.new |= self.old
            self.old, self.do, self.new, self.dn = self.new, self.dn, set(), 0
        if self.dn >= self.md and len(self.new) < self.ct:
            self._hit("mig2")
            self.old |= self.new
            self.new, self.dn = set(), 0

    def apply(self, o):
        t = o[0]
        if t == "set":
            self.set(o[1])
        elif t == "del":
            self.dele(o[1])
        elif t == "setseq":
            for i in range(o[2]):
                self.set(o[1] + i)
        elif t == "delseq":
            for i in range(o[2]):
                self.dele(o[1] + i)
        elif t == "churn":
            for _ in range(o[3]):
                self.set(o[1])
                self.dele(o[1])

    def run(self, ops):
        for o in ops:
            self.apply(o)
        return self


class LruSim:
    """recency list, front = most recently used"""

    def __init__(self, limit):
        self.limit, self.order, self.last_evicted = limit, [], None

    def touch(self, k):
        if k in self.order:
            self.order.remove(k)
            self.order.insert(0, k)
            return
        self.order.insert(0, k)
        if self.limit > 0 and len(self.order) > self.limit:
            self.last_evicted = self.order.pop()

    def remove(self, k):
        if k in self.order:
            self.order.remove(k)

    def has(self, k):
        return k in self.order

    def victim(self):
        return self.order[-1] if self.order else None

    def apply(self, o):
        t = o[0]
        if t == "set":
            self.touch(o[1])
        elif t == "get":
            if self.has(o[1]):
                self.touch(o[1])
        elif t == "del":
            self.remove(o[1])
        elif t == "take":
            if self.has(o[1]) or o[2] is not None:
                self.touch(o[1])
        elif t == "take_race":
            self.touch(o[1])
        elif t == "take_nested":
            if self.has(o[1]):
                self.touch(o[1])
            else:
                self.touch(o[3])
                if o[2] is not None:
                    self.touch(o[1])
