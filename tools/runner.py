"""Generic per-property pipeline.  A property module (tools/props/cNN.py) defines a
subclass of Property; `./check CNN` instantiates it and calls main()."""
import json
import os
import random
import sys
import time
import traceback

import vlib
from vlib import log


class Property:
    # ---- to be provided by each property -----------------------------------
    id = "C00"
    title = ""
    coq_dir = None            # e.g. "C12"; files theories/<coq_dir>/*.v
    proof_files = None        # files whose statements are this property's obligations (default: all in coq_dir + deps)
    model_targets = None      # .vo needed to evaluate cases (default: theories/<dir>/Check.vo)
    proof_targets = None      # .vo that carry the proofs (default: theories/<dir>/Props.vo and Pinned.vo if present)
    props_module = None       # default "<dir>.Props"
    check_module = None       # default "<dir>.Check"
    quick_cases = 300
    thorough_cases = 6000
    search_factor = 8
    level = "proof"
    trusted_base = []
    assumptions = []
    rule = ""
    # manifest text
    level_text = ""
    level_note = ""
    technique = "Rocq proof over an executable model + correspondence (vm_compute) against the Go implementation"
    design_ref = ""

    # ---- hooks ---------------------------------------------------------------
    def regen(self, ctx):
        """Regenerate coq/gen files from /repo (translators). Return list of notes."""
        return []

    def prepare(self, ctx):
        """Build executors. Return (ok, log)."""
        return True, ""

    def corpus(self):
        """Hand-written boundary cases and minimised past failures: run first."""
        return []

    def gen(self, rng, n, tier):
        """n generated case inputs (dicts, JSON-serialisable)."""
        raise NotImplementedError

    def execute(self, cases, ctx):
        """Run the implementation on the cases; returns list of observation dicts (same order).
        Raise ExecError if the executor cannot run."""
        raise NotImplementedError

    def coq_case(self, case, obs):
        """Gallina term of type `case` for Check.v."""
        raise NotImplementedError

    def coq_preamble(self):
        return ""

    def nontrivial(self, case, obs):
        return True

    def features(self, case, obs):
        """Histogram keys this case contributes to (input distribution in the evidence)."""
        return []

    def shrink_candidates(self, case):
        """Smaller variants of a failing case (generic list-deletion on case['ops'] by default)."""
        ops = case.get("ops")
        if not isinstance(ops, list) or len(ops) <= 1:
            return []
        res = []
        n = len(ops)
        chunk = max(1, n // 2)
        while chunk >= 1:
            for i in range(0, n, chunk):
                c = dict(case)
                c["ops"] = ops[:i] + ops[i + chunk:]
                if c["ops"]:
                    res.append(c)
            if chunk == 1:
                break
            chunk //= 2
        return res[:200]

    def known(self, case, obs):
        """Id of the KNOWN_FINDINGS entry this failing case is an instance of, or None."""
        return None

    def extra(self, ctx):
        """Additional direct monitors (e.g. -race free-run). Return list of failure dicts
        {'what':..., 'replay':{...}} — each is a failing input for the property."""
        return []

    def describe_failure(self, case, obs):
        return "property check failed on an implementation history"

    # ---- defaults -------------------------------------------------------------
    def _defaults(self):
        d = self.coq_dir or self.id
        self.coq_dir = d
        if self.model_targets is None:
            self.model_targets = ["theories/%s/Check.vo" % d]
        if self.proof_targets is None:
            self.proof_targets = []
            for f in ("Props.v", "Pinned.v", "GenProofs.v"):
                if os.path.exists(os.path.join(vlib.COQ, "theories", d, f)):
                    self.proof_targets.append("theories/%s/%s" % (d, f[:-2] + ".vo"))
        self.props_module = self.props_module or ("%s.Props" % d)
        self.check_module = self.check_module or ("%s.Check" % d)


class ExecError(Exception):
    pass


class Ctx:
    def __init__(self, prop, tier, seed):
        self.prop = prop
        self.tier = tier
        self.seed = seed
        self.t0 = time.time()
        self.notes = []
        self.checker_cmds = []


def evaluate(P, ctx, cases):
    """execute on the implementation + evaluate in Coq. Returns list of dicts."""
    obs = P.execute(cases, ctx)
    if len(obs) != len(cases):
        raise ExecError("executor returned %d results for %d cases" % (len(obs), len(cases)))
    terms = [P.coq_case(c, o) for c, o in zip(cases, obs)]
    rs = vlib.coq_eval_cases(P.id, P.check_module, terms, preamble=P.coq_preamble())
    return [{"case": c, "obs": o, "agrees": a, "prop_ok": p} for c, o, (a, p) in zip(cases, obs, rs)]


def shrink(P, ctx, case, pred, budget_s=120, first_result=None):
    """Greedy batched delta-debugging: pred(result) says the candidate still fails."""
    best = case
    best_result = first_result
    t_end = time.time() + budget_s
    rounds = 0
    while time.time() < t_end and rounds < 12:
        rounds += 1
        cands = P.shrink_candidates(best)
        if not cands:
            break
        try:
            rs = evaluate(P, ctx, cands)
        except Exception:
            break
        failing = [r for r in rs if pred(r)]
        if not failing:
            break
        failing.sort(key=lambda r: len(json.dumps(r["case"])))
        if len(json.dumps(failing[0]["case"])) >= len(json.dumps(best)):
            break
        best = failing[0]["case"]
        best_result = failing[0]
    # re-evaluate the minimal case; a flaky re-run must not replace a result that did fail
    try:
        rs = evaluate(P, ctx, [best])
        if pred(rs[0]):
            return rs[0]
    except Exception:
        pass
    return best_result


def violation(P, replay_obj, suffix=""):
    kind = "unproved" if suffix else "fail"
    path = vlib.write_replay(P.id, replay_obj, kind)
    log("VIOLATION property=%s replay=%s%s" % (P.id, path, (" " + suffix) if suffix else ""))
    return path


def run_check(P, tier, seed):
    P._defaults()
    ctx = Ctx(P.id, tier, seed)
    violations = 0
    known_hits = {}
    ev_cov = {}
    exit_code = 0

    # 0. gates (the files this property depends on; setup scans every registered property)
    gate_files = []
    for t in P.model_targets + P.proof_targets:
        vlib.coq_deps(t[:-3] + ".v", gate_files)
    hits = vlib.forbidden_scan(gate_files)
    if hits:
        log("forbidden vernacular in the development: %s" % hits[:5])
        violation(P, {"broken": "forbidden-vernacular", "hits": hits[:20]}, "no-failing-input-found")
        return 1

    # 1. regenerate translator output
    try:
        ctx.notes += P.regen(ctx) or []
        regen_err = None
    except Exception as e:  # translator failed loudly = broken correspondence
        regen_err = "%s" % e
        log("translator failed: %s" % regen_err)

    # 2. build the Coq development
    all_files = []
    for t in P.model_targets + P.proof_targets:
        vlib.coq_deps(t[:-3] + ".v", all_files)
    proof_files = P.proof_files or all_files
    obligations = vlib.coq_obligations(proof_files)
    t_build = time.time()
    ok_model, log_model = vlib.coq_build(P.model_targets)
    ok_proofs, log_proofs = vlib.coq_build(P.proof_targets) if P.proof_targets else (True, "")
    ctx.checker_cmds.append("make -f Makefile.coq -j%d %s  (coqc 8.16.1, full .vo build, in /verif/coq)"
                            % (vlib.NCPU, " ".join(P.model_targets + P.proof_targets)))
    build_s = time.time() - t_build
    discharged = [o for o in obligations if vlib.vo_fresh(o[0])]
    broken_proof = None
    if not ok_proofs or regen_err:
        broken_proof = {"broken": "proof-obligation",
                        "error": regen_err or _coq_error(log_proofs),
                        "targets": P.proof_targets}
        log("proof obligations no longer check: %s" % broken_proof["error"][:400])
    if not ok_model:
        violation(P, {"broken": "model-does-not-build", "error": _coq_error(log_model)}, "no-failing-input-found")
        _evidence(P, ctx, obligations, discharged, [], 1, {}, build_s, note="model does not build")
        return 1

    # Print Assumptions
    assum = {}
    if ok_proofs and os.path.exists(os.path.join(vlib.COQ, "theories", P.coq_dir, "Props.v")):
        thms = [n for (f, k, n) in vlib.coq_obligations(["theories/%s/Props.v" % P.coq_dir]) if k == "Theorem"]
        assum = vlib.coq_print_assumptions(P.id, P.props_module, thms)
        ctx.checker_cmds.append("coqc: Print Assumptions for %d theorems of %s" % (len(thms), P.props_module))

    # independent re-check of the compiled proofs (thorough tier only: 40 s and up)
    if tier == "thorough" and ok_proofs:
        assum["coqchk"] = _coqchk(P, ctx)
        if assum["coqchk"].startswith("FAILED"):
            broken_proof = {"broken": "coqchk", "error": assum["coqchk"], "targets": P.proof_targets}

    # 3. executors
    okx, logx = P.prepare(ctx)
    if not okx:
        log("executor does not build against the current tree:\n%s" % logx[-1500:])
        violation(P, {"broken": "correspondence-executor-does-not-build", "error": logx[-3000:]}, "no-failing-input-found")
        _evidence(P, ctx, obligations, discharged, [], 1, assum, build_s, note="executor does not build")
        return 1

    # 4. cases
    rng = random.Random(seed)
    n = P.quick_cases if tier == "quick" else P.thorough_cases
    cases = list(P.corpus()) + list(P.gen(rng, n, tier))
    for i, c in enumerate(cases):
        c["id"] = i
    try:
        results = evaluate(P, ctx, cases)
    except Exception as e:
        log("correspondence run failed: %s" % e)
        violation(P, {"broken": "correspondence-run-failed", "error": str(e)[-3000:]}, "no-failing-input-found")
        _evidence(P, ctx, obligations, discharged, [], 1, assum, build_s, note="correspondence run failed")
        return 1

    bad_prop = [r for r in results if not r["prop_ok"]]
    bad_agree = [r for r in results if r["prop_ok"] and not r["agrees"]]

    # 5. property failures on implementation histories
    kids = vlib.known_ids(P.id)
    reported = set()

    def report_prop_failures(rs):
        nonlocal violations
        for r in rs:
            kid = P.known(r["case"], r["obs"])
            if kid and kid in kids:
                known_hits[kid] = known_hits.get(kid, 0) + 1
                continue
            if violations >= 3:
                violations += 1
                continue
            try:
                m = shrink(P, ctx, r["case"], lambda x: not x["prop_ok"] and not (P.known(x["case"], x["obs"]) in kids),
                           first_result=r)
            except Exception:
                m = r
            key = vlib.canon_hash(m["case"])
            if key in reported:
                continue
            reported.add(key)
            violations += 1
            violation(P, {"property": P.id, "kind": "property-fails-on-implementation",
                          "what": P.describe_failure(m["case"], m["obs"]),
                          "case": m["case"], "observed": m["obs"],
                          "model": _model_obs(P, m), "seed": seed,
                          "rerun": "./check %s --replay <this file>" % P.id})

    report_prop_failures(bad_prop)

    # 6. extra direct monitors
    try:
        for f in P.extra(ctx) or []:
            kid = f.get("known")
            if kid and kid in kids:
                known_hits[kid] = known_hits.get(kid, 0) + 1
                continue
            violations += 1
            violation(P, {"property": P.id, "kind": "monitor", "what": f.get("what"), "detail": f.get("replay")})
    except ExecError as e:
        violations += 1
        violation(P, {"broken": "monitor-run-failed", "error": str(e)[-3000:]}, "no-failing-input-found")

    # 7. broken correspondence / proof: search for a failing input
    if violations == 0 and (bad_agree or broken_proof):
        log("searching for a failing input (%d disagreements, broken proof: %s)" % (len(bad_agree), bool(broken_proof)))
        found = False
        try:
            srng = random.Random(seed * 7919 + 13)
            extra_cases = list(P.gen(srng, n * P.search_factor, "search"))
            for i, c in enumerate(extra_cases):
                c["id"] = i
            more = evaluate(P, ctx, extra_cases)
            results += more
            bad2 = [r for r in more if not r["prop_ok"]]
            if bad2:
                before = violations
                report_prop_failures(bad2)
                found = violations > before
            bad_agree += [r for r in more if r["prop_ok"] and not r["agrees"]]
        except Exception as e:
            log("search failed: %s" % e)
        if not found:
            if bad_agree:
                try:
                    m = shrink(P, ctx, bad_agree[0]["case"], lambda x: not x["agrees"], budget_s=60,
                               first_result=bad_agree[0])
                except Exception:
                    m = bad_agree[0]
                obj = {"property": P.id, "broken": "correspondence",
                       "what": "model %s.%s and implementation disagree; no history violating the property was found"
                               % (P.coq_dir, "Model"),
                       "disagreements": len(bad_agree), "minimal_case": m["case"],
                       "implementation_observed": m["obs"], "model_observed": _model_obs(P, m)}
                if broken_proof:
                    obj["broken_proof"] = broken_proof
                violation(P, obj, "no-failing-input-found")
            else:
                violation(P, dict(broken_proof, property=P.id), "no-failing-input-found")
            violations += 1

    for kid, cnt in sorted(known_hits.items()):
        log("KNOWN-FINDING: property=%s %s (%s; %d instance(s) in this run)" % (P.id, kid, kids[kid].get("what", ""), cnt))

    _evidence(P, ctx, obligations, discharged, results, violations, assum, build_s, known_hits=known_hits)
    return 1 if violations else 0


def _coqchk(P, ctx):
    """coqchk -o on the property theorems; result cached by the hash of the .vo files involved."""
    import hashlib
    mods = []
    files = []
    for t in P.proof_targets:
        rel = t[:-3]
        parts = rel.split("/")
        mods.append(("GZ." if parts[0] == "theories" else "GZgen.") + ".".join(parts[1:]))
        vlib.coq_deps(rel + ".v", files)
    h = hashlib.sha256()
    for f in sorted(files):
        try:
            h.update(open(os.path.join(vlib.COQ, f[:-2] + ".vo"), "rb").read())
        except OSError:
            pass
    cache_dir = os.path.join(vlib.ROOT, ".cache")
    os.makedirs(cache_dir, exist_ok=True)
    cpath = os.path.join(cache_dir, "coqchk_%s_%s.txt" % (P.id, h.hexdigest()[:16]))
    cmd = ["coqchk", "-silent", "-o", "-Q", "theories", "GZ", "-Q", "gen", "GZgen"] + mods
    ctx.checker_cmds.append(" ".join(cmd))
    if os.path.exists(cpath):
        return open(cpath).read()
    rc, out = vlib.sh(["timeout", "3000"] + cmd, cwd=vlib.COQ, timeout=3100)
    summary = out[out.find("CONTEXT SUMMARY"):] if "CONTEXT SUMMARY" in out else out[-1500:]
    res = ("ok: " if rc == 0 else "FAILED rc=%d: " % rc) + " ".join(summary.split())
    if rc == 0:
        with open(cpath, "w") as f:
            f.write(res)
    return res


def _coq_error(out):
    lines = out.split("\n")
    for i, l in enumerate(lines):
        if l.startswith("File ") and i + 1 < len(lines) and "Error" in "\n".join(lines[i:i + 3]):
            return "\n".join(lines[i:i + 12])
    return out[-1500:]


def _model_obs(P, r):
    try:
        return vlib.coq_eval_term(P.id, P.check_module, "model_obs (%s)" % P.coq_case(r["case"], r["obs"]),
                                  preamble=P.coq_preamble())[:4000]
    except Exception as e:
        return "unavailable: %s" % e


def _evidence(P, ctx, obligations, discharged, results, violations, assum, build_s, known_hits=None, note=None):
    seen = set()
    nontriv = 0
    hist = {}
    for r in results:
        for k in P.features(r["case"], r["obs"]):
            hist[k] = hist.get(k, 0) + 1
        c = dict(r["case"])
        c.pop("id", None)
        h = vlib.canon_hash(c)
        if h in seen:
            continue
        seen.add(h)
        if P.nontrivial(r["case"], r["obs"]):
            nontriv += 1
    samples = []
    for r in results[:2] + results[-1:]:
        samples.append({"case": r["case"], "observed": r["obs"], "agrees": r["agrees"], "prop_ok": r["prop_ok"]})
    samples.append({"obligations": ["%s: %s %s" % o for o in obligations[-6:]]})
    tb = ["Coq 8.16.1 kernel and vm_compute (no native_compute); full .vo build",
          "Print Assumptions: " + json.dumps(assum, sort_keys=True)] + list(P.trusted_base)
    ev = {
        "property_id": P.id,
        "tier": ctx.tier if ctx.tier in ("quick", "thorough") else "quick",
        "seed": ctx.seed,
        "level": P.level if P.level in ("exploration", "fault_enumeration", "model_checking", "proof", "translation_validation", "other") else "other",
        "coverage": {
            "obligations": len(obligations),
            "discharged": len(discharged),
            "checker_cmd": "; ".join(ctx.checker_cmds),
            "trusted_base": tb,
            "evaluations": len(results),
            "distinct_nontrivial": nontriv,
            "distinct": len(seen),
            "rule": P.rule,
            "samples": samples,
            "disagreements": sum(1 for r in results if not r["agrees"]),
            "property_failures": sum(1 for r in results if not r["prop_ok"]),
            "input_histogram": hist,
            "known_findings_hit": known_hits or {},
            "coq_build_s": round(build_s, 1),
            "repo_tree": vlib.tree_id(),
            "notes": ctx.notes + ([note] if note else []),
        },
        "assumptions": list(P.assumptions),
        "wall_s": round(time.time() - ctx.t0, 1),
        "violations": violations,
    }
    vlib.write_evidence(P.id, ev)


def run_replay(P, path):
    P._defaults()
    obj = json.load(open(path if os.path.isabs(path) else os.path.join(vlib.ROOT, path)))
    ctx = Ctx(P.id, "quick", 0)
    if "case" not in obj and "minimal_case" not in obj:
        log("replay file names a broken obligation, not an input: %s" % obj.get("broken"))
        log(json.dumps(obj, indent=1)[:3000])
        return 1
    ok, _ = vlib.coq_build(P.model_targets)
    okx, logx = P.prepare(ctx)
    if not ok or not okx:
        log("cannot build model/executor")
        return 2
    case = obj.get("case") or obj.get("minimal_case")
    r = evaluate(P, ctx, [case])[0]
    log("replayed: agrees=%s prop_ok=%s observed=%s" % (r["agrees"], r["prop_ok"], json.dumps(r["obs"])[:2000]))
    if not r["prop_ok"]:
        kid = P.known(r["case"], r["obs"])
        if kid and kid in vlib.known_ids(P.id):
            log("KNOWN-FINDING: property=%s %s" % (P.id, kid))
            return 0
        log("VIOLATION property=%s replay=%s" % (P.id, path))
        return 1
    return 0


def main(P, argv):
    import argparse
    ap = argparse.ArgumentParser()
    ap.add_argument("--tier", default=os.environ.get("VERIF_TIER", "quick"))
    ap.add_argument("--replay")
    a = ap.parse_args(argv)
    seed = int(os.environ.get("VERIF_SEED", "1") or "1")
    try:
        if a.replay:
            return run_replay(P, a.replay)
        return run_check(P, a.tier, seed)
    except Exception:
        traceback.print_exc()
        return 2
