// mutgen lists small source mutations of one Go file as JSON (byte offset, length, replacement).
// It is a measuring instrument for the checks (tools/mutsweep.py), not part of any check.
package main

import (
	"encoding/json"
	"fmt"
	"go/ast"
	"go/parser"
	"go/token"
	"os"
	"strconv"
)

type Mut struct {
	File string `json:"file"`
	Line int    `json:"line"`
	Col  int    `json:"col"`
	Off  int    `json:"off"`
	Len  int    `json:"len"`
	Kind string `json:"kind"`
	Orig string `json:"orig"`
	Repl string `json:"repl"`
	Func string `json:"func"`
}

var swaps = map[token.Token][]string{
	token.LSS: {"<="}, token.LEQ: {"<"}, token.GTR: {">="}, token.GEQ: {">"},
	token.EQL: {"!="}, token.NEQ: {"=="}, token.LAND: {"||"}, token.LOR: {"&&"},
	token.ADD: {"-"}, token.SUB: {"+"}, token.MUL: {"/"}, token.QUO: {"*"},
}

func main() {
	path := os.Args[1]
	rel := path
	if len(os.Args) > 2 {
		rel = os.Args[2]
	}
	src, err := os.ReadFile(path)
	if err != nil {
		panic(err)
	}
	fset := token.NewFileSet()
	f, err := parser.ParseFile(fset, path, src, parser.ParseComments)
	if err != nil {
		panic(err)
	}
	var out []Mut
	cur := ""
	add := func(pos, end token.Pos, kind, repl string) {
		p := fset.Position(pos)
		e := fset.Position(end)
		out = append(out, Mut{File: rel, Line: p.Line, Col: p.Column, Off: p.Offset, Len: e.Offset - p.Offset,
			Kind: kind, Orig: string(src[p.Offset:e.Offset]), Repl: repl, Func: cur})
	}
	for _, d := range f.Decls {
		fd, ok := d.(*ast.FuncDecl)
		if !ok || fd.Body == nil {
			continue
		}
		cur = fd.Name.Name
		if fd.Recv != nil && len(fd.Recv.List) > 0 {
			t := fd.Recv.List[0].Type
			if s, ok := t.(*ast.StarExpr); ok {
				t = s.X
			}
			if ix, ok := t.(*ast.IndexExpr); ok {
				t = ix.X
			}
			if id, ok := t.(*ast.Ident); ok {
				cur = id.Name + "." + cur
			}
		}
		ast.Inspect(fd.Body, func(n ast.Node) bool {
			switch x := n.(type) {
			case *ast.BinaryExpr:
				for _, r := range swaps[x.Op] {
					add(x.OpPos, x.OpPos+token.Pos(len(x.Op.String())), "binop", r)
				}
			case *ast.UnaryExpr:
				if x.Op == token.NOT {
					add(x.OpPos, x.OpPos+1, "not", "")
				}
			case *ast.BasicLit:
				if x.Kind == token.INT {
					if v, err := strconv.ParseInt(x.Value, 0, 64); err == nil {
						add(x.Pos(), x.End(), "int", strconv.FormatInt(v+1, 10))
						if v > 0 {
							add(x.Pos(), x.End(), "int", strconv.FormatInt(v-1, 10))
						}
					}
				}
			case *ast.IfStmt:
				if x.Cond != nil {
					s := fset.Position(x.Cond.Pos()).Offset
					e := fset.Position(x.Cond.End()).Offset
					add(x.Cond.Pos(), x.Cond.End(), "cond", "!("+string(src[s:e])+")")
				}
			case *ast.BlockStmt:
				for _, st := range x.List {
					delStmt(st, add)
				}
			case *ast.CaseClause:
				for _, st := range x.Body {
					delStmt(st, add)
				}
			case *ast.CommClause:
				for _, st := range x.Body {
					delStmt(st, add)
				}
			case *ast.BranchStmt:
				if x.Label == nil {
					if x.Tok == token.BREAK {
						add(x.Pos(), x.End(), "branch", "continue")
					} else if x.Tok == token.CONTINUE {
						add(x.Pos(), x.End(), "branch", "break")
					}
				}
			}
			return true
		})
	}
	enc := json.NewEncoder(os.Stdout)
	for _, m := range out {
		if err := enc.Encode(m); err != nil {
			fmt.Fprintln(os.Stderr, err)
		}
	}
}

func delStmt(st ast.Stmt, add func(pos, end token.Pos, kind, repl string)) {
	switch s := st.(type) {
	case *ast.ExprStmt:
		if _, ok := s.X.(*ast.CallExpr); ok {
			add(s.Pos(), s.End(), "delcall", "")
		}
	case *ast.IncDecStmt:
		add(s.Pos(), s.End(), "delstmt", "")
	case *ast.AssignStmt:
		if s.Tok != token.DEFINE {
			add(s.Pos(), s.End(), "delstmt", "")
		}
	case *ast.DeferStmt:
		add(s.Pos(), s.End(), "deldefer", "")
		// run the deferred call at once instead of at return
		add(s.Pos(), s.Pos()+token.Pos(len("defer")), "undefer", "")
	case *ast.GoStmt:
		add(s.Pos(), s.Pos()+token.Pos(len("go")), "ungo", "")
	case *ast.SendStmt:
		add(s.Pos(), s.End(), "delsend", "")
	}
}
