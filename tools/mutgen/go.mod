module mutgen

go 1.21
