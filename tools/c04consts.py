"""C04 translator: the constants and source shapes the C04 model relies on -> coq/gen/C04Consts.v.

Re-extracted from the Go sources on every run.  Two extractors, item by item:
  1. SYNTACTIC (fast path): regular expressions over the gofmt'ed declarations, as listed below.  It
     recognises today's shapes and a few variants; a harmless rewrite (renamed locals / fields /
     constants, the exemption test moved into a helper or a switch, explicit unlocks instead of a
     deferred one, reordered statements) may defeat it.  That is NOT a finding.
  2. BEHAVIOURAL (fallback for every item the syntactic extractor cannot recognise): the value is
     determined by experiment on the code of the current tree — a small differential family of
     requests through handler.TimeoutHandler (harness/cmd/c04) and through a real rest.Server
     (overlay test in package rest): which status answers a cancelled / an expired request, with which
     body; is a websocket / event-stream request wrapped; which codes make WriteHeader panic; is a
     Flush after the timeout ignored, does Flush send the recorded status, does the done branch
     send it twice; ng.timeout, Read/WriteTimeout and the handler's deadline for conf.Timeout = 60000;
     the headers an SSE route sets; the RecoverHandler's status.
  An item neither extractor can establish is reported (RuntimeError -> broken obligation; the runner
  then searches for a failing input and reports no-failing-input-found only if it finds none).
  A value that CHANGED reaches coq/gen/C04Consts.v whichever extractor found it, and GenProofs.v
  is re-checked against it.

Syntactic sources:
  rest/handler/timeouthandler.go   499, the reason string, the header names/values of the exemptions,
                                   the two statuses of the ctx.Done() branch (in source order: Canceled, else),
                                   the bounds of checkWriteHeaderCode, the default status of a timeoutWriter,
                                   whether Flush locks tw.mu / looks at tw.timedOut / sends tw.code
  rest/engine.go                   conf.Timeout unit, the factors of http.Server.ReadTimeout/WriteTimeout,
                                   the headers an SSE route sets
  rest/internal/header/headers.go  the header names/values behind those identifiers
  $GOROOT/src/net/http/status.go   the numbers behind http.StatusXxx
"""
import os
import re
import subprocess

import vlib


def _read(rel):
    return open(os.path.join(vlib.REPO, rel)).read()


def _fail(what, rel):
    raise RuntimeError("C04 translator: %s no longer found in %s" % (what, rel))


def _str_const(src, name, rel):
    m = re.search(r"\b%s\s*=\s*\"([^\"]*)\"" % re.escape(name), src)
    if not m:
        _fail("constant " + name, rel)
    return m.group(1)


def _int_const(src, name, rel):
    m = re.search(r"\b%s\s*=\s*(\d+)\b" % re.escape(name), src)
    if not m:
        _fail("constant " + name, rel)
    return int(m.group(1))


_GOROOT = None


def _http_status(name):
    global _GOROOT
    if _GOROOT is None:
        _GOROOT = subprocess.run(["go", "env", "GOROOT"], stdout=subprocess.PIPE, text=True).stdout.strip()
    rel = os.path.join(_GOROOT, "src", "net", "http", "status.go")
    return _int_const(open(rel).read(), name, rel)


def _func_body(src, header_re, rel):
    """text of the function whose header matches header_re (brace counting; the sources are gofmt'ed)"""
    m = re.search(header_re, src)
    if not m:
        _fail("function /%s/" % header_re, rel)
    i = src.index("{", m.end() - 1)
    depth, j = 0, i
    while True:
        ch = src[j]
        if ch == "{":
            depth += 1
        elif ch == "}":
            depth -= 1
            if depth == 0:
                return src[i:j + 1]
        j += 1


def _status_value(ident, src, rel):
    if ident.startswith("http."):
        return _http_status(ident[5:])
    return _int_const(src, ident, rel)


DEFAULTS = {"exempt": [("Upgrade", "websocket"), ("Accept", "text/event-stream")],
            "sse_headers": [("Content-Type", "text/event-stream"), ("Cache-Control", "no-cache"),
                            ("Connection", "keep-alive")],
            "recover_reply": [["wh", 500]], "recover_code": 500, "recover_inside": True}

LAST = None          # the constants of the last successful extract() (generation / rendering use them)


def extract_or_defaults():
    """for case generation / rendering only: never raises (regen() reports what is broken)"""
    if LAST is not None:
        return LAST
    try:
        return extract()
    except Exception:
        return dict(DEFAULTS)


# ----------------------------------------------------------------------------------------------
# syntactic extractor: one function per group of items; each may raise

def _syn_handler_consts(c):
    rel = "rest/handler/timeouthandler.go"
    s = _read(rel)
    serve = _func_body(s, r"func \(\w+ \*timeoutHandler\) ServeHTTP\(", rel)
    i = serve.find("case <-ctx.Done():")
    if i < 0:
        _fail("case <-ctx.Done()", rel)
    m = re.search(r"if errors\.Is\(err, context\.Canceled\) \{\s*w\.WriteHeader\(([\w.]+)\)\s*\} else \{\s*"
                  r"w\.WriteHeader\(([\w.]+)\)\s*\}\s*_, _ = io\.WriteString\(w, h\.errorBody\(\)\)", serve[i:])
    if not m:
        _fail("the 499/503 choice of the ctx.Done() branch", rel)
    c["code_cancel"] = _status_value(m.group(1), s, rel)
    c["code_deadline"] = _status_value(m.group(2), s, rel)


def _syn_reason(c):
    rel = "rest/handler/timeouthandler.go"
    s = _read(rel)
    if not re.search(r"func \(h \*timeoutHandler\) errorBody\(\) string \{\s*return reason\s*\}", s):
        _fail("errorBody() returning reason", rel)
    c["reason"] = _str_const(s, "reason", rel)


def _syn_exempt(c):
    rel = "rest/handler/timeouthandler.go"
    s = _read(rel)
    # the exemption test: the comparisons r.Header.Get(name) == value, literally, wherever they are written
    # (in ServeHTTP, in a helper it calls, or as the cases of a switch), in source order
    ms = re.findall(r"\w+\.Header\.Get\((\w+)\) == (\w+)", s)
    if len(ms) != 2:
        ms = re.findall(r"switch \w+\.Header\.Get\((\w+)\) \{\s*case (\w+):", s)
    if len(ms) != 2:
        _fail("the two websocket / event-stream exemption comparisons r.Header.Get(..) == ..", rel)
    c["exempt"] = [(_str_const(s, n, rel), _str_const(s, v, rel)) for n, v in ms]


def _syn_default_status(c):
    rel = "rest/handler/timeouthandler.go"
    s = _read(rel)
    serve = _func_body(s, r"func \(\w+ \*timeoutHandler\) ServeHTTP\(", rel)
    m = re.search(r"tw := &timeoutWriter\{[^}]*\bcode:\s*([\w.]+),", serve) or re.search(r"\btw\.code = (http\.\w+)\n", s)
    if not m:
        _fail("the initial code of the timeoutWriter", rel)
    c["code_default"] = _status_value(m.group(1), s, rel)
    m = re.search(r"if tw\.code != ([\w.]+)( && !tw\.flushed)? \{\s*w\.WriteHeader\(tw\.code\)", serve)
    if not m:
        _fail("the status forwarding of the done branch", rel)
    c["code_implicit"] = _status_value(m.group(1), s, rel)
    c["done_skips_status_when_flushed"] = bool(m.group(2))


def _syn_bounds(c):
    rel = "rest/handler/timeouthandler.go"
    s = _read(rel)
    chk = _func_body(s, r"func checkWriteHeaderCode\(code int\) ", rel)
    m = re.search(r"if code < (\d+) \|\| code > (\d+) \{", chk)
    if not m:
        _fail("the bounds of checkWriteHeaderCode", rel)
    c["code_min"], c["code_max"] = int(m.group(1)), int(m.group(2))


def _syn_flush_locks(c):
    """Flush runs under the writer's mutex: a Lock() on a field of the receiver and an Unlock() of the same
    field (deferred, or explicit: then one per return statement after the Lock and one at the end)"""
    rel = "rest/handler/timeouthandler.go"
    s = _read(rel)
    m = re.search(r"func \((\w+) \*timeoutWriter\) Flush\(\) ", s)
    if not m:
        _fail("timeoutWriter.Flush", rel)
    recv = m.group(1)
    fl = _func_body(s, r"func \(\w+ \*timeoutWriter\) Flush\(\) ", rel)
    lk = re.search(r"\b%s\.(\w+)\.Lock\(\)" % re.escape(recv), fl)
    if not lk:
        c["flush_locks"] = False
        return
    unlock = "%s.%s.Unlock()" % (recv, lk.group(1))
    after = fl[lk.end():]
    if "defer " + unlock in after:
        c["flush_locks"] = True
        return
    # explicit unlocks: every `return` after the Lock is preceded by one, and the body ends with one
    rets = [mm.start() for mm in re.finditer(r"\breturn\b", after)]
    ok = all(re.search(re.escape(unlock) + r"\s*$", after[:r]) for r in rets)
    ok = ok and re.search(re.escape(unlock) + r"\s*\}\s*$", after) is not None
    if not ok:
        _fail("the Unlock of timeoutWriter.Flush on every path", rel)
    c["flush_locks"] = True


def _syn_flush_shape(c):
    rel = "rest/handler/timeouthandler.go"
    s = _read(rel)
    fl = _func_body(s, r"func \(tw \*timeoutWriter\) Flush\(\) ", rel)
    a = bool(re.search(r"if tw\.timedOut \{\s*(tw\.mu\.Unlock\(\)\s*)?return\s*\}", fl))
    b = bool(re.search(r"tw\.w\.WriteHeader\(tw\.code\)", fl))
    wr = _func_body(s, r"func \(tw \*timeoutWriter\) Write\(p \[\]byte\) ", rel)
    w = bool(re.search(r"if tw\.timedOut \{\s*(tw\.mu\.Unlock\(\)\s*)?return 0, http\.ErrHandlerTimeout\s*\}", wr))
    if not (a and b and w):
        # a `false` from a pattern that merely was not recognised would be a false alarm: let the experiment decide
        _fail("the shapes of timeoutWriter.Flush / Write (timedOut test, status sent)", rel)
    c["flush_checks_timedout"], c["flush_sends_status"], c["write_checks_timedout"] = a, b, w


_UNITS = {"Nanosecond": 1, "Microsecond": 10**3, "Millisecond": 10**6, "Second": 10**9}


def _syn_engine(c):
    rel = "rest/engine.go"
    e = _read(rel)
    m = re.search(r"return time\.Duration\(ng\.conf\.Timeout\) \* time\.(\w+)", _func_body(e, r"func \(ng \*engine\) checkedTimeout\(", rel))
    if not m:
        _fail("the unit of conf.Timeout in checkedTimeout", rel)
    c["conf_unit_ns"] = _UNITS[m.group(1)]
    m = re.search(r"timeout: time\.Duration\(c\.Timeout\) \* time\.(\w+)", _func_body(e, r"func newEngine\(", rel))
    if not m:
        _fail("the unit of conf.Timeout in newEngine", rel)
    c["conf_unit_ns_engine"] = _UNITS[m.group(1)]
    wt = _func_body(e, r"func \(ng \*engine\) withTimeout\(\) ", rel)
    m1 = re.search(r"svr\.ReadTimeout = (\d+) \* timeout / (\d+)", wt)
    m2 = re.search(r"svr\.WriteTimeout = (\d+) \* timeout / (\d+)", wt)
    if not (m1 and m2 and re.search(r"if timeout > 0 \{", wt)):
        _fail("ReadTimeout/WriteTimeout factors of withTimeout", rel)
    c["read_num"], c["read_den"] = int(m1.group(1)), int(m1.group(2))
    c["write_num"], c["write_den"] = int(m2.group(1)), int(m2.group(2))


def _syn_sse(c):
    rel = "rest/engine.go"
    e = _read(rel)
    sse = _func_body(e, r"func buildSSERoutes\(", rel)
    hs = re.findall(r"w\.Header\(\)\.Set\(header\.(\w+), header\.(\w+)\)", sse)
    if not hs:
        _fail("the headers set by buildSSERoutes", rel)
    rel = "rest/internal/header/headers.go"
    h = _read(rel)
    c["sse_headers"] = [(_str_const(h, k, rel), _str_const(h, v, rel)) for k, v in hs]


def _syn_recover(c):
    rel = "rest/handler/recoverhandler.go"
    r = _read(rel)
    body = _func_body(r, r"func RecoverHandler\(", rel)
    m = re.search(r"recover\(\).*?\.WriteHeader\(([\w.]+)\)", body, re.S)
    # today's shape: the reply is ONE WriteHeader and nothing else touches the writer
    if not m or len(re.findall(r"\.WriteHeader\(", body)) != 1 or re.search(r"\.Write\(|http\.Error|Header\(\)|Fprint|WriteString", body):
        _fail("the RecoverHandler's reply as a single WriteHeader(status)", rel)
    c["recover_reply"] = [["wh", _status_value(m.group(1), r, rel)]]
    c["recover_code"] = c["recover_reply"][0][1]


def _syn_chain_order(c):
    """an OBSERVATION, not an obligation: does the engine put the RecoverHandler behind (inside) the timeout
    middleware or in front of it?  Both orders satisfy the property; the model follows the tree."""
    rel = "rest/engine.go"
    e = _read(rel)
    body = _func_body(e, r"func \(ng \*engine\) buildChainWithNativeMiddlewares\(", rel)
    i, j = body.find("handler.TimeoutHandler("), body.find("handler.RecoverHandler")
    if i < 0 or j < 0 or body.count("handler.TimeoutHandler(") != 1 or body.count("handler.RecoverHandler") != 1 \
            or not re.search(r"chn = chn\.Append\(handler\.TimeoutHandler\(", body) \
            or not re.search(r"chn = chn\.Append\(handler\.RecoverHandler\)", body):
        _fail("the places of TimeoutHandler and RecoverHandler in the chain", rel)
    c["recover_inside"] = i < j


# group name -> (syntactic extractor, the items it establishes)
GROUPS = [
    ("timeout_codes", _syn_handler_consts, ["code_cancel", "code_deadline"]),
    ("reason", _syn_reason, ["reason"]),
    ("exempt", _syn_exempt, ["exempt"]),
    ("default_status", _syn_default_status, ["code_default", "code_implicit", "done_skips_status_when_flushed"]),
    ("bounds", _syn_bounds, ["code_min", "code_max"]),
    ("flush_locks", _syn_flush_locks, ["flush_locks"]),
    ("flush_shape", _syn_flush_shape, ["flush_checks_timedout", "flush_sends_status", "write_checks_timedout"]),
    ("engine", _syn_engine, ["conf_unit_ns", "conf_unit_ns_engine", "read_num", "read_den", "write_num", "write_den"]),
    ("sse", _syn_sse, ["sse_headers"]),
    ("recover", _syn_recover, ["recover_reply", "recover_code"]),
    ("chain_order", _syn_chain_order, ["recover_inside"]),
]
ITEMS = [k for _g, _f, ks in GROUPS for k in ks]
HOW = {}             # item -> "source" | "experiment" (of the last extract)


def extract(probe=None):
    """probe(groups) -> dict of items established by experiment on the current tree (tools/props/c04.py)"""
    global LAST
    c, missing, why = {}, [], {}
    HOW.clear()
    for name, fn, keys in GROUPS:
        part = {}
        try:
            fn(part)
            if any(k not in part for k in keys):
                raise RuntimeError("incomplete")
            c.update(part)
            for k in keys:
                HOW[k] = "source"
        except Exception as ex:      # noqa: a shape the regular expressions do not know
            missing.append(name)
            why[name] = str(ex)
    if missing and probe is not None:
        try:
            got = probe(missing)
        except Exception as ex:
            got = {}
            why["experiment"] = str(ex)[-600:]
        for name, _fn, keys in GROUPS:
            if name in missing and all(k in got for k in keys):
                for k in keys:
                    c[k] = got[k]
                    HOW[k] = "experiment"
                missing.remove(name)
    if missing:
        raise RuntimeError("C04 translator: %s established neither from the source nor by experiment (%s)" % (
            ", ".join(missing), "; ".join("%s: %s" % kv for kv in sorted(why.items()))))
    LAST = c
    return c


def reply_names(reply):
    """header names the RecoverHandler's reply touches, in the order of their model keys 800+i"""
    return sorted(set(op[1] for op in reply if op[0] in ("del", "set")))


def reply_key(c, name):
    """model key of a header the reply touches: the key of the SSE route header of that name (900+i) if
    there is one — it is the same header of the same writer —, else 800+j"""
    sse = [n for n, _v in c.get("sse_headers", [])]
    if name in sse:
        return 900 + sse.index(name)
    return 800 + reply_names(c["recover_reply"]).index(name)


def _bytes(s):
    return "[" + "; ".join(str(b) for b in s.encode()) + "]"


def _b(x):
    return "true" if x else "false"


def regen(probe=None):
    c = extract(probe)
    body = ["(* GENERATED by tools/c04consts.py from rest/handler/timeouthandler.go, rest/handler/recoverhandler.go,",
            "   rest/engine.go, rest/internal/header/headers.go and net/http/status.go - do not edit.",
            "   Strings are lists of byte codes. *)",
            "From Coq Require Import List ZArith Bool.", "Import ListNotations.", "Open Scope Z_scope.", ""]
    for coqname, key in (("code_cancel", "code_cancel"), ("code_deadline", "code_deadline"),
                         ("code_default", "code_default"), ("code_implicit", "code_implicit"),
                         ("code_min", "code_min"), ("code_max", "code_max"),
                         ("conf_unit_ns", "conf_unit_ns"), ("conf_unit_ns_engine", "conf_unit_ns_engine"),
                         ("read_num", "read_num"), ("read_den", "read_den"),
                         ("write_num", "write_num"), ("write_den", "write_den")):
        body.append("Definition %s : Z := %d." % (coqname, c[key]))
    body.append("Definition reason_text : list Z := %s.  (* %s *)" % (_bytes(c["reason"]), c["reason"]))
    body.append("Definition exempt_headers : list (list Z * list Z) := [%s].  (* %s *)" % (
        "; ".join("(%s, %s)" % (_bytes(k), _bytes(v)) for k, v in c["exempt"]),
        ", ".join("%s: %s" % kv for kv in c["exempt"])))
    body.append("Definition sse_route_headers : list (list Z * list Z) := [%s].  (* %s *)" % (
        "; ".join("(%s, %s)" % (_bytes(k), _bytes(v)) for k, v in c["sse_headers"]),
        ", ".join("%s: %s" % kv for kv in c["sse_headers"])))
    # the RecoverHandler's reply, as data (Recover.decode_reply turns it into handler actions):
    # (0, key, 0, []) = Header().Del   (1, key, value, []) = Header().Set   (2, code, 0, []) = WriteHeader   (3, 0, 0, bytes) = Write
    names = reply_names(c["recover_reply"])
    ops = []
    for op in c["recover_reply"]:
        if op[0] == "del":
            ops.append("(0, %d, 0, [])" % reply_key(c, op[1]))
        elif op[0] == "set":
            ops.append("(1, %d, %d, [])" % (reply_key(c, op[1]), 850 + names.index(op[1])))
        elif op[0] == "wh":
            ops.append("(2, %d, 0, [])" % op[1])
        else:
            ops.append("(3, 0, 0, [%s])" % "; ".join(str(b) for b in op[1]))
    body.append("Definition recover_reply_ops : list (Z * Z * Z * list Z) := [%s].  (* %s *)" % ("; ".join(ops), c["recover_reply"]))
    for key in ("flush_locks", "flush_checks_timedout", "flush_sends_status", "done_skips_status_when_flushed",
                "write_checks_timedout"):
        body.append("Definition %s : bool := %s." % (key, _b(c[key])))
    text = "\n".join(body) + "\n"
    path = os.path.join(vlib.COQ, "gen", "C04Consts.v")
    os.makedirs(os.path.dirname(path), exist_ok=True)
    old = open(path).read() if os.path.exists(path) else None
    if old != text:
        with open(path, "w") as f:
            f.write(text)
    exp = sorted(k for k, v in HOW.items() if v == "experiment")
    return ["C04Consts.v: codes %d/%d reason=%r exempt=%s sse_headers=%d factors %d/%d %d/%d flush(lock=%s,timedOut=%s,status=%s) recover=%d (%s the timeout middleware)%s"
            % (c["code_cancel"], c["code_deadline"], c["reason"], c["exempt"], len(c["sse_headers"]),
               c["read_num"], c["read_den"], c["write_num"], c["write_den"],
               c["flush_locks"], c["flush_checks_timedout"], c["flush_sends_status"], c["recover_code"], "inside" if c["recover_inside"] else "IN FRONT OF",
               ("; established by EXPERIMENT (source shape not recognised): " + ", ".join(exp)) if exp else "")]
