"""Confirm a seeded change (seeded/<id>/{patch.diff, meta.json, demo}) and run the check against it.

usage: python3 tools/seedcheck.py seeded/<id> [--no-check] [--check-only] [--tier quick] [--write]

meta.json keys used: property, test_pkgs (list of go package patterns), demo {file, pkg_dir, run} or
demo {file, program: true}.
Steps (all in a scratch worktree under /var/tmp, removed afterwards; /repo is never touched):
  1. demo without the patch -> must pass
  2. apply patch: go build ./... ; go test <test_pkgs> must pass ; demo must fail
  3. VERIF_REPO=<worktree> ./check <property>  -> expect VIOLATION
Results are printed as JSON (and stored under "confirmed" in meta.json with --write).
"""
import json
import os
import shutil
import subprocess
import sys
import time

ROOT = os.path.dirname(os.path.dirname(os.path.abspath(__file__)))


def sh(cmd, cwd=None, env=None, timeout=1800):
    e = dict(os.environ)
    e.update({"GOFLAGS": "-mod=mod", "GOPROXY": "off", "GOSUMDB": "off", "GOTOOLCHAIN": "local"})
    if env:
        e.update(env)
    try:
        p = subprocess.run(cmd, cwd=cwd, env=e, shell=isinstance(cmd, str), timeout=timeout,
                           stdout=subprocess.PIPE, stderr=subprocess.STDOUT, text=True, errors="replace")
        return p.returncode, p.stdout
    except subprocess.TimeoutExpired as ex:
        return 124, (ex.stdout or "") if isinstance(ex.stdout, str) else "timeout"


MODARGS = []   # ["-modfile", path] for seeds in the goctl module (meta "modfile": "goctl")


def goctl_modfile(wt):
    """goctl is a separate module whose deps gookit/color and fatih/structtag are absent offline:
    its own go.mod + replaces to the worktree and to the stand-in modules of harness/stubs."""
    base = wt.rstrip("/") + ".goctl"
    text = open(os.path.join(wt, "tools", "goctl", "go.mod")).read()
    stubs = os.path.join(ROOT, "harness", "stubs")
    text += "\nreplace github.com/zeromicro/go-zero => %s\nreplace github.com/gookit/color => %s/color\nreplace github.com/fatih/structtag => %s/structtag\n" % (wt, stubs, stubs)
    with open(base + ".mod", "w") as f:
        f.write(text)
    lines = set()
    for q in (os.path.join(wt, "go.sum"), os.path.join(wt, "tools", "goctl", "go.sum")):
        lines.update(l for l in open(q).read().split("\n") if l.strip())
    with open(base + ".sum", "w") as f:
        f.write("\n".join(sorted(lines)) + "\n")
    return base + ".mod"


def run_demo(wt, sd, demo):
    src = os.path.join(sd, demo["file"])
    if demo.get("program"):
        d = os.path.join(wt, "verifdemo_main")
        os.makedirs(d, exist_ok=True)
        shutil.copy(src, os.path.join(d, "main.go"))
        rc, out = sh(["go", "run", "./verifdemo_main"], cwd=os.path.join(wt, demo.get("module_dir", ".")), timeout=600)
        shutil.rmtree(d)
        return rc, out
    dst = os.path.join(wt, demo["pkg_dir"], "verifdemo_" + os.path.basename(demo["file"]))
    shutil.copy(src, dst)
    cmd = ["go", "test"] + MODARGS + ["-vet=off", "-count=1", "-run", demo.get("run", "."), "."]
    if demo.get("race"):
        cmd.insert(2, "-race")
    rc, out = sh(cmd, cwd=os.path.join(wt, demo["pkg_dir"]), timeout=900)
    os.remove(dst)
    return rc, out


def main():
    sd = os.path.abspath(sys.argv[1])
    meta = json.load(open(os.path.join(sd, "meta.json")))
    prop = meta["property"]
    tier = "quick"
    if "--tier" in sys.argv:
        tier = sys.argv[sys.argv.index("--tier") + 1]
    wt = "/var/tmp/sc-%s-%d" % (os.path.basename(sd), os.getpid())
    res = {"seed": os.path.basename(sd), "property": prop}
    rc, out = sh(["git", "-C", "/repo", "worktree", "add", "-q", "--detach", wt, "HEAD"])
    if rc != 0:
        print(out)
        return 2
    try:
        if meta.get("modfile") == "goctl":
            MODARGS[:] = ["-modfile", goctl_modfile(wt)]
        only = "--check-only" in sys.argv     # re-run the check alone (demo / tests were confirmed at intake)
        demo = None if only else meta.get("demo")
        if demo:
            rc, out = run_demo(wt, sd, demo)
            res["demo_without_patch"] = "pass" if rc == 0 else "FAIL"
            if rc != 0:
                res["demo_without_patch_out"] = out[-1500:]
        rc, out = sh(["git", "apply", os.path.join(sd, "patch.diff")], cwd=wt)
        res["patch_applies"] = rc == 0
        if rc != 0:
            res["apply_out"] = out[-1000:]
            print(json.dumps(res, indent=1))
            return 1
        bdir = os.path.join(wt, meta.get("module_dir", "."))
        rc, out = sh(["go", "build"] + MODARGS + (meta.get("test_pkgs") if MODARGS else ["./..."]), cwd=bdir)
        res["builds"] = rc == 0
        if rc != 0:
            res["build_out"] = out[-1500:]
        pk = [] if only else (meta.get("test_pkgs") or [])
        if pk:
            rc, out = sh(["go", "test"] + MODARGS + ["-vet=off", "-count=1"] + pk, cwd=bdir, timeout=2400)
            if rc != 0:
                # tests that bind fixed ports (TestRedisMetric / TestSqlxMetric: devserver :6060) or sleep
                # fail when several agents share the machine: re-run the failing packages once, alone
                bad = sorted(set(l.split()[1] for l in out.split("\n") if l.startswith("FAIL\t") and len(l.split()) > 1))
                if bad:
                    time.sleep(3)
                    rc2, out2 = sh(["go", "test"] + MODARGS + ["-vet=off", "-count=1", "-p", "1"] + bad, cwd=bdir, timeout=2400)
                    if rc2 == 0:
                        rc = 0
                        res["existing_tests_retry"] = "failed once under load (%s), passed when re-run alone" % ", ".join(b.split("/")[-1] for b in bad)
                    else:
                        out = out2
            res["existing_tests"] = "pass" if rc == 0 else "FAIL"
            if rc != 0:
                res["existing_tests_out"] = "\n".join(l for l in out.split("\n") if not l.startswith("ok"))[-2500:]
        if demo:
            rc, out = run_demo(wt, sd, demo)
            res["demo_with_patch"] = "fail" if rc != 0 else "PASSES (not a demonstration)"
        if "--no-check" not in sys.argv:
            t0 = time.time()
            rc, out = sh(["./check", prop, "--tier", tier], cwd=ROOT, env={"VERIF_REPO": wt}, timeout=3600)
            res["check_rc"] = rc
            res["check_s"] = round(time.time() - t0, 1)
            res["check_lines"] = [l for l in out.split("\n") if l.startswith(("VIOLATION", "KNOWN-FINDING"))][:6]
            res["detected"] = rc == 1 and any(l.startswith("VIOLATION") for l in res["check_lines"])
            if not res["detected"]:
                res["check_tail"] = out[-1500:]
    finally:
        sh(["git", "-C", "/repo", "worktree", "remove", "--force", wt])
        shutil.rmtree(wt, ignore_errors=True)
        for ext in (".goctl.mod", ".goctl.sum"):
            try:
                os.remove(wt.rstrip("/") + ext)
            except OSError:
                pass
    print(json.dumps(res, indent=1))
    if "--write" in sys.argv:
        if "--check-only" in sys.argv and isinstance(meta.get("confirmed"), dict):
            old = dict(meta["confirmed"])
            old.pop("check_tail", None)
            old.update(res)
            res = old
        meta["confirmed"] = res
        with open(os.path.join(sd, "meta.json"), "w") as f:
            json.dump(meta, f, indent=1)
    return 0


if __name__ == "__main__":
    sys.exit(main())
