import importlib
import os
import sys

sys.path.insert(0, os.path.dirname(os.path.abspath(__file__)))
import runner  # noqa: E402


def main():
    if len(sys.argv) < 2:
        print("usage: check CNN [--tier quick|thorough] [--replay file]")
        return 2
    pid = sys.argv[1].upper()
    mod = importlib.import_module("props." + pid.lower())
    return runner.main(mod.PROPERTY, sys.argv[2:])


if __name__ == "__main__":
    sys.exit(main())
