"""C10 helper (a measuring instrument, not part of the check): evaluate ONLY the fixed corpus of tools/props/c10.py against the
tree in $VERIF_REPO, with the compiled Check.vo of /verif (no regen, no build of the Coq side).  Shows whether a seeded change
is detected by construction (by the deterministic corpus, independent of VERIF_SEED).

usage: VERIF_REPO=/var/tmp/wt python3 tools/c10corpus.py        -> prints the corpus cases with prop_ok = false / agrees = false
       python3 tools/c10corpus.py --seeds C10-1 C10-2 ...          -> worktree + patch per seed, one line per seed
"""
import json
import os
import subprocess
import sys

ROOT = os.path.dirname(os.path.dirname(os.path.abspath(__file__)))


def one():
    sys.path.insert(0, os.path.join(ROOT, "tools"))
    sys.path.insert(0, os.path.join(ROOT, "tools", "props"))
    import runner
    import c10
    P = c10.PROPERTY
    P._defaults()
    ctx = runner.Ctx(P, "quick", 1)
    P.consts = {"defaultWorkers": 16, "minWorkers": 1}
    P.void_nooutput = True
    ok, log = P.prepare(ctx)
    if not ok:
        print("executor does not build: " + log[-800:])
        return 2
    cases = P.corpus()
    for i, c in enumerate(cases):
        c["id"] = i
    rs = runner.evaluate(P, ctx, cases)
    bad = [r for r in rs if not r["prop_ok"]]
    dis = [r for r in rs if r["prop_ok"] and not r["agrees"]]
    print("corpus %d cases: prop_ok=false %d, only agrees=false %d" % (len(rs), len(bad), len(dis)))
    for r in (bad + dis)[:6]:
        print("  %s %s -> %s" % ("FAIL" if not r["prop_ok"] else "DISAGREE",
                                 json.dumps({k: v for k, v in r["case"].items() if k not in ("id",)})[:300],
                                 json.dumps(r["obs"].get("aobs") or r["obs"].get("result"))[:120]))
    return 1 if bad else 0


def seeds(ids):
    env = dict(os.environ, GOFLAGS="-mod=mod", GOPROXY="off", GOSUMDB="off", GOTOOLCHAIN="local")
    for sid in ids:
        wt = "/var/tmp/wt-c10corpus-%s" % sid
        subprocess.run(["git", "-C", "/repo", "worktree", "remove", "--force", wt], capture_output=True)
        subprocess.run(["git", "-C", "/repo", "worktree", "add", "-q", "--detach", wt, "HEAD"], check=True)
        try:
            subprocess.run(["git", "-C", wt, "apply", os.path.join(ROOT, "seeded", sid, "patch.diff")], check=True)
            p = subprocess.run([sys.executable, os.path.abspath(__file__)], env=dict(env, VERIF_REPO=wt), capture_output=True, text=True)
            lines = [l for l in p.stdout.split("\n") if l.strip() and not l.startswith("WARNING")]
            print("%s rc=%d %s" % (sid, p.returncode, lines[0] if lines else p.stderr[-300:]), flush=True)
            for l in lines[1:3]:
                print("   " + l[:260], flush=True)
        finally:
            subprocess.run(["git", "-C", "/repo", "worktree", "remove", "--force", wt], capture_output=True)


if __name__ == "__main__":
    if "--seeds" in sys.argv:
        seeds(sys.argv[sys.argv.index("--seeds") + 1:])
    else:
        sys.exit(one())
