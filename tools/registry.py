# properties that have a check (tools/props/<id>.py); MANIFEST.json is generated from these
PROPS = ["C01", "C02", "C03", "C04", "C05", "C06", "C07", "C08", "C09", "C10", "C11", "C12", "C13", "C14", "C15", "C16", "C17", "C18", "C19", "C20"]

# properties not claimed (id -> one-line reason); kept in MANIFEST.json's not_applicable
NOT_CLAIMED = {}
