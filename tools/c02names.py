"""C02: today's unexported identifiers of core/load for the white-box overlays.

The overlay tests (harness/overlay/load/verif_c02*_test.go, and the two reflect look-ups of the wrapper executors) are
written against the names adaptiveshedder.go uses today.  A harmless rename (a field, a method, the package flag behind
load.Disable()) must not end in "executor does not build": before every run the ROLES are located again in the non-test
sources of the package by text search, first by the usual name, then by what the identifier is used for, and - only when
something moved - the overlay sources are copied under .run/ with the identifiers substituted.

role            usual name               found otherwise by
stype           adaptiveShedder          the struct that holds *collection.RollingWindow fields
flying          flying                   the field passed to atomic.AddInt64(&x.F, ...)
avgFlying       avgFlying                the float64 field updated from itself (x.F = x.F*... )
windowScale     windowScale              the field initialised with float64(time.Second) / ...
avgFlyingLock   avgFlyingLock            the field of type syncx.SpinLock
maxPass         maxPass                  method () int64 of stype that calls Reduce
minRt           minRt                    method () float64 of stype that calls Reduce
maxFlight       maxFlight                method () float64 of stype that calls the two above
checker         systemOverloadChecker    package variable = func(<name> int64) bool
reenable        enabled.Set(true)        the body of Disable() with its boolean literal flipped
flyingBeta      flyingBeta               tools/c02consts (Go name of the located constant, or the literal)
"""
import glob
import os
import re

import vlib

DEFAULT = {"stype": "adaptiveShedder", "flying": "flying", "avgFlying": "avgFlying", "windowScale": "windowScale",
           "avgFlyingLock": "avgFlyingLock", "maxPass": "maxPass", "minRt": "minRt", "maxFlight": "maxFlight",
           "checker": "systemOverloadChecker", "reenable": "enabled.Set(true)", "flyingBeta": "flyingBeta"}


def _sources(repo):
    text = []
    for fn in sorted(glob.glob(os.path.join(repo, "core/load", "*.go"))):
        if not fn.endswith("_test.go"):
            text.append(open(fn).read())
    return "\n".join(text)


def _struct_bodies(src):
    """{type name: {field: type text}} for `name struct { ... }` declarations (type (...) groups included)"""
    out = {}
    for m in re.finditer(r"(?m)^\s*(?:type\s+)?(\w+)\s+struct\s*\{\n(.*?)^\s*\}", src, re.S):
        fields = {}
        for line in m.group(2).split("\n"):
            line = line.split("//")[0].strip()
            p = line.split(None, 1)
            if len(p) == 2 and re.fullmatch(r"\w+", p[0]):
                fields[p[0]] = p[1].strip()
        out[m.group(1)] = fields
    return out


def _methods(src, stype):
    """{method name: (result type text, body)} for methods with no parameters on *stype"""
    out = {}
    for m in re.finditer(r"(?m)^func \(\w+ \*%s\) (\w+)\(\)\s*([\w.\[\]*]*)\s*\{\n(.*?)^\}" % re.escape(stype), src, re.S):
        out[m.group(1)] = (m.group(2), m.group(3))
    return out


def resolve(repo=None):
    """-> (names, missing roles, notes)"""
    src = _sources(repo or vlib.REPO)
    names, missing, notes = dict(DEFAULT), [], []

    def put(role, value, how):
        if value is None:
            missing.append(role)
        elif value != DEFAULT[role]:
            names[role] = value
            notes.append("%s: %s (%s)" % (role, value, how))

    structs = _struct_bodies(src)
    stype = DEFAULT["stype"] if DEFAULT["stype"] in structs else next(
        (n for n, f in structs.items() if sum("RollingWindow" in t for t in f.values()) >= 2), None)
    put("stype", stype, "the struct with the two rolling windows")
    fields = structs.get(stype, {})

    def field(role, pred, how):
        if DEFAULT[role] in fields:
            return
        put(role, next((f for f, t in fields.items() if pred(f, t)), None), how)
    field("flying", lambda f, t: t == "int64" and re.search(r"atomic\.AddInt64\(&\w+\.%s\b" % f, src),
          "the int64 field given to atomic.AddInt64")
    field("avgFlying", lambda f, t: t == "float64" and re.search(r"\.%s\s*=\s*\w+\.%s\s*\*" % (f, f), src),
          "the float64 field updated from itself")
    field("windowScale", lambda f, t: t == "float64" and re.search(r"\b%s:\s*float64\(time\.Second\)" % f, src),
          "the field initialised with float64(time.Second)/...")
    field("avgFlyingLock", lambda f, t: t.endswith("SpinLock"), "the SpinLock field")

    meths = _methods(src, stype) if stype else {}

    def method(role, pred, how):
        if DEFAULT[role] in meths:
            return
        put(role, next((n for n, (rt, body) in meths.items() if pred(n, rt, body)), None), how)
    method("maxPass", lambda n, rt, b: rt == "int64" and ".Reduce(" in b, "the () int64 method that reduces a window")
    method("minRt", lambda n, rt, b: rt == "float64" and ".Reduce(" in b, "the () float64 method that reduces a window")
    mp, mr = names["maxPass"], names["minRt"]
    method("maxFlight", lambda n, rt, b: rt == "float64" and ".%s()" % mp in b and ".%s()" % mr in b,
           "the () float64 method that calls %s and %s" % (mp, mr))

    if not re.search(r"\b%s\s*=\s*func\(" % DEFAULT["checker"], src):
        m = re.search(r"(?m)^\s*(?:var\s+)?(\w+)\s*=\s*func\(\w+ int64\) bool\s*\{", src)
        put("checker", m.group(1) if m else None, "the package variable of type func(int64) bool")

    if not re.search(r"\benabled\s*=\s*syncx\.ForAtomicBool\(", src) or not re.search(r"func Disable\(\) \{\s*enabled\.Set\(false\)\s*\}", src):
        m = re.search(r"func Disable\(\) \{\n\s*([^\n]+)\n\}", src)
        stmt = None
        if m and re.search(r"\b(true|false)\b", m.group(1)):
            stmt = re.sub(r"\b(true|false)\b", lambda x: "true" if x.group(1) == "false" else "false", m.group(1).strip())
        put("reenable", stmt, "the statement of Disable() with its boolean flipped")

    if not re.search(r"\b%s\b" % DEFAULT["flyingBeta"], src):
        beta = "0.9"
        try:
            gen = open(os.path.join(vlib.COQ, "gen", "C02Consts.v")).read()
            m = re.search(r"Definition flyingBeta : Q := \((\d+) # (\d+)\)\.(?:\s*\(\* Go name: (\w+) \*\))?", gen)
            if m:
                beta = m.group(3) or "(%s.0 / %s.0)" % (m.group(1), m.group(2))
        except OSError:
            pass
        put("flyingBeta", beta, "from coq/gen/C02Consts.v")
    return names, missing, notes


def substitute(text, names):
    n = names
    if n["reenable"] != DEFAULT["reenable"]:
        text = re.sub(r"\benabled\.Set\(true\)", lambda m: n["reenable"], text)
    for role in ("flying", "avgFlying", "windowScale", "avgFlyingLock"):
        if n[role] != DEFAULT[role]:
            text = re.sub(r"\.%s\b" % DEFAULT[role], "." + n[role], text)
            text = text.replace('FieldByName("%s")' % DEFAULT[role], 'FieldByName("%s")' % n[role])
    for role in ("maxPass", "minRt", "maxFlight"):
        if n[role] != DEFAULT[role]:
            text = re.sub(r"\.%s\(\)" % DEFAULT[role], ".%s()" % n[role], text)
    for role in ("stype", "checker", "flyingBeta"):
        if n[role] != DEFAULT[role]:
            text = re.sub(r"\b%s\b" % DEFAULT[role], lambda m: n[role], text)
    return text


def materialize(overlay, names):
    """overlay map {repo path: source path} -> the same with the *_test.go sources replaced by substituted copies
    (only when an identifier differs from the usual one)"""
    if names == DEFAULT:
        return overlay
    d = os.path.join(vlib.ROOT, ".run", "c02gen-%d" % os.getpid())
    out = {}
    for rel, srcp in overlay.items():
        if not rel.endswith("_test.go"):
            out[rel] = srcp
            continue
        text = substitute(open(srcp).read(), names)
        dst = os.path.join(d, rel.replace("/", "__"))
        os.makedirs(d, exist_ok=True)
        with open(dst, "w") as f:
            f.write(text)
        out[rel] = dst
    return out
