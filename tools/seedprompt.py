"""Print the prompt for a seeded-mutation sub-agent and create its scratch worktree.
usage: python3 tools/seedprompt.py C14 1 ["extra focus sentence"]"""
import json, os, subprocess, sys
pid, n = sys.argv[1], sys.argv[2]
focus = sys.argv[3] if len(sys.argv) > 3 else ""
for l in open(os.path.join(os.path.dirname(__file__), "..", "properties.jsonl")):
    p = json.loads(l)
    if p["id"] == pid:
        break
wt = "/var/tmp/seed/%s-%s" % (pid.lower(), n)
out = wt + "-out"
os.makedirs("/var/tmp/seed", exist_ok=True)
if not os.path.exists(wt):
    subprocess.check_call(["git", "-C", "/repo", "worktree", "add", "-q", "--detach", wt, "HEAD"])
os.makedirs(out, exist_ok=True)
files = ", ".join(p["anchors"]["files"])
text = (f"""You are given a scratch git worktree of the Go project zeromicro/go-zero at {wt} (a full checkout; Go 1.23.5; the machine is OFFLINE: in every shell first run `export GOFLAGS=-mod=mod GOPROXY=off GOSUMDB=off GOTOOLCHAIN=local`). Work ONLY inside {wt} and {out}. Do NOT read, list or write anything under /verif or /repo.

A semantic property that go-zero is supposed to satisfy:

"{p['title']}. {p['statement']}" (Quantifier: {p['quantifier']['text']}. Code it is anchored in: {files}.)

YOUR TASK: act as a source of realistic regressions. Produce ONE change to the go-zero non-test source in your worktree that BREAKS this property while (1) still compiling (`go build ./...` in the module root of the code you touch) and (2) passing the project's existing tests for the packages you touch and their obvious dependents (do not edit or delete any existing test). The change should look like a plausible refactoring/optimisation/bug-fix gone wrong — not sabotage that ordinary use would expose at once: it must need something specific to manifest (a particular interleaving, a crash or fault at a particular point, a multi-step sequence of operations, an unusual input, or two cooperating sites that each look fine alone). {focus}

DELIVER in {out}/:
- patch.diff — `git diff` of your change (source only; it must apply to a clean checkout with `git apply`);
- a demonstration: a Go test file (e.g. demo_test.go, with a first-line comment saying in which package directory it must be placed and the -run pattern) or a small program, which FAILS with your change and PASSES without it (deterministically, or at least reliably within a few seconds);
- meta.json — {{"property":"{pid}","summary":"what the change does","needs":"what specific interleaving/fault/sequence/input is needed for it to manifest","demo":{{"file":"demo_test.go","pkg_dir":"<dir relative to repo root>","run":"<TestName>"}},"test_pkgs":["./pkg/...", "..."],"tests_run":"commands you ran and their results, with and without the patch"}}.
Verify everything yourself: with patch → build ok, existing tests of test_pkgs pass, demo fails; without patch (save `git diff > {out}/patch.tmp`, then `git apply -R {out}/patch.tmp`, test, then `git apply {out}/patch.tmp` again — NEVER use `git stash`, the stash is shared with other checkouts of this repository) → demo passes. Leave the worktree with the patch applied and the demo removed. Final message: a 5-line summary.""")
open(os.path.join(out, "PROMPT.txt"), "w").write(text)
print(os.path.join(out, "PROMPT.txt"))
