"""C06 helper: is every seeded change of C06 detected BY CONSTRUCTION, i.e. by the fixed corpus and the
deterministic monitors alone (no generated case, so whatever VERIF_SEED is)?

  python3 tools/c06seeds.py corpus            corpus-only check (P.quick_cases = $C06_N or 0) of $VERIF_REPO
  python3 tools/c06seeds.py seeds [ids...]    for each seeded/C06-* (or the ids given): scratch worktree under /var/tmp,
                                              patch applied, corpus-only check against it; prints one line per seed
  python3 tools/c06seeds.py base              corpus-only check of an unpatched scratch worktree (must exit 0)

Never touches /repo nor evidence/ (runs against a worktree write their evidence under .run/)."""
import glob
import os
import subprocess
import sys

ROOT = os.path.dirname(os.path.dirname(os.path.abspath(__file__)))


def corpus_only():
    sys.path.insert(0, os.path.join(ROOT, "tools"))
    import runner
    from props import c06
    P = c06.PROPERTY
    P.quick_cases = int(os.environ.get("C06_N", "0") or "0")
    if os.environ.get("C06_NOEXTRA") == "1":
        P.extra = lambda ctx: []
    return runner.run_check(P, "quick", int(os.environ.get("VERIF_SEED", "1") or "1"))


def sh(cmd, **kw):
    p = subprocess.run(cmd, stdout=subprocess.PIPE, stderr=subprocess.STDOUT, text=True, errors="replace", **kw)
    return p.returncode, p.stdout


def against(wt, patch):
    sh(["git", "-C", "/repo", "worktree", "remove", "--force", wt])
    rc, out = sh(["git", "-C", "/repo", "worktree", "add", "-q", "--detach", wt, "HEAD"])
    if rc != 0:
        return 2, out
    try:
        if patch:
            rc, out = sh(["git", "apply", patch], cwd=wt)
            if rc != 0:
                return 2, "patch does not apply: " + out
        env = dict(os.environ, VERIF_REPO=wt)
        return sh([sys.executable, os.path.abspath(__file__), "corpus"], cwd=ROOT, env=env, timeout=3600)
    finally:
        sh(["git", "-C", "/repo", "worktree", "remove", "--force", wt])


def main():
    mode = sys.argv[1] if len(sys.argv) > 1 else "seeds"
    if mode == "corpus":
        return corpus_only()
    if mode == "base":
        rc, out = against("/var/tmp/wt-c06-base-%d" % os.getpid(), None)
        print(out[-3000:])
        print("base rc=%d" % rc)
        return rc
    ids = sys.argv[2:] or sorted((os.path.basename(d) for d in glob.glob(os.path.join(ROOT, "seeded", "C06-*"))),
                                 key=lambda x: int(x.split("-")[1]))
    bad = 0
    for sid in ids:
        rc, out = against("/var/tmp/wt-c06-%s-%d" % (sid, os.getpid()), os.path.join(ROOT, "seeded", sid, "patch.diff"))
        lines = [l for l in out.split("\n") if l.startswith("VIOLATION")]
        print("%s rc=%d %s" % (sid, rc, "DETECTED " + lines[0] if rc == 1 and lines else "MISSED\n" + out[-1500:]), flush=True)
        bad += 0 if (rc == 1 and lines) else 1
    return 1 if bad else 0


if __name__ == "__main__":
    sys.exit(main())
