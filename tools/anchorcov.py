"""Which anchored go-zero code does a property's correspondence run actually execute?

usage: python3 tools/anchorcov.py Cnn [--tier quick|thorough] [--keep]

Runs `./check Cnn` with VERIF_COVER set (tools/vlib.py then builds the executors with Go's
coverage instrumentation of every go-zero package), merges the counters of all executor runs and
reports, for every file listed in the property's anchors (properties.jsonl), the statement coverage
per function and the line ranges never executed.  The report is written to coverage/Cnn.txt.
This is a measurement of the tie between model and code (what the differential run reaches), not
a check: it never alarms.  evidence/Cnn.json is restored afterwards.
"""
import json
import os
import re
import shutil
import subprocess
import sys

ROOT = os.path.dirname(os.path.dirname(os.path.abspath(__file__)))
REPO = os.environ.get("VERIF_REPO", "/repo")
MOD = "github.com/zeromicro/go-zero/"


def sh(cmd, cwd=None, env=None, timeout=3600):
    e = dict(os.environ)
    e.update({"GOFLAGS": "-mod=mod", "GOPROXY": "off", "GOSUMDB": "off", "GOTOOLCHAIN": "local"})
    if env:
        e.update(env)
    p = subprocess.run(cmd, cwd=cwd, env=e, timeout=timeout, stdout=subprocess.PIPE,
                       stderr=subprocess.STDOUT, text=True, errors="replace")
    return p.returncode, p.stdout


def anchors(pid):
    for line in open(os.path.join(ROOT, "properties.jsonl")):
        d = json.loads(line)
        if d["id"] == pid:
            return d["anchors"].get("files", [])
    raise SystemExit("unknown property " + pid)


def merge_profiles(paths):
    blocks = {}
    for p in paths:
        for line in open(p):
            line = line.strip()
            if not line or line.startswith("mode:"):
                continue
            m = re.match(r"(.+):(\d+)\.(\d+),(\d+)\.(\d+) (\d+) (\d+)$", line)
            if not m:
                continue
            key = (m.group(1), int(m.group(2)), int(m.group(3)), int(m.group(4)), int(m.group(5)), int(m.group(6)))
            blocks[key] = max(blocks.get(key, 0), int(m.group(7)))
    return blocks


def func_ranges(path):
    """[(name, startline, endline)] of top-level funcs of a Go file (by brace matching on column 0)."""
    res = []
    lines = open(path, errors="replace").read().split("\n")
    i = 0
    while i < len(lines):
        m = re.match(r"func\s+(\([^)]*\)\s*)?([A-Za-z_][A-Za-z0-9_]*)", lines[i])
        if m:
            recv = ""
            if m.group(1):
                r = re.search(r"\*?\s*([A-Za-z_][A-Za-z0-9_]*)(\[[^\]]*\])?\s*\)", m.group(1))
                recv = (r.group(1) + ".") if r else ""
            j = i
            while j < len(lines) and not lines[j].startswith("}"):
                if j > i and re.match(r"func\s", lines[j]):
                    j -= 1
                    break
                j += 1
            res.append((recv + m.group(2), i + 1, min(j + 1, len(lines))))
            i = j + 1
        else:
            i += 1
    return res


def main():
    pid = sys.argv[1]
    tier = "quick"
    if "--tier" in sys.argv:
        tier = sys.argv[sys.argv.index("--tier") + 1]
    cov = "/var/tmp/cov-%s-%d" % (pid, os.getpid())
    shutil.rmtree(cov, ignore_errors=True)
    os.makedirs(cov)
    evp = os.path.join(ROOT, "evidence", pid + ".json")
    bak = open(evp).read() if os.path.exists(evp) else None
    # a scratch worktree of the tree under test: the overlay files are copied into it (go's cover
    # tool cannot see -overlay files), /repo itself is never written
    wt = "/var/tmp/covwt-%s-%d" % (pid, os.getpid())
    sh(["git", "-C", REPO, "worktree", "add", "--detach", "-f", wt, "HEAD"])
    try:
        rc, out = sh(["./check", pid, "--tier", tier], cwd=ROOT, env={"VERIF_COVER": cov, "VERIF_REPO": wt})
    finally:
        sh(["git", "-C", REPO, "worktree", "remove", "--force", wt])
        if bak is not None:
            with open(evp, "w") as f:
                f.write(bak)
    profs = [os.path.join(cov, f) for f in os.listdir(cov) if f.endswith(".out")]
    bind = os.path.join(cov, "bin")
    if os.path.isdir(bind) and os.listdir(bind):
        rc2, o2 = sh(["go", "tool", "covdata", "textfmt", "-i=" + bind, "-o", os.path.join(cov, "bin.out")], cwd=REPO)  # noqa
        if rc2 == 0:
            profs.append(os.path.join(cov, "bin.out"))
        else:
            print("covdata failed:", o2[-500:])
    blocks = merge_profiles(profs)
    rep = ["# %s: go-zero code executed by `./check %s --tier %s` (exit %d), anchors of properties.jsonl"
           % (pid, pid, tier, rc),
           "# %d coverage profiles merged; statements counted by Go's cover tool" % len(profs), ""]
    tot_s = tot_c = 0
    for rel in anchors(pid):
        path = os.path.join(REPO, rel)
        if not os.path.exists(path):
            rep.append("%s: (no such file)" % rel)
            continue
        if not rel.endswith(".go"):
            rep.append("%s: (not Go: tied by the translator, see notes)" % rel)
            continue
        fb = [(k, c) for k, c in blocks.items() if k[0] == MOD + rel]
        if not fb:
            rep.append("%s: NOT INSTRUMENTED / never loaded by an executor" % rel)
            continue
        s = sum(k[5] for k, _ in fb)
        c = sum(k[5] for k, cnt in fb if cnt > 0)
        tot_s += s
        tot_c += c
        rep.append("%s: %d/%d statements (%.0f%%)" % (rel, c, s, 100.0 * c / max(s, 1)))
        for name, a, b in func_ranges(path):
            inb = [(k, cnt) for k, cnt in fb if a <= k[1] <= b]
            if not inb:
                continue
            fs = sum(k[5] for k, _ in inb)
            fc = sum(k[5] for k, cnt in inb if cnt > 0)
            if fc == fs:
                continue
            miss = sorted((k[1], k[3]) for k, cnt in inb if cnt == 0 and k[5] > 0)
            rng = ", ".join("%d-%d" % (x, y) if x != y else "%d" % x for x, y in miss[:12])
            rep.append("    %-40s %3d/%-3d  unexecuted lines: %s%s" % (name, fc, fs, rng, " ..." if len(miss) > 12 else ""))
    rep.append("")
    rep.append("TOTAL anchored Go statements executed: %d/%d (%.0f%%)" % (tot_c, tot_s, 100.0 * tot_c / max(tot_s, 1)))
    os.makedirs(os.path.join(ROOT, "coverage"), exist_ok=True)
    with open(os.path.join(ROOT, "coverage", pid + ".txt"), "w") as f:
        f.write("\n".join(rep) + "\n")
    print("\n".join(rep))
    if "--keep" not in sys.argv:
        shutil.rmtree(cov, ignore_errors=True)
    return 0


if __name__ == "__main__":
    sys.exit(main())
