"""C01: run ONLY the fixed corpus of tools/props/c01.py (no generated case, independent of VERIF_SEED) against a tree
and list the corpus cases on which agrees / prop_ok fail.  A helper for builders (which corpus case catches a seeded
change by construction?), not a check: `VERIF_REPO=/var/tmp/wt python3 tools/c01corpus.py` (needs Check.vo built)."""
import os
import sys
import time

sys.path.insert(0, os.path.dirname(os.path.abspath(__file__)))
import vlib                     # noqa: E402
from props import c01           # noqa: E402


def kind(c):
    return c.get("w") or ("multi" if c.get("insts") else "conc" if c.get("conc") else "seq")


def main():
    P = c01.PROPERTY
    P._defaults()
    P.consts = c01.extract_constants(vlib.REPO)
    cs = list(P.corpus())
    t = time.time()
    obs = P._execute_once(cs)
    terms = [P._render(c, o) for c, o in zip(cs, obs)]
    rs = c01._coq_eval_cases("C01", "C01.Check", terms, shard=2)
    print("tree %s: %d corpus cases, %.1f s" % (vlib.REPO, len(cs), time.time() - t))
    bad = [(i, kind(cs[i]), "agrees=%s prop_ok=%s" % tuple(r)) for i, r in enumerate(rs) if tuple(r) != (True, True)]
    for b in bad:
        print("FAILS", *b)
    return 1 if bad else 0


if __name__ == "__main__":
    sys.exit(main())
