import importlib
import os
import sys

sys.path.insert(0, os.path.dirname(os.path.abspath(__file__)))
import vlib  # noqa: E402
import registry  # noqa: E402
import runner  # noqa: E402


def main():
    scan = []
    for pid in registry.PROPS:
        P = importlib.import_module("props." + pid.lower()).PROPERTY
        P._defaults()
        for t in P.model_targets + P.proof_targets:
            vlib.coq_deps(t[:-3] + ".v", scan)
    hits = vlib.forbidden_scan(scan)
    if hits:
        print("forbidden vernacular:", hits[:10])
        return 1
    rc = 0
    for pid in registry.PROPS:
        P = importlib.import_module("props." + pid.lower()).PROPERTY
        try:
            P._defaults()
            P.regen(runner.Ctx(pid, 'quick', 1))
        except Exception as e:  # noqa
            print("regen %s: %s" % (pid, e))
    targets = []
    for pid in registry.PROPS:
        P = importlib.import_module("props." + pid.lower()).PROPERTY
        P._defaults()
        for t in P.model_targets + P.proof_targets:
            if t not in targets:
                targets.append(t)
    ok, out = vlib.coq_build(targets, timeout=3000)
    print(out[-3000:])
    if not ok:
        rc = 1
    for pid in registry.PROPS:
        P = importlib.import_module("props." + pid.lower()).PROPERTY
        P._defaults()
        try:
            okx, logx = P.prepare(runner.Ctx(pid, 'quick', 1))
            if not okx:
                print("prepare %s failed: %s" % (pid, logx[-800:]))
                rc = 1
        except Exception as e:  # noqa
            print("prepare %s: %s" % (pid, e))
            rc = 1
    return rc


if __name__ == "__main__":
    sys.exit(main())
