"""C20 translator: the lexical tables the C20 models depend on -> coq/gen/C20Consts.v.

Regenerated on every run from the tree under test -- not by reading the source text (a regular
expression over token.go breaks when a declaration is merely moved, reordered or re-spelt) but by
asking the COMPILED packages through their public API (executor `c20 -tables`):

  * token.go: every token type that has a name (Type.String()), the keyword table (LookupKeyword on
    every name and on a vocabulary of words), token.HttpMethods and IsHttpMethod, the keyword texts
    (token.Syntax ... token.ImportKeyword);
  * scanner.go: what the scanner does with ENUMERATED tiny inputs -- every 1-character text, "a<c>b" for
    every ASCII character c and some others (white space, line counting), every 2-character text over an alphabet with one
    representative of every lexical class, every 3-character text over a smaller one, and a list
    of words (durations, "interface{}", @-keywords, comments, strings, dots, unicode, NUL).

coq/theories/C20/GenProofs.v proves that Model.v / Scanner.v agree with today's tables: the model
scanner returns the same tokens (kind, text, line bit), comments and error flag on every probe, the
model parser's keyword / HTTP method tables are the tree's.  A changed keyword, method, token text,
operator, white-space character or scanner rule breaks an obligation instead of passing silently."""
import os

import vlib
import c20lib

# one representative of every lexical class of scanner.go.  scanner.go reads RUNES (invalid UTF-8
# becomes U+FFFD before the scanner sees it); the model reads bytes: the probes are valid UTF-8 texts
UNI = ["µ", "é", "日", "\ufeff", "\u00a0", "\u2028", "\ufffd"]
A2 = list("azAZ_nmshu09-*/=([{,.)}];:\"`@ \t\n\r\f\v#\\'\x00\x7f") + ["µ", "é", "日"]
A3 = list("a1sm./*\"@\n {") + ["µ"]

WORDS = ["type", "service", "info", "get", "returns", "import", "syntax", "group", "prefix", "jwt", "middleware", "timeout",
         "maxBytes", "api", "map", "any", "interface", "post", "handler", "doc", "server", "string", "struct", "func", "go", "T",
         "Get", "GET", "Type", "gets", "geT", "int", "bool", "error", "nil", "true", "var", "vars", "", "package", "default"]

TEXTS = ["0", "007", "1", "18446744073709551616", "1s", "1ms", "1µs", "1ns", "1m", "1h", "1h30m", "1h30m5s", "1m5s10ms3µs7ns",
         "1h2m3s4ms5µs6ns", "1s1s", "1.5s", "-1", "1_000", "0x10", "1e3", "1ss", "1sm", "3sx", "5ns3", "2h1ms", "1h2h", "1m2h", "1s2m",
         "1ms2µ", "1µ", "1µs5ns", "1µs5", "1n", "1ns2s", "1m2", "1h2", "1s2", "1ms2", "1d", "1us", "1 s", "12ab", "1a",
         "1s2ns", "1s2µs", "1s2ms", "1s2ms3", "1s2mx", "1s2m", "1m2ns", "1m2µs", "1m2ms", "1m2mx", "1m2x", "1m2s3ms", "1h2ns", "1h2µs",
         "1h2x", "1h2m3", "1h2ms", "1h2s", "1ms2ns", "1ms2µs", "1ms2x", "1µs2ns", "1µs2x", "1µs2n", "1ns ", "1nsx", "1h2m3s4ms5µs6nsx",
         "interface{}", "interface{", "interface {}", "interfaces{}", "interface{}x", "xinterface{}", "interface{ }",
         "@doc", "@handler", "@server", "@docs", "@ doc", "@1", "@", "@@", "@doc(", "@Doc", "@handler1", "a@doc", "@doc@doc",
         "/**/", "/***/", "/* a */", "/* a * b / c */", "/* a", "/*/", "/*", "/* * ", "/* a */ b", "/* a\nb */ c\nd", "// a\nb",
         "//", "// a", "a // b\n// c\nd /* e */ f", "/ /", "/*a*//*b*/", "a/*x*/b",
         "\"a\"", "\"a", "\"\"", "``", "`a\nb`", "`a", "\"a\nb\" c", "\"a\\\"", "\"a\\\" b\"", "`a\\`", "\"a`b\"", "`a\"b`", "\"//\"", "`/*`",
         "a.b", "a..b", "a...b", "....", ".....", "......", ". .", "..", "...",
         "a-b", "a_b1", "_", "__a", "A9z", "9a", "a9", "a b\nc\n\nd", "a\n\n\nb", "a\r\nb", "a\rb", "a\fb", "a\vb", "a\tb",
         "﻿a", "é", "日本", "aé", "a\x00b", "\"a\x00b\"", "/* a\x00 */", "// a\x00b", "`a\x00`", "\x00a", "a \x00", "µs", "1µ s",
         "get /a/:id (Req) returns ([]*Resp);", "type T {\n\tA map[string]int `json:\"a\"` // c\n}", "a b", "a b", "#", "a#b", "a$", "a?b",
         "'a'", "a\\b", "a|b", "a&b", "a<b>", "a+b", "a%b", "a^b", "a!b", "a~b"]


def probes():
    one = [chr(b) for b in range(128)] + UNI
    res = list(one)
    res += ["a" + c + "b" for c in one]
    res += [x + y for x in A2 for y in A2]
    res += [x + y + z for x in A3 for y in A3 for z in A3]
    res += TEXTS
    seen = set()
    out = []
    for t in res:
        k = t.encode("utf-8")
        if k and k not in seen:
            seen.add(k)
            out.append(list(k))
    return out


def extract():
    ok, binpath = c20lib.build()
    if not ok:
        raise RuntimeError("the executor does not build against the current tree: " + binpath[-600:])
    ps = probes()
    payload = [{"words": WORDS, "probes": [{"id": i, "bytes": p} for i, p in enumerate(ps)]}]
    rc, out, res = vlib.go_run(binpath, payload, tag="c20tab", timeout=600, args=["-tables"])
    if rc != 0 or len(res) != len(ps) + 1:
        raise RuntimeError("c20 -tables rc=%s (%d lines for %d probes): %s" % (rc, len(res), len(ps), out[-600:]))
    tab = res[0]
    outs = res[1:]
    for i, o in enumerate(outs):
        if o.get("id") != i:
            raise RuntimeError("c20 -tables: probe %d answered out of order" % i)
    return tab, ps, outs


def q(s):
    if any(ord(ch) < 32 or ord(ch) > 126 for ch in s):
        raise RuntimeError("table text %r cannot be written as a Gallina string" % s)
    return '"' + s.replace('"', '""') + '"'


def nats(bs):
    return "[" + ";".join(str(b) for b in bs) + "]"


def b(x):
    return "true" if x else "false"


def regen():
    tab, ps, outs = extract()
    lines = ["(* generated by tools/c20consts.py from the compiled token and scanner packages of the tree under test",
             "   (executor `c20 -tables`) -- do not edit *)",
             "From Coq Require Import List String.", "Import ListNotations.", "Open Scope string_scope.", "",
             "(* every token type with a name: Type.String() *)",
             "Definition gen_types : list string := [%s]." % "; ".join(q(n) for _, n in tab["types"]),
             "(* token.HttpMethods *)",
             "Definition gen_http_methods : list string := [%s]." % "; ".join(q(m) for m in tab["http"]),
             "(* word, LookupKeyword finds it, name of the type it finds, IsHttpMethod *)",
             "Definition gen_words : list (string * bool * string * bool) := [%s]." %
             "; ".join("(%s, %s, %s, %s)" % (q(w[0]), b(w[1]), q(w[2]), b(w[3])) for w in tab["words"])]
    for name in ("Syntax", "Info", "Service", "Returns", "Any", "TypeKeyword", "MapKeyword", "ImportKeyword"):
        lines.append("Definition gen_kw_%s : string := %s." % (name, q(tab["consts"][name])))
    lines.append("(* scanner.go on enumerated inputs: bytes of the input, no scanner error, tokens (kind name, bytes of the text,")
    lines.append("   starts on a later line than the token before), comments (number of tokens before it, bytes of the text) *)")
    lines.append("Definition gen_scan_probes : list (list nat * bool * list (string * list nat * bool) * list (nat * list nat)) := [")
    rows = []
    for p, o in zip(ps, outs):
        toks = "[" + ";".join("(%s,%s,%s)" % (q(t[0]), nats(t[1]), b(t[2])) for t in o["toks"]) + "]"
        cmts = "[" + ";".join("(%d,%s)" % (c[0], nats(c[1])) for c in o["cmts"]) + "]"
        rows.append("(%s,%s,%s,%s)" % (nats(p), b(o["ok"]), toks, cmts))
    lines.append(";\n".join(rows))
    lines.append("]%nat.")
    text = "\n".join(lines) + "\n"
    path = os.path.join(vlib.COQ, "gen", "C20Consts.v")
    if not os.path.exists(path) or open(path).read() != text:
        with open(path, "w") as f:
            f.write(text)
    nk = sum(1 for w in tab["words"] if w[1])
    nerr = sum(1 for o in outs if not o["ok"])
    nill = sum(1 for o in outs if o["toks"] and o["toks"][-1][0] == "ILLEGAL")
    return ["C20 lexical tables regenerated from the compiled packages: %d token types, %d keywords, %d HTTP methods, "
            "%d scanner probes (%d scanner errors, %d ILLEGAL tokens)"
            % (len(tab["types"]), nk, len(tab["http"]), len(ps), nerr, nill)]
