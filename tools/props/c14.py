"""C14 — SQL transactions end exactly once: commit iff the body succeeded."""
import os
import re
import vlib
from runner import Property, ExecError
from vlib import cz, clist, cbool

APIS = ["ctx", "plain", "cached", "cachedplain"]
METHS = ["exec", "query", "prep"]
METH = {"exec": "MExec", "query": "MQuery", "prep": "MPrep"}
ONFAIL = {"stop": "FStop", "ignore": "FIgnore", "panic": "FPanic"}
FIN = {"nil": "RNil", "panic": "RPanic", "goexit": "RGoexit"}


def fin_term(th):
    if th["fin"] == "err":
        return "(RErr %s)" % val_term(*split_val(th.get("finval")))
    return FIN[th["fin"]]

OUT = {"ok": "OOk", "fail": "OFail", "panic": "OPanic"}


VKIND = {"generic": "VGeneric", "badconn": "VBadConn", "txdone": "VTxDone", "conndone": "VConnDone", "norows": "VNoRows",
         "canceled": "VCanceled", "deadline": "VDeadline", "skip": "VSkip", "unavail": "VUnavail", "eof": "VEOF"}
VMODE = {"bare": "MBare", "wrap": "MWrap", "custom": "MCustom"}
SENTINELS = ["badconn", "txdone", "conndone", "norows", "canceled", "deadline", "skip", "unavail", "eof"]
MODES = ["bare", "wrap", "custom"]


def val_term(kind, mode="bare"):
    if kind not in VKIND or kind == "generic":
        kind, mode = "generic", "bare"
    return "(mkVal %s %s)" % (VKIND[kind], VMODE.get(mode, "MBare"))


def split_val(s):
    parts = (s or "").split(":")
    kind = parts[0] if parts[0] in VKIND else "generic"
    mode = parts[1] if len(parts) > 1 and parts[1] in VMODE else "bare"
    return kind, mode


def reply_term(o):
    head, _, val = o.partition(":")
    if split_val(val)[0] == "generic":
        return "rp %s %s" % (OUT[head.replace("+c", "")], cbool(head.endswith("+c")))
    return "mkReply %s %s %s" % (OUT[head.replace("+c", "")], cbool(head.endswith("+c")), val_term(*split_val(val)))

KIND = {"exec": "KExec", "query": "KQuery", "prepare": "KPrepare", "stmtexec": "KStmtExec"}
# values a body panics with: a string, an error, nil (*runtime.PanicNilError), a custom struct, an error whose Error method
# panics, and runtime.Errors produced for real: nil-map write, index out of range, nil pointer dereference, failed type
# assertion, integer division by zero, call of a nil func
PANICVALS = ["string", "error", "nil", "struct", "runtime", "index", "nilptr", "assert", "divzero", "nilfunc", "errpanics"]


# ---- translator: the shape of the function that ends the transaction, the built-in acceptable errors ----
def _go_files(pkg):
    d = os.path.join(vlib.REPO, pkg)
    return [os.path.join(d, f) for f in sorted(os.listdir(d)) if f.endswith(".go") and not f.endswith("_test.go")]


def _func_bodies(src):
    """[(name, text)] of the top-level functions / methods of a gofmt-ed file"""
    out = []
    for m in re.finditer(r"\nfunc (?:\([^)]*\) )?(\w+)\(.*?\n}\n", src, re.S):
        out.append((m.group(1), m.group(0)))
    return out


def regen_constants():
    """Reads the non-test files of core/stores/sqlx of the checked tree -> coq/gen/C14Consts.v.
    gen_goexit_guard: can the deferred function that ends the transaction tell a body that returned nil from a body that
    never returned (runtime.Goexit)?  It cannot exactly when fn's result is returned directly (`return fn(ctx, tx)`) and
    the closure only looks at recover() and err.  The function is found by what it does (the one that recovers and calls
    both Commit and Rollback), whatever it is called and wherever in the package it lives.
    gen_acc_txdone / gen_acc_canceled / gen_acc_norows: the SqlConn's acceptable method treats these errors as successes
    for the breaker (the user's WithAcceptable functions are then not consulted): read off the first `err == nil || ...`
    condition of a method named acceptable.
    What cannot be located textually falls back to today's value with a note: the flags only parametrise the MODEL side
    of the correspondence (prop_ok never looks at them), so a real change of behaviour still shows up as a disagreement
    or a property failure on the executed histories, and a harmless rewrite is not an alarm."""
    notes = []
    funcs = []
    for path in _go_files("core/stores/sqlx"):
        funcs += _func_bodies(open(path).read())
    enders = [(n, b) for n, b in funcs if "recover()" in b and ".Commit()" in b and ".Rollback()" in b]
    if not enders:
        notes.append("translator: no function of core/stores/sqlx recovers and calls Commit and Rollback; goexit guard assumed")
        guard = True
    else:
        body = enders[0][1]
        # unguarded = the body's result is returned directly: the last statement is `return <callee>(<args>)` of the
        # function-typed parameter, so the deferred closure cannot see whether the call came back
        params = re.findall(r"(\w+) func\(", body.split("{", 1)[0])
        last = re.search(r"\n\treturn (\w+)\([^\n]*\)\n}\n$", body)
        guard = not (last is not None and last.group(1) in params)
    accs = [b for n, b in funcs if n == "acceptable"]
    cond = ""
    for b in accs:
        m = re.search(r"err == nil\s*\|\|.*?\{", b, re.S)
        if m:
            cond = m.group(0)
            break
    if not cond:
        notes.append("translator: no `err == nil || ...` condition in a method named acceptable; built-in acceptable errors assumed")
        txdone = canceled = norows = True
    else:
        txdone = "ErrTxDone" in cond
        canceled = "context.Canceled" in cond
        norows = "ErrNoRows" in cond
    text = "\n".join(["(* GENERATED by tools/props/c14.py from the files of core/stores/sqlx of the",
                      "   checked tree at every run - do not edit. *)",
                      "Definition gen_goexit_guard : bool := %s." % cbool(guard),
                      "Definition gen_acc_txdone : bool := %s." % cbool(txdone),
                      "Definition gen_acc_canceled : bool := %s." % cbool(canceled),
                      "Definition gen_acc_norows : bool := %s." % cbool(norows), ""])
    path = os.path.join(vlib.COQ, "gen", "C14Consts.v")
    os.makedirs(os.path.dirname(path), exist_ok=True)
    old = open(path).read() if os.path.exists(path) else None
    if old != text:
        tmp = path + ".tmp%d" % os.getpid()
        with open(tmp, "w") as f:
            f.write(text)
        os.replace(tmp, path)
    return (guard, txdone, canceled, norows), old != text, notes


# ---- case construction ------------------------------------------------------------------------
def S(act="stmt", meth="exec", withctx=True, onfail="stop", variant=0, inner=0, wrap=False, innerctx="background"):
    return {"act": act, "meth": meth, "withctx": withctx, "onfail": onfail, "variant": variant, "inner": inner, "wrap": wrap,
            "innerctx": innerctx}


INNERCTX = ["body", "derived", "background"]


def inner_modes(case):
    """inline thread -> how the context of its (nested) call relates to the enclosing body's"""
    return {s["inner"]: s.get("innerctx", "background") for th in case["threads"] for s in th["steps"] if s["act"] == "inner"}


def T(**k):
    d = {"conn": 0, "api": "ctx", "dead": False, "deadline": False, "rewrap": False, "steps": [], "fin": "nil", "finval": "",
         "panicval": "string", "inline": False}
    d.update(k)
    return d


def C(**k):
    d = {"trip": False, "conns": [{"kind": "db", "accept": 0}], "threads": [], "sched": [], "oracle": []}
    d.update(k)
    return d


def ncalls(steps):
    """driver calls of a body whose statements all succeed (Begin and the end call included)"""
    return 2 + sum((2 if s["meth"] == "prep" else 1) for s in steps if s["act"] == "stmt")


def rot(seq, i):
    return seq[i % len(seq)]


def enumerate_faults(max_len):
    """One transaction; bodies of 0..max_len statements (entry points rotated over every Session method);
    every fault point: no fault | the p-th driver call (Begin, each Exec/Query/Prepare/Stmt.Exec, the end
    call) fails and every later call is answered `after` (ok / fail / panic: the end call of a body that
    stops at the fault); every reaction of the body (return it / ignore it / panic); every ending
    nil / error / panic / goroutine exit."""
    cases = []
    n = 0
    for length in range(max_len + 1):
        for react in ("stop", "ignore", "panic"):
            for fin in ("nil", "err", "panic", "goexit"):
                steps = []
                for j in range(length):
                    n += 1
                    steps.append(S(meth=rot(METHS, n + j), withctx=(n + j) % 3 != 0, onfail=react, variant=n % 4))
                total = ncalls(steps)
                plans = [[]]
                for p in range(total):
                    for after in ("ok", "fail", "panic"):
                        plans.append(["ok"] * p + ["fail"] + [after] * (total + 1))
                for after in ("fail", "panic"):
                    plans.append(["ok"] * (total - 1) + [after])
                for oracle in plans:
                    n += 1
                    if react != "stop" and (not oracle or length == 0) and (react, fin) != ("ignore", "nil"):
                        continue  # the reaction only matters when a statement can fail
                    cases.append(C(conns=[{"kind": rot(["db", "db", "named"], n), "accept": n % 3}],
                                   threads=[T(api=rot(APIS, n), rewrap=n % 5 == 0, steps=[dict(s) for s in steps], fin=fin,
                                              panicval=rot(PANICVALS, n))],
                                   oracle=oracle))
    return cases


def enumerate_ctx(max_len):
    """TransactCtx / CachedConn.TransactCtx with a context that is already cancelled, or that is cancelled
    before the k-th statement; statements of both flavours (with the context / without)."""
    cases = []
    n = 0
    for length in range(max_len + 1):
        for react in ("stop", "ignore", "panic"):
            for fin in ("nil", "err", "panic"):
                for k in range(length + 1):
                    for flav in range(3):
                        for endo in ("ok", "fail"):
                            n += 1
                            steps = [S(meth=rot(METHS, n + j), withctx=(flav != 2) if flav else (j % 2 == 0),
                                       onfail=react, variant=n) for j in range(length)]
                            steps.insert(k, S(act="cancel"))
                            cases.append(C(conns=[{"kind": "db", "accept": n % 3}],
                                           threads=[T(api=rot(["ctx", "cached", "ctx", "plain"], n), deadline=n % 2 == 0,
                                                      steps=steps, fin=fin)],
                                           oracle=["ok"] * ncalls(steps) if endo == "ok" else [endo if i else "ok" for i in range(40)]))
    for api in ("ctx", "cached"):
        for fin in ("nil", "panic"):
            for dl in (False, True):
                cases.append(C(conns=[{"kind": "db", "accept": 1}], threads=[T(api=api, dead=True, deadline=dl, steps=[S()], fin=fin)]))
    return cases


def enumerate_cancel_during(max_len):
    """The caller's context becomes done WHILE a driver call is in flight: during Begin, during each
    Exec / Prepare / Stmt.Exec, during Commit, during Rollback (every call position of bodies of
    0..max_len statements), the call itself succeeding or failing."""
    cases = []
    n = 0
    for length in range(max_len + 1):
        for react in ("stop", "ignore", "panic"):
            for fin in ("nil", "err", "panic"):
                for flav in range(2):
                    steps = [S(meth=rot(["exec", "prep", "exec", "query"], n + j + flav), withctx=(flav == 0 or j % 2 == 0),
                               onfail=react, variant=n + j) for j in range(length)]
                    total = ncalls(steps)
                    for p in range(total):
                        for at in ("ok+c", "fail+c"):
                            for after in ("ok", "fail"):
                                n += 1
                                if react != "stop" and length == 0:
                                    continue
                                cases.append(C(conns=[{"kind": rot(["db", "named"], n), "accept": n % 2}],
                                               threads=[T(api=rot(["ctx", "cached", "ctx", "plain"], n), rewrap=n % 7 == 0,
                                                          deadline=n % 3 == 0, steps=[dict(s) for s in steps], fin=fin)],
                                               oracle=["ok"] * p + [at] + [after] * (total + 1)))
    return cases


def enumerate_values():
    """SENTINEL ERROR VALUES. Every error the driver, the body, Commit or Rollback produces ranges over the values
    go-zero or database/sql treat specially (driver.ErrBadConn, sql.ErrTxDone, sql.ErrConnDone, sql.ErrNoRows,
    context.Canceled, context.DeadlineExceeded, driver.ErrSkip, breaker.ErrServiceUnavailable, io.EOF), each as the
    value itself, wrapped with %w, and as a custom type matching it through Is."""
    cases = []
    n = 0
    vals = ["%s:%s" % (k, m) for k in SENTINELS for m in MODES]
    for v in vals:
        # (a) a statement fails with it: each driver entry point, the body returns it (as is / wrapped) or ignores it
        for meth, pre in (("exec", 2), ("query", 2), ("prep", 2), ("prep", 3)):
            for onfail, wrap in (("stop", False), ("stop", True), ("ignore", False)):
                for endo in ("ok", "fail"):
                    n += 1
                    steps = [S(meth=rot(METHS, n), withctx=n % 2 == 0), S(meth=meth, withctx=n % 3 != 0, onfail=onfail, wrap=wrap,
                                                                         variant=n)]
                    first = 2 if steps[0]["meth"] == "prep" else 1
                    oracle = ["ok"] * (1 + first + (pre - 2)) + ["fail:" + v] + [endo] * 4
                    cases.append(C(conns=[{"kind": rot(["db", "named"], n), "accept": n % 3}],
                                   threads=[T(api=rot(APIS, n), rewrap=n % 5 == 0, steps=steps, fin=rot(["nil", "err"], n // 2))],
                                   oracle=oracle))
        # (b) Begin fails with it: once, twice, three times (database/sql repeats a Begin answered ErrBadConn)
        for times in (1, 2, 3):
            n += 1
            cases.append(C(conns=[{"kind": rot(["db", "named"], n), "accept": n % 2}],
                           threads=[T(api=rot(APIS, n), steps=[S()]), T(api=rot(APIS, n + 1), steps=[S(meth="query")])],
                           oracle=["fail:" + v] * times))
        # (c) Commit / Rollback fails with it
        for fin in ("nil", "err", "panic"):
            n += 1
            cases.append(C(conns=[{"kind": "db", "accept": n % 3}],
                           threads=[T(api=rot(APIS, n), steps=[S(meth=rot(METHS, n))], fin=fin), T(steps=[S()])],
                           oracle=["ok"] * (3 if rot(METHS, n) == "prep" else 2) + ["fail:" + v]))
        # (d) the body returns it as its own error; the rollback works or fails (with the same value)
        for endo in ("ok", "fail", "fail:" + v):
            n += 1
            cases.append(C(conns=[{"kind": "db", "accept": n % 3}],
                           threads=[T(api=rot(APIS, n), steps=[S()], fin="err", finval=v), T(steps=[S()])],
                           oracle=["ok", "ok", endo]))
        # (e) the body's own Commit / Rollback fails with it
        for act in ("selfcommit", "selfrollback"):
            for onfail, wrap in (("stop", n % 2 == 0), ("ignore", False)):
                n += 1
                cases.append(C(threads=[T(api=rot(APIS, n), steps=[S(act=act, onfail=onfail, wrap=wrap), S(onfail="ignore")],
                                          fin=rot(["nil", "err"], n))], oracle=["ok", "fail:" + v]))
    return cases


def enumerate_nested_calls():
    """A Transact / TransactCtx on the POOL from inside a body: with the very context the body was given, a context
    derived from it (WithValue + WithCancel), or Background; on the same SqlConn object, on another SqlConn object over
    the same DB, through the CachedConn wrapper; all 3 x 3 combinations of how the inner and the outer body end
    (nil / error / panic), the outer body going on after the nested call; plus the nested call's own end call failing.
    Every call must have its own Begin ... Commit/Rollback bracket (on a second connection) and return nil only if ITS
    commit succeeded."""
    cases = []
    n = 0
    for mode in INNERCTX:
        for sameconn in (True, False):
            for oapi, iapi in (("ctx", "ctx"), ("cached", "cached"), ("ctx", "cached"), ("cached", "ctx"), ("ctx", "plain")):
                for ofin in ("nil", "err", "panic"):
                    for ifin in ("nil", "err", "panic"):
                        for endo in ("ok", "fail"):
                            n += 1
                            if endo == "fail" and n % 2:
                                continue
                            outer = T(conn=0, api=oapi, steps=[S(), S(act="inner", inner=1, innerctx=mode), S(meth="query")], fin=ofin)
                            inner = T(conn=0 if sameconn else 1, api=iapi, steps=[S(meth=rot(METHS, n))], fin=ifin, inline=True)
                            # driver calls: outer Begin, outer stmt, inner Begin, inner stmt(s), inner end, outer stmt, outer end
                            k = 3 + (2 if inner["steps"][0]["meth"] == "prep" else 1)
                            cases.append(C(conns=[{"kind": "db", "accept": n % 2}, {"kind": "db", "accept": 0}],
                                           threads=[outer, inner], oracle=["ok"] * k + [endo]))
        # the enclosing context is already done when the nested call is made; two levels of nesting
        cases.append(C(threads=[T(steps=[S(act="cancel"), S(act="inner", inner=1, innerctx=mode)]),
                                T(api="cached", steps=[S()], inline=True)]))
        cases.append(C(threads=[T(steps=[S(), S(act="inner", inner=1, innerctx=mode)], fin="err"),
                                T(steps=[S(act="inner", inner=2, innerctx=mode), S()], inline=True),
                                T(api="cached", steps=[S(meth="query")], fin="panic", inline=True)]))
    return cases


def enumerate_self_and_nest():
    """The body ends the transaction itself (Commit / Rollback through a type assertion on the session) or
    tries to nest a transaction on the session, at every position among 0..2 statements."""
    cases = []
    n = 0
    for length in range(3):
        for k in range(length + 1):
            for act in ("selfcommit", "selfrollback", "nest"):
                for react in ("stop", "ignore", "panic"):
                    for fin in ("nil", "err", "panic"):
                        for o in (("ok", "fail", "panic") if act != "nest" else ("ok", "fail")):
                            n += 1
                            if length == 2 and (n % 3):
                                continue
                            steps = [S(meth=rot(METHS, n + j), onfail=react if n % 2 else "ignore", withctx=bool(n % 2))
                                     for j in range(length)]
                            steps.insert(k, S(act=act, onfail=react, variant=n))
                            # the outcome o goes to the driver call made at the special step (self end)
                            # or to the end call (nest)
                            pre = 1 + sum((2 if s["meth"] == "prep" else 1) for s in steps[:k] if s["act"] == "stmt")
                            oracle = ["ok"] * pre + [o] if act != "nest" else [o if i >= pre else "ok" for i in range(12)]
                            cases.append(C(conns=[{"kind": "db", "accept": n % 2}],
                                           threads=[T(api=rot(APIS, n), rewrap=n % 4 == 0, steps=steps, fin=fin)], oracle=oracle))
    return cases


def enumerate_trip_during():
    """THE BREAKER OF THE TRANSACTION'S OWN SqlConn OPENS WHILE ITS BODY RUNS (other requests on the same SqlConn fail:
    the database is down for them; hundreds of Exec calls on the pool until the real breaker refuses requests, then the
    database is back). The transaction that has begun must still be ended exactly once - Commit iff its body returned
    nil - and its connection must go back to the pool, whatever the breaker says by then: at every position of the
    body, for every ending, every API, the end call working or failing; followed by further calls on the same SqlConn
    (refused or not: observed) and on another SqlConn object over the same DB; and interleaved: the trip happens in the
    body of ANOTHER transaction on the same SqlConn."""
    cases = []
    n = 0
    for api in APIS:
        for fin in ("nil", "err", "panic", "goexit"):
            for pos in (0, 1, 2):
                for orc in ([], ["ok", "ok", "fail"], ["ok", "fail"], ["ok"] * 8 + ["fail"]):
                    n += 1
                    steps = [S(meth=rot(METHS, n), withctx=n % 2 == 0, onfail=rot(["stop", "ignore"], n // 2)),
                             S(meth=rot(METHS, n // 3), onfail=rot(["stop", "ignore", "panic"], n))]
                    steps.insert(pos, S(act="tripbrk"))
                    cases.append(C(conns=[{"kind": rot(["db", "named"], n), "accept": n % 3}, {"kind": "db", "accept": 0}],
                                   threads=[T(api=api, steps=steps, fin=fin, rewrap=n % 5 == 0, deadline=n % 2 == 0),
                                            T(api=rot(APIS, n), steps=[S()]), T(conn=1, api=rot(APIS, n + 1), steps=[S(meth="query")])],
                                   oracle=list(orc)))
    # the trip is made from the body of another transaction on the same SqlConn, while this one is in its body
    for fin0 in ("nil", "err", "panic"):
        for fin1 in ("nil", "err"):
            for sched in ([0, 0, 1, 1, 1, 0, 0, 1], [1, 0, 0, 1, 1, 0, 1, 0], [0, 1, 0, 1, 1, 1, 0, 0]):
                n += 1
                cases.append(C(conns=[{"kind": "db", "accept": n % 2}],
                               threads=[T(api=rot(APIS, n), steps=[S(), S(meth="query")], fin=fin0),
                                        T(api=rot(APIS, n + 1), steps=[S(act="tripbrk"), S()], fin=fin1)],
                               sched=list(sched)))
    # ... and the body goes on for a long time after the trip, cancels its context, ends the tx itself
    for extra in ("cancel", "selfcommit", "selfrollback", "nest"):
        for fin in ("nil", "err"):
            n += 1
            cases.append(C(threads=[T(api=rot(["ctx", "cached"], n), steps=[S(), S(act="tripbrk"), S(act=extra, onfail="ignore"),
                                                                             S(onfail="ignore"), S(act="tripbrk")], fin=fin)]))
    return cases


def enumerate_panic_values():
    """SENTINEL PANIC VALUES (seeded C14-12): the body panics with every kind of value - PANICVALS - after 0 or 1 statement
    or as its reaction to a failing statement, through every API, the Rollback working / failing / panicking; and
    runtime.Goexit. Whatever the value, the panic is rolled back once and REPORTED AS AN ERROR: the call returns (it panics
    itself only when the driver's Rollback panicked)."""
    cases = []
    n = 0
    for pv in PANICVALS:
        for api in APIS:
            for endo in ("ok", "fail", "panic"):
                for shape in range(3):
                    n += 1
                    if shape == 0:
                        th, pre = T(api=api, fin="panic", panicval=pv), 1
                    elif shape == 1:
                        th, pre = T(api=api, steps=[S(meth=rot(["exec", "query"], n), withctx=n % 2 == 0)], fin="panic", panicval=pv), 2
                    else:   # the body panics because its statement failed
                        th, pre = T(api=api, steps=[S(onfail="panic", withctx=n % 2 == 1)], fin="nil", panicval=pv), 1
                    orc = ["ok"] * pre + ([endo] if shape < 2 else ["fail", endo])
                    cases.append(C(conns=[{"kind": rot(["db", "named"], n), "accept": n % 2}], threads=[th, T(steps=[S()])], oracle=orc))
    for api in APIS:
        for endo in ("ok", "fail", "panic"):
            cases.append(C(threads=[T(api=api, steps=[S()], fin="goexit")], oracle=["ok", "ok", endo]))
    return cases


def forced_trip_cases():
    """The same class with a FORCED breaker (white-box, harness/overlay/sqlx/verif_c14_test.go): the breaker field of the
    SqlConn is replaced by a switch around the real one and the body flips it open at the tripbrk step - deterministic,
    no failing requests needed. One or two transactions one after the other on one SqlConn (the second one is refused at
    the door), api ctx / plain, Exec / ExecCtx statements, every ending, the trip before / between / after the
    statements, the end call working or failing. Rendered and judged like every other case; if the overlay does not
    build against the tree (no such field any more) the cases go to the black-box executor and its real breaker."""
    cases = []
    n = 0
    for api in ("ctx", "plain"):
        for fin in ("nil", "err", "panic", "goexit"):
            for pos in (0, 1, 2):
                for orc in ([], ["ok", "ok", "ok", "fail"], ["ok", "fail"]):
                    n += 1
                    steps = [S(withctx=n % 2 == 0, onfail=rot(["stop", "ignore"], n // 2)), S(withctx=n % 3 == 0, onfail="stop")]
                    steps.insert(pos, S(act="tripbrk"))
                    ths = [T(api=api, steps=steps, fin=fin)]
                    if n % 2:
                        ths.append(T(api=rot(["ctx", "plain"], n), steps=[S()]))
                    cases.append(C(forced=True, threads=ths, oracle=list(orc)))
    # THE CONTEXT BECOMES DONE DURING THE BODY OR INSIDE AN END CALL, the end call failing or not (seeded C14-13). In this
    # executor the entries commit / rollback of the log are the calls made ON THE TRANSACTION OBJECT handed to
    # transactOnConn (a second end call, which *sql.Tx answers with ErrTxDone without telling the driver, is an entry):
    # at the start of the body, after the k-th statement, inside the k-th statement, inside Commit, inside Rollback;
    # cancel / deadline; body nil / err / panic / goexit.
    for dl in (False, True):
        for fin in ("nil", "err", "panic", "goexit"):
            for endo in ("ok", "fail", "ok+c", "fail+c"):
                for where in ("start", "mid", "end", "in-stmt", "none"):
                    n += 1
                    if where == "none" and not endo.endswith("+c"):
                        continue
                    steps = [S(withctx=n % 2 == 0, onfail="ignore"), S(withctx=n % 3 == 0, onfail=rot(["ignore", "stop"], n))]
                    orc = ["ok", "ok", "ok", endo]
                    if where == "in-stmt":
                        orc[1 + n % 2] = "ok+c"
                    elif where != "none":
                        steps.insert({"start": 0, "mid": 1, "end": 2}[where], S(act="cancel"))
                    cases.append(C(forced=True, threads=[T(api=rot(["ctx", "ctx", "plain"], n), deadline=dl, steps=steps, fin=fin),
                                                         T(steps=[S()])], oracle=orc))
    return cases


FORCED_OVERLAY = {"core/stores/sqlx/verif_c14_test.go": os.path.join(vlib.ROOT, "harness", "overlay", "sqlx", "verif_c14_test.go")}


def rand_steps(rng, length, pself=0.03):
    steps = []
    for _ in range(length):
        r = rng.random()
        onfail = rng.choice(["stop", "ignore", "ignore", "panic"])
        if r < pself:
            steps.append(S(act=rng.choice(["selfcommit", "selfrollback"]), onfail=onfail))
        elif r < pself + 0.04:
            steps.append(S(act="nest", onfail=onfail, variant=rng.randint(0, 3)))
        elif r < pself + 0.08:
            steps.append(S(act="cancel"))
        elif r < pself + 0.10:
            steps.append(S(act="nop"))
        elif r < pself + 0.115:
            steps.append(S(act="tripbrk"))
        else:
            steps.append(S(meth=rng.choice(METHS), withctx=rng.random() < 0.6, onfail=onfail, variant=rng.randint(0, 3),
                           wrap=rng.random() < 0.3))
    return steps


def rand_val(rng):
    return "%s:%s" % (rng.choice(SENTINELS), rng.choice(MODES))


def rand_oracle(rng, n, pfail, ppanic, pcancel=0.0, pval=0.4):
    out = []
    for _ in range(n):
        r = rng.random()
        o = ("panic" if r < ppanic else "fail" if r < ppanic + pfail else "ok") + ("+c" if rng.random() < pcancel else "")
        if not o.startswith("ok") and rng.random() < pval:
            o += ":" + rand_val(rng)
        out.append(o)
    return out


def rand_thread(rng, nconns, long_body=False):
    length = rng.randint(5, 30) if long_body else rng.randint(0, 5)
    return T(conn=rng.randrange(nconns), api=rng.choice(APIS), dead=rng.random() < 0.04, deadline=rng.random() < 0.4,
             rewrap=rng.random() < 0.2,
             steps=rand_steps(rng, length), fin=rng.choice(["nil", "nil", "nil", "err", "panic", "goexit"]),
             finval=rand_val(rng) if rng.random() < 0.5 else "", panicval=rng.choice(PANICVALS))


def rand_world(rng, mode):
    """mode: long (one transaction, long body) | seq (transactions back to back on long-lived SqlConns) |
    conc (interleaved) | nested (a transaction on the pool from inside a body)"""
    nconns = rng.choice([1, 1, 2, 3])
    conns = [{"kind": rng.choice(["db", "db", "db", "named", "bad"]) if i else rng.choice(["db", "db", "named"]),
              "accept": rng.randint(0, 2)} for i in range(nconns)]
    if mode == "long":
        threads = [rand_thread(rng, nconns, True)]
        sched = []
    elif mode == "seq":
        threads = [rand_thread(rng, nconns) for _ in range(rng.randint(2, 7))]
        sched = []   # the executor runs them to completion one after the other
    elif mode == "conc":
        threads = [rand_thread(rng, nconns) for _ in range(rng.randint(2, 4))]
        quanta = [t for t, th in enumerate(threads) for _ in range(len(th["steps"]) + 2)]
        rng.shuffle(quanta)
        sched = quanta[:rng.randint(len(quanta) // 2, len(quanta))]
    else:
        threads = [rand_thread(rng, nconns) for _ in range(rng.randint(1, 2))]
        outer = len(threads)
        for t in range(outer):
            if not threads[t]["steps"]:
                threads[t]["steps"] = [S()]
            for _ in range(rng.randint(1, 2)):
                j = len(threads)
                th = rand_thread(rng, nconns)
                th["inline"] = True
                threads.append(th)
                pos = rng.randint(0, len(threads[t]["steps"]))
                threads[t]["steps"].insert(pos, S(act="inner", inner=j, innerctx=rng.choice(INNERCTX)))
        sched = []
    total = sum(ncalls(th["steps"]) for th in threads)
    oracle = rand_oracle(rng, total, rng.choice([0.0, 0.05, 0.15, 0.35]), rng.choice([0.0, 0.0, 0.03, 0.1]),
                         rng.choice([0.0, 0.0, 0.05, 0.2]))
    return C(trip=rng.random() < 0.03, conns=conns, threads=threads, sched=sched, oracle=oracle)


# ---- rendering ------------------------------------------------------------------------------------
def breaker_sequence(rng):
    """One long-lived SqlConn whose breaker trips BY ITSELF: ~30 transactions that fail (Begin fails, the body fails,
    the commit fails: unacceptable errors), then a mix of good and bad ones while the breaker rejects some calls at its own
    discretion (each verdict is observed). No rejected or failed call may leave a transaction open."""
    threads = []
    for i in range(rng.randint(25, 35)):
        kind = rng.choice(["begin", "begin", "body", "commit", "stmt"])
        if kind == "begin":
            threads.append(T(api=rng.choice(APIS), steps=[S()]))
        elif kind == "body":
            threads.append(T(api=rng.choice(APIS), steps=[S(meth=rng.choice(METHS))], fin=rng.choice(["err", "panic"])))
        else:
            threads.append(T(api=rng.choice(APIS), steps=[S(meth=rng.choice(METHS), onfail=rng.choice(["stop", "ignore"]))]))
    for i in range(rng.randint(8, 16)):
        threads.append(rand_thread(rng, 1))
    total = sum(ncalls(th["steps"]) for th in threads)
    oracle = rand_oracle(rng, total, 0.55, 0.02, 0.02)
    sched = []
    if rng.random() < 0.5:   # the last transactions interleaved
        tail = list(range(len(threads) - 6, len(threads)))
        sched = [t for t in range(len(threads) - 6) for _ in range(len(threads[t]["steps"]) + 2)]
        quanta = [t for t in tail for _ in range(len(threads[t]["steps"]) + 2)]
        rng.shuffle(quanta)
        sched += quanta
    return C(conns=[{"kind": rng.choice(["db", "named"]), "accept": rng.randint(0, 2)}], threads=threads, sched=sched, oracle=oracle)


# ---- free-running family (thorough tier, -race) -------------------------------------------------------
def free_case(rng):
    """4..8 transactions released at once on goroutines of their own on one or two SqlConn objects over one DB: no
    gates, the driver only serialises its own bookkeeping. Bodies are statements only (each body has at least one, and
    the first one always reaches the driver), so every bracket on a connection can be attributed to a transaction."""
    nconns = rng.choice([1, 1, 2])
    threads = []
    for _ in range(rng.randint(4, 8)):
        steps = [S(meth=rng.choice(METHS), withctx=rng.random() < 0.6, onfail=rng.choice(["stop", "ignore", "ignore"]),
                   variant=rng.randint(0, 3), wrap=rng.random() < 0.3) for _ in range(rng.randint(1, 4))]
        threads.append(T(conn=rng.randrange(nconns), api=rng.choice(APIS), rewrap=rng.random() < 0.2, steps=steps,
                         fin=rng.choice(["nil", "nil", "err", "panic"]), finval=rand_val(rng) if rng.random() < 0.4 else "",
                         panicval=rng.choice(PANICVALS)))
    total = sum(ncalls(th["steps"]) for th in threads)
    # half of the cases: a goroutine per SqlConn keeps failing requests on it meanwhile - its breaker opens while bodies
    # run (calls refused at the door run nothing; a transaction that has begun is still ended, whatever the breaker says)
    return C(free=True, tripper=rng.random() < 0.5, conns=[{"kind": "db", "accept": 0} for _ in range(nconns)], threads=threads,
             oracle=rand_oracle(rng, total, rng.choice([0.0, 0.1, 0.3]), 0.0, 0.0))


def free_check(case, obs):
    """The judgement of the property on the driver log of a free-running case, connection by connection: what arrives
    on one connection is a sequence of failed Begins and of brackets Begin ok, statements of ONE transaction in program
    order, one Commit/Rollback; every transaction whose body ran owns exactly one bracket, ended by Commit iff its body
    returned nil; nil is returned iff that Commit succeeded; no connection stays checked out. None if all holds."""
    conns = {}
    for e in obs["log"]:
        conns.setdefault(e[1], []).append(e)
    brackets = []
    for cn, ents in conns.items():
        cur = None
        for e in ents:
            kind = e[2]
            if kind == "begin":
                if cur is not None:
                    return "connection %d: Begin inside an open transaction" % cn
                if e[4] == "ok":
                    cur = {"conn": cn, "tid": None, "k": -1, "end": None}
            elif kind in ("commit", "rollback"):
                if cur is None:
                    return "connection %d: %s without an open transaction" % (cn, kind)
                cur["end"] = (kind, e[4])
                brackets.append(cur)
                cur = None
            else:
                if cur is None:
                    return "connection %d: statement of transaction %d outside a transaction" % (cn, e[0])
                if cur["tid"] is None:
                    cur["tid"] = e[0]
                if cur["tid"] != e[0]:
                    return "connection %d: statements of transactions %d and %d in one bracket" % (cn, cur["tid"], e[0])
                if e[3] < cur["k"]:
                    return "connection %d: statements of transaction %d out of order" % (cn, e[0])
                cur["k"] = e[3]
        if cur is not None:
            return "connection %d: transaction of %s begun and never ended" % (cn, cur["tid"])
    if obs["inuse"] != 0:
        return "%d connection(s) still checked out" % obs["inuse"]
    for t, (th, o) in enumerate(zip(case["threads"], obs["threads"])):
        mine = [b for b in brackets if b["tid"] == t]
        if not o["finished"]:
            return "transaction %d did not finish" % t
        if o["runs"] == 0:
            if mine:
                return "transaction %d: driver calls although its body did not run" % t
            if o["returned"] and o["err"]["nil"]:
                return "transaction %d: nil returned although the body did not run" % t
            continue
        if o["runs"] != 1 or len(mine) != 1:
            return "transaction %d: body ran %d time(s), %d bracket(s) on the connections" % (t, o["runs"], len(mine))
        kind, outc = mine[0]["end"]
        if (o["body"][0] == "nil") != (kind == "commit"):
            return "transaction %d: body %s but %s" % (t, o["body"][0], kind)
        if o["did_panic"] or not o["returned"]:
            return "transaction %d: the call did not return" % t
        if o["err"]["nil"] != (kind == "commit" and outc == "ok"):
            return "transaction %d: returned %r after %s %s" % (t, o["err"]["text"] or None, kind, outc)
    if any(b["tid"] is None for b in brackets):
        return "a transaction without statements (nobody's)"
    return None


def race_reports(out):
    """[(is it ours, text)] for every report of the race detector: ours = one of the two racing accesses is made
    by code of the anchored packages (or by database/sql on their behalf), not merely below them on the stack"""
    res = []
    for blk in out.split("WARNING: DATA RACE")[1:]:
        blk = blk.split("==================")[0]
        tops = re.findall(r"(?:Read|Write|Previous read|Previous write) at [^\n]*\n\s+(\S+)\n\s+(\S+)", blk)
        ours = any("core/stores/sqlx" in f or "core/stores/sqlc" in f or "/database/sql/" in f for _, f in tops)
        res.append((ours, blk.strip()[:3000]))
    return res


def step_term(s):
    a = s["act"]
    if a == "stmt":
        act = "(AStmt %s %s)" % (METH[s["meth"]], cbool(s["withctx"]))
    elif a == "nest":
        act = "ANest"
    elif a == "selfcommit":
        act = "ASelfCommit"
    elif a == "selfrollback":
        act = "ASelfRollback"
    elif a == "cancel":
        act = "ACancel"
    elif a == "tripbrk":
        act = "ATrip"
    else:
        act = "ANop"
    return "mkStep %s %s" % (act, ONFAIL[s["onfail"]])


def body_term(b, th, dl=False):
    k = b[0]
    if k in ("none", "running"):
        return "None"
    if k == "nil":
        return "(Some BNil)"
    if k == "panic":
        return "(Some BPanic)"
    if k == "goexit":
        return "(Some BGoexit)"
    if k == "user":
        return "(Some (BErr (BUser %s)))" % val_term(*split_val(th.get("finval")))
    if k in ("stmt", "selfc", "selfr"):
        con = {"stmt": "BStmt", "selfc": "BSelfC", "selfr": "BSelfR"}[k]
        return "(Some (BErr (%s %s %s)))" % (con, cz(b[1]), val_term(b[2], b[3]))
    if k == "ctx":
        return "(Some (BErr (BCtx %s %s)))" % (cz(b[1]), cbool(dl))
    if k == "unexpected":
        # an error the body could not attribute (not the driver's, not the context's, not sql.ErrTxDone, not the nesting
        # refusal): the model never predicts step -1, so the case disagrees - and the property is still judged on it
        return "(Some (BErr (BTxDone (-1))))"
    con = {"txdone": "BTxDone", "nest": "BNest"}[k]
    return "(Some (BErr (%s %s)))" % (con, cz(b[1]))


EFIELDS = ("nil", "begin", "commit", "rollback", "same_as_body", "recover", "txfailed", "noconn", "nest")


def retry_marks(log):
    """database/sql repeats a Begin answered with (an error matching) driver.ErrBadConn on another connection: every
    Begin of a transaction but its last one that failed with such a value is rendered as CBeginRetry."""
    last = {}
    for i, e in enumerate(log):
        if e[2] == "begin":
            last[e[0]] = i
    return [e[2] == "begin" and last[e[0]] != i and e[4] == "fail" and e[5] == "badconn" for i, e in enumerate(log)]



class C14(Property):
    id = "C14"
    title = "SQL transactions end exactly once: commit iff the body succeeded"
    quick_cases = 900
    thorough_cases = 12000
    design_ref = "DESIGN.md §6/C14"
    level_text = ("Unbounded Rocq theorems over a machine model of SqlConn.Transact/TransactCtx (context check, breaker, "
                  "connProv, transactOnConn's begin + deferred recover/rollback/commit, the transaction's Session methods, "
                  "txConn's refusal to nest): for every set of transactions on long-lived SqlConns, every schedule of their "
                  "quanta and every scripted driver (the outcome ok/fail/panic of its n-th call is arbitrary): each "
                  "transaction's driver calls are Begin, statements in program order, one Commit-or-Rollback, last, all on its "
                  "own connection; the body is not run unless Begin succeeded; Commit iff the body returned nil; panic / error "
                  "/ goroutine exit => Rollback; nil is returned iff a Commit succeeded; failed Commit/Rollback are wrapped in "
                  "the returned error, a panicking one is not turned into a return; nested Transact on the session runs "
                  "nothing. Tied to core/stores/sqlx + sqlc by running the public API over a scripted logging "
                  "database/sql driver on an exhaustive enumeration of fault points plus random sequences / interleavings.")
    level_note = ("Trusted: Coq kernel + vm_compute; hand-written model (database/sql is abstracted to 'each call of a live "
                  "transaction reaches the driver once on the transaction's connection and its error comes back unchanged; "
                  "cancelled-context / ended-transaction calls are refused', validated by the correspondence run); breaker "
                  "verdict and the pooled connection serving Begin are observed inputs; a driver that panics in Begin or in a "
                  "statement is not modelled (database/sql itself does not survive a panicking QueryContext).")
    rule = ("cases: exhaustive enumeration of one-transaction fault points (bodies of 0..3 statements rotated over every Session "
            "method x the p-th driver call fails x what the driver answers afterwards ok/fail/panic x reaction "
            "stop/ignore/panic x ending nil/err/panic/goexit), context cancellation points, self-ended and nested bodies; plus "
            "random long bodies, sequences of 2..7 transactions on 1..3 long-lived SqlConns (NewSqlConnFromDB / NewSqlConn / "
            "unopenable), forced interleavings of 2..4 transactions, transactions begun on the pool from inside a body. "
            "non-trivial = a transaction begins and a fault/err/panic/exit is injected or several transactions run; "
            "distinct = canonical JSON hash of the case")
    trusted_base = [
        "model theories/C14/Model.v is hand-written; tie = correspondence run (harness/cmd/c14) through the public API",
        "database/sql (Go standard library) between go-zero and the scripted driver is not modelled; its pass-through / "
        "refusal behaviour is what the correspondence run observes",
        "errors are compared through errors.Is / identity / message prefix facts",
        "PYTHON-ONLY MONITOR, outside the proved judgement: free_check (tools/props/c14.py), the per-connection reading of the "
        "driver log of the free-running -race family of the thorough tier (no schedule to replay, Begin/Commit/Rollback "
        "attributed through the connection); it has no Coq counterpart and no soundness lemma; every quick-tier case and "
        "every forced-schedule case of the thorough tier is judged by Check.prop_ok, whose meaning is "
        "Props.check_means_the_property",
        "white-box overlay harness/overlay/sqlx/verif_c14_test.go (go test -overlay, nothing written under /repo): replaces "
        "the SqlConn's breaker field by a switch around the real breaker for the forced-breaker family; falls back to the "
        "black-box executor and the real breaker when the field cannot be found",
    ]
    assumptions = ["bodies are sequential scripts of Session calls ending by return nil / return err / panic / runtime.Goexit",
                   "the driver's Begin and statement entry points return (possibly an error); only Commit/Rollback may panic"]

    guard = True
    acc_txdone = True
    acc_canceled = True

    def regen(self, ctx):
        (self.guard, self.acc_txdone, self.acc_canceled, self.acc_norows), changed, notes = regen_constants()
        return ["C14Consts.v %s: goexit_guard=%s acc_txdone=%s acc_canceled=%s acc_norows=%s" %
                ("rewritten" if changed else "unchanged", self.guard, self.acc_txdone, self.acc_canceled, self.acc_norows)] + notes

    def prepare(self, ctx):
        ok, res = vlib.go_build("c14")
        self.bin = res if ok else None
        return ok, ("" if ok else res)

    def extra(self, ctx):
        """Thorough tier: free-running transactions on shared SqlConn objects under the race detector. The driver log is
        judged connection by connection (free_check); a data race reported by the runtime is a failure too."""
        if ctx.tier != "thorough":
            return []
        import random
        rng = random.Random(ctx.seed * 7919 + 14)
        ok, res = vlib.go_build("c14", race=True)
        if not ok:
            raise ExecError("c14 -race build failed: %s" % res[-1500:])
        cases = [free_case(rng) for _ in range(400)]
        fails = []
        try:
            rc, out, obs = vlib.go_run(res, [dict(c, id=i) for i, c in enumerate(cases)], tag="c14free", timeout=900)
            races = race_reports(out)
            for ours, text in races:
                if ours:
                    fails.append({"what": "data race in the transaction path while transactions ran concurrently on shared "
                                          "SqlConn objects", "replay": {"race_report": text}})
                else:
                    first = re.search(r"\n\s+(\S+\(\))\n", text)
                    ctx.notes.append("race outside the anchored code (not judged): %s" % (first.group(1) if first else "?"))
            if (rc not in (0, 66) or (rc == 66 and not races)) or len(obs) != len(cases):
                raise ExecError("c14 free-running executor rc=%s: %s" % (rc, out[-2000:]))
            for c, o in zip(cases, obs):
                if o.get("fail"):
                    raise ExecError("c14 free-running executor: %s" % o["fail"])
                why = free_check(c, o)
                if why:
                    fails.append({"what": "free-running transactions: " + why, "replay": {"case": c, "observed": o}})
                    if len(fails) >= 3:
                        break
            ctx.notes.append("free-running -race family: %d cases, %d transactions, %d failures" %
                             (len(cases), sum(len(c["threads"]) for c in cases), len(fails)))
        finally:
            vlib.go_build("c14")   # same output path: put the plain executor back
        return fails

    def coq_preamble(self):
        return "From GZgen Require Import C14Consts.\n"

    def corpus(self):
        out = [
            # the breaker of the SqlConn opens WHILE the body runs (seeded C14-11): the transaction that has begun is
            # still ended exactly once and its connection goes back to the pool
            C(threads=[T(steps=[S(), S(act="tripbrk")])]),
            C(threads=[T(steps=[S(), S(act="tripbrk")], fin="err")]),
            C(threads=[T(api="cached", steps=[S(act="tripbrk"), S(meth="query")], fin="panic")]),
            C(conns=[{"kind": "named", "accept": 1}], threads=[T(api="plain", steps=[S(meth="prep"), S(act="tripbrk")]), T(steps=[S()])]),
            C(threads=[T(api="cachedplain", steps=[S(act="tripbrk")], fin="goexit")]),
            C(threads=[T(steps=[S(), S()]), T(steps=[S(act="tripbrk")], fin="err")], sched=[0, 0, 1, 1, 1, 0, 0]),
            C(threads=[T(steps=[S(act="tripbrk"), S()])], oracle=["ok", "ok", "fail"]),      # ... and the commit fails
            # the context ends during the body / inside Commit and Commit fails: still ONE end call on the transaction
            # object (seeded C14-13; white-box executor: end calls counted on the object handed to transactOnConn)
            C(forced=True, threads=[T(steps=[S(onfail="ignore"), S(act="cancel")])], oracle=["ok", "ok", "fail"]),
            C(forced=True, threads=[T(deadline=True, steps=[S(act="cancel")])], oracle=["ok", "fail"]),
            C(forced=True, threads=[T(steps=[S(withctx=False)])], oracle=["ok", "ok", "fail+c"]),
            C(forced=True, threads=[T(deadline=True)], oracle=["ok", "fail+c"]),
            # the body panics with a runtime.Error / panic(nil) and the rollback works: reported as an error (seeded C14-12)
            C(threads=[T(fin="panic", panicval="nilptr")]),
            C(threads=[T(api="plain", steps=[S()], fin="panic", panicval="index")]),
            C(threads=[T(api="cached", steps=[S(meth="query")], fin="panic", panicval="nil")]),
            C(threads=[T(api="cachedplain", fin="panic", panicval="runtime"), T(steps=[S()])]),
            C(threads=[T(steps=[S(onfail="panic")], panicval="assert")], oracle=["ok", "fail"]),
            C(threads=[T(fin="panic", panicval="divzero")], oracle=["ok", "fail"]),           # ... and the rollback fails
            # the body tolerates the failure of its LAST statement and returns nil: that is a commit (seeded C14-10)
            C(threads=[T(steps=[S(onfail="ignore")])], oracle=["ok", "fail"]),
            C(threads=[T(api="plain", steps=[S(), S(meth="query", onfail="ignore")])], oracle=["ok", "ok", "fail"]),
            C(threads=[T(api="cached", steps=[S(meth="prep", onfail="ignore")])], oracle=["ok", "ok", "fail"]),
            C(threads=[T(steps=[S(meth="prep", onfail="ignore", withctx=False)])], oracle=["ok", "fail"]),
            C(threads=[T()]),                                                          # empty body commits
            C(threads=[T(fin="panic")]),
            C(threads=[T(fin="panic")], oracle=["ok", "fail"]),                        # panic, rollback fails
            C(threads=[T(fin="panic", panicval="nil")], oracle=["ok", "panic"]),       # panic(nil), rollback panics
            C(threads=[T(steps=[S(), S()])], oracle=["ok", "ok", "fail", "fail"]),     # statement error + rollback failure
            C(threads=[T(steps=[S(onfail="ignore")])], oracle=["ok", "fail", "fail"]), # ignored failure, commit fails
            C(threads=[T(steps=[S()])], oracle=["fail"]),                              # begin fails
            C(threads=[T(steps=[S()], fin="goexit")]),                                 # goroutine exit
            C(trip=True, threads=[T(steps=[S()])]),
            C(trip=True, threads=[T(api="cached", fin="panic"), T(api="plain")], oracle=["fail"]),
            C(conns=[{"kind": "bad", "accept": 2}], threads=[T(steps=[S()]), T(api="plain")]),
            C(threads=[T(dead=True, steps=[S()])]),
            C(threads=[T(steps=[S(), S(act="cancel"), S(), S()])]),                     # cancelled mid-body -> rollback
            C(threads=[T(steps=[S(onfail="ignore"), S(act="cancel"), S(onfail="ignore")])]),   # ... swallowed -> commit
            C(threads=[T(steps=[S(act="selfcommit"), S(onfail="ignore")])]),
            C(threads=[T(steps=[S(act="nest"), S()])]),
            # a failed transaction, then a good one, on the same SqlConn; then two interleaved
            C(threads=[T(steps=[S()], fin="err"), T(steps=[S(meth="query")]), T(steps=[S(meth="prep")]), T(steps=[S()], fin="panic")],
              sched=[0, 0, 0, 1, 1, 1, 2, 3, 3, 2, 2, 3], oracle=["ok", "ok", "fail"]),
            # a transaction on the pool from inside a body
            C(threads=[T(steps=[S(), S(act="inner", inner=1), S()]), T(steps=[S()], fin="err", inline=True)]),
            C(threads=[T(steps=[S(), S(act="inner", inner=1, innerctx="body"), S()], fin="err"), T(steps=[S()], inline=True)]),
        ]
        return out

    def gen(self, rng, n, tier):
        thorough = tier == "thorough"
        cases = enumerate_faults(4 if thorough else 3)
        cases += enumerate_ctx(3 if thorough else 2)
        cases += enumerate_cancel_during(3 if thorough else 2)
        cases += enumerate_self_and_nest()
        cases += enumerate_values()
        cases += enumerate_nested_calls()
        cases += enumerate_trip_during()
        cases += forced_trip_cases()
        cases += enumerate_panic_values()
        for i in range(n):
            cases.append(rand_world(rng, ("long", "seq", "seq", "conc", "conc", "nested")[i % 6]))
        for i in range(40 if thorough else 6):
            cases.append(breaker_sequence(rng))
        return cases

    def _execute_forced(self, cases, idx, ctx):
        """white-box run of the forced-breaker cases; {} when the overlay cannot be used on this tree"""
        if not idx:
            return {}
        try:
            rc, out, res = vlib.go_test_overlay("./core/stores/sqlx", FORCED_OVERLAY, run="^TestVerifC14$",
                                                cases=[dict(cases[i], id=i) for i in idx], tag="c14w", timeout=300)
        except Exception as e:   # noqa: the fallback below judges the same cases with the real breaker
            rc, out, res = 1, str(e), []
        if rc != 0 or len(res) != len(idx) or any(r.get("unsupported") for r in res):
            why = next((r["unsupported"] for r in res if r.get("unsupported")), "go test -overlay rc=%s" % rc)
            ctx.notes.append("forced-breaker overlay not usable on this tree (%s): %d cases run by the black-box executor "
                             "with the real breaker instead" % (why[:200], len(idx)))
            return {}
        return dict(zip(idx, res))

    def execute(self, cases, ctx):
        forced = self._execute_forced(cases, [i for i, c in enumerate(cases) if c.get("forced")], ctx)
        rest = [i for i in range(len(cases)) if i not in forced]
        rc, out, res0 = vlib.go_run(self.bin, [dict(cases[i], id=i) for i in rest], tag="c14", timeout=900)
        if rc != 0 or len(res0) != len(rest):
            raise ExecError("c14 executor rc=%s: %s" % (rc, out[-2000:]))
        res = [None] * len(cases)
        for i, r in zip(rest, res0):
            res[i] = r
        for i, r in forced.items():
            res[i] = r
        # a tree whose session type offers no Commit / Rollback to a type assertion (nor a *sql.Tx to find): the body
        # cannot end the transaction behind Transact's back; those steps become no-ops and the cases are run again
        redo = [i for i, r in enumerate(res) if r.get("unsupported")]
        if redo:
            for i in redo:
                for th in cases[i]["threads"]:
                    for s in th["steps"]:
                        if s["act"] in ("selfcommit", "selfrollback"):
                            s["act"] = "nop"
            rc, out, res2 = vlib.go_run(self.bin, [dict(cases[i], id=i) for i in redo], tag="c14redo", timeout=900)
            if rc != 0 or len(res2) != len(redo):
                raise ExecError("c14 executor rc=%s: %s" % (rc, out[-2000:]))
            for i, r in zip(redo, res2):
                res[i] = r
            ctx.notes.append("%d cases re-run without self-ended steps: %s" % (len(redo), res2[0].get("unsupported") or "-"))
        for r in res:
            if r.get("fail"):
                raise ExecError("c14 executor: case %s: %s" % (r.get("id"), r["fail"]))
        return res

    # ---- rendering ---------------------------------------------------------
    def _script(self, case, th, o, retries, mode):
        ctxapi = th["api"] in ("ctx", "cached")
        # a nested call handed the very context of the enclosing body: nobody cancels it while the call runs
        return "(mkScript %s %s %s %s %s %s %s %s %s %s)" % (
            cbool(ctxapi and mode != "body"), cbool(ctxapi and (o["dead_at_call"] if o["started"] else th["dead"])),
            cbool(o["by_deadline"] if o["started"] else th.get("deadline", False)), cbool(not o["rejected"]),
            cbool(case["conns"][th["conn"]]["kind"] != "bad"), cz(o["conn_id"]), clist([cz(c) for c in retries]),
            clist([step_term(s) for s in th["steps"]]), fin_term(th), cz(case["conns"][th["conn"]]["accept"]))

    def _tobs(self, o, th):
        if not o["started"]:
            ret = "ONotStarted"
        elif not o["finished"]:
            ret = "OOpen"
        elif o["did_panic"]:
            ret = "OPanicked"
        elif not o["returned"]:
            ret = "ONever"
        else:
            sent = [k for k in SENTINELS if k in (o["err"].get("sent") or [])]
            ret = "(ORet (mkE %s %s))" % (" ".join(cbool(o["err"][k]) for k in EFIELDS), clist([VKIND[k] for k in sent]))
        return "(mkT %s %s %s %s %s %s %s %s)" % (ret, cz(o["runs"]), body_term(o["body"], th, o.get("by_deadline", False)), cz(o["inuse"]),
                                                  cz(o["nest_runs"]), cbool(o["self_ended"]), cz(o["acc"]), cbool(o["acc_same"]))

    def coq_case(self, case, obs):
        marks = retry_marks(obs["log"])
        retries = {}
        for e, m in zip(obs["log"], marks):
            if m:
                retries.setdefault(e[0], []).append(e[1])
        modes = inner_modes(case)
        scripts = clist([self._script(case, th, o, retries.get(t, []), modes.get(t, "own"))
                         for t, (th, o) in enumerate(zip(case["threads"], obs["threads"]))])
        nobody = len(case["threads"]) + 1   # a driver call logged while no transaction was running (tid < 0): nobody's

        def ent(e, m):
            if e[0] < 0:
                e = [nobody] + list(e[1:])
            call = ("CBeginRetry" if m else {"begin": "CBegin", "commit": "CCommit", "rollback": "CRollback"}.get(e[2])
                    or "(CStmt %s %s)" % (cz(e[3]), KIND[e[2]]))
            if e[4] == "fail" and e[5] != "generic":
                return "mkEnt %d %s %s %s %s" % (e[0], cz(e[1]), call, OUT[e[4]], val_term(e[5], e[6]))
            return "en %d %s %s %s" % (e[0], cz(e[1]), call, OUT[e[4]])
        log = clist([ent(e, m) for e, m in zip(obs["log"], marks)])
        return "mkCase gen_goexit_guard %s %s %s %s %s %s" % (
            scripts, clist(["%d%%nat" % t for t in obs["esched"]]),
            clist([reply_term(o) for o in case["oracle"]]), log, clist([self._tobs(o, th) for o, th in zip(obs["threads"], case["threads"])]), cz(obs["inuse"]))

    # ---- evidence ------------------------------------------------------------
    def nontrivial(self, case, obs):
        begun = [e for e in obs["log"] if e[2] == "begin" and e[4] == "ok"]
        if not begun:
            return False
        return (len(begun) > 1 or any(e[4] != "ok" for e in obs["log"])
                or any(th["fin"] != "nil" for th in case["threads"])
                or any(s["act"] != "stmt" for th in case["threads"] for s in th["steps"]))

    def features(self, case, obs):
        fs = ["threads=%s" % min(len(case["threads"]), 5), "conns=%d" % len(case["conns"])]
        if case["trip"]:
            fs.append("tripped" if obs.get("tripped") else "trip_failed")
        if case["sched"]:
            fs.append("interleaved")
        for c in case["conns"]:
            fs.append("conn=" + c["kind"])
            fs.append("accept=%d" % c["accept"])
        for ti, (th, o) in enumerate(zip(case["threads"], obs["threads"])):
            n = len(th["steps"])
            fs += ["api=" + th["api"], "fin=" + th["fin"], "len=%s" % (n if n <= 5 else "6-20" if n <= 20 else "21+"),
                   "body=" + str(o["body"][0])]
            if th["fin"] == "panic":
                fs.append("panicval=" + th["panicval"])
            if th["dead"]:
                fs.append("ctx=dead")
            if th["rewrap"]:
                fs.append("NewSessionFromTx")
            if th["inline"] and o["started"]:
                fs.append("begun_inside_a_body")
                fs.append("nested_ctx=" + inner_modes(case).get(ti, "background"))
            if o["rejected"]:
                fs.append("breaker_rejected")
            if o["did_panic"]:
                fs.append("transact_panicked")
            if o["started"] and o["finished"] and not o["returned"] and not o["did_panic"]:
                fs.append("transact_never_returned")
            if o["self_ended"]:
                fs.append("body_ended_tx_itself")
            if o.get("trips"):
                fs.append("breaker_opened_during_body" if o.get("trips_open") else "breaker_trip_during_body_failed")
            if o.get("forced"):
                fs.append("breaker_forced_open_whitebox")
            if o.get("late"):
                fs.append("session_used_after_end=" + o["late"].split(":")[0])
            if o.get("no_rewrap"):
                fs.append("no_sql_tx_in_session")
            if o["acc"]:
                fs.append("acceptable_consulted")
            for s in th["steps"]:
                fs.append("step=" + (s["act"] if s["act"] != "stmt" else s["meth"] + ("Ctx" if s["withctx"] else "")))
        for e in obs["log"]:
            if e[2] in ("begin", "commit", "rollback") or e[4] != "ok":
                fs.append("%s_%s" % (e[2], e[4]))
        return sorted(set(fs))

    def shrink_candidates(self, case):
        res = []
        ths = case["threads"]

        def clone(c):
            d = dict(c)
            d["threads"] = [dict(t, steps=[dict(s) for s in t["steps"]]) for t in c["threads"]]
            d["conns"] = [dict(x) for x in c["conns"]]
            d["sched"] = list(c["sched"])
            d["oracle"] = list(c["oracle"])
            return d
        # drop a transaction
        for t in range(len(ths)):
            if len(ths) == 1:
                break
            c = clone(case)
            del c["threads"][t]
            c["sched"] = [x - (x > t) for x in c["sched"] if x != t]
            for th in c["threads"]:
                for s in th["steps"]:
                    if s["act"] == "inner":
                        if s["inner"] == t:
                            s["act"] = "nop"
                        elif s["inner"] > t:
                            s["inner"] -= 1
            res.append(c)
        # drop a step / make it plain
        for t, th in enumerate(ths):
            for i, s in enumerate(th["steps"]):
                c = clone(case)
                del c["threads"][t]["steps"][i]
                res.append(c)
            if len(th["steps"]) > 4:
                c = clone(case)
                c["threads"][t]["steps"] = th["steps"][:len(th["steps"]) // 2]
                res.append(c)
                c = clone(case)
                c["threads"][t]["steps"] = th["steps"][len(th["steps"]) // 2:]
                res.append(c)
            for i, s in enumerate(th["steps"]):
                if s["act"] == "stmt" and (s["meth"] != "exec" or not s["withctx"] or s["variant"]):
                    c = clone(case)
                    c["threads"][t]["steps"][i].update(meth="exec", withctx=True, variant=0)
                    res.append(c)
            for k, v in (("api", "ctx"), ("dead", False), ("deadline", False), ("rewrap", False), ("fin", "nil"), ("finval", ""), ("panicval", "string")):
                if th.get(k, v) != v:
                    c = clone(case)
                    c["threads"][t][k] = v
                    res.append(c)
        # fewer faults, shorter script of the driver
        for i, o in enumerate(case["oracle"]):
            if o != "ok":
                c = clone(case)
                c["oracle"][i] = "ok"
                res.append(c)
                if o == "panic":
                    c = clone(case)
                    c["oracle"][i] = "fail"
                    res.append(c)
        if case["oracle"]:
            c = clone(case)
            c["oracle"] = case["oracle"][:-1]
            res.append(c)
            c = clone(case)
            c["oracle"] = case["oracle"][1:]
            res.append(c)
        if case["sched"]:
            c = clone(case)
            c["sched"] = []
            res.append(c)
        if case["trip"]:
            c = clone(case)
            c["trip"] = False
            res.append(c)
        for i, cn in enumerate(case["conns"]):
            if cn["kind"] != "db" or cn["accept"]:
                c = clone(case)
                c["conns"][i] = {"kind": "db", "accept": 0}
                res.append(c)
        return res[:300]

    def describe_failure(self, case, obs):
        bad = []
        for t, o in enumerate(obs["threads"]):
            tr = [e[2:] for e in obs["log"] if e[0] == t]
            bad.append("tx%d: driver %s, body %s, returned %s" % (
                t, tr, o["body"], "panic" if o["did_panic"] else "never" if o["finished"] and not o["returned"]
                else repr(o["err"].get("text") or None)))
            if o["did_panic"] and o.get("panicked"):
                bad.append("tx%d: %s" % (t, o["panicked"][:200]))
            if o.get("nest_runs"):
                bad.append("tx%d: the body handed to a Transact on the transaction's OWN session ran %d time(s) (no transaction "
                           "was begun for it)" % (t, o["nest_runs"]))
        return ("; ".join(bad) + ": some transaction did not end exactly once with commit-iff-nil on its own "
                "connection, or the outcome was not reported")


PROPERTY = C14()
