"""C14 — SQL transactions end exactly once: commit iff the body succeeded."""
import vlib
from runner import Property, ExecError
from vlib import cz, clist, cbool

APIS = ["ctx", "plain", "cached", "cachedplain"]
RES = {"ok": "SOk", "fail": "SFail", "ctx": "SCtx"}
ONFAIL = {"stop": "FStop", "ignore": "FIgnore", "panic": "FPanic"}
FIN = {"nil": "RNil", "err": "RErr", "panic": "RPanic"}


def enumerate_placements(max_len):
    """Every body of 0..max_len statements with at most one failing statement, at every
    position, failing in the driver or by cancelled context, with every reaction of the
    body (return it / ignore it / panic), every way the body ends, and every combination
    of begin / commit / rollback faults."""
    cases = []
    for length in range(max_len + 1):
        placements = [None] + [(j, r, f) for j in range(length) for r in ("fail", "ctx")
                               for f in ("stop", "ignore", "panic")]
        for pl in placements:
            stmts = [{"res": "ok", "onfail": "stop"} for _ in range(length)]
            if pl:
                stmts[pl[0]] = {"res": pl[1], "onfail": pl[2]}
            for fin in ("nil", "err", "panic"):
                for begin_ok in (True, False):
                    for commit_ok in (True, False):
                        for rollback_ok in (True, False):
                            cases.append({"api": APIS[len(cases) % len(APIS)], "trip": False,
                                          "begin_ok": begin_ok, "stmts": [dict(s) for s in stmts],
                                          "fin": fin, "commit_ok": commit_ok, "rollback_ok": rollback_ok})
    return cases


def enumerate_ctx_placements(max_len):
    """TransactCtx with a context that is already cancelled, or that the body cancels just before its
    k-th statement (k = 0..len; len = after the last one), for every body of 0..max_len statements with at
    most one driver-failing statement, every reaction, every ending, commit / rollback ok or failing."""
    cases = []
    for length in range(max_len + 1):
        placements = [None] + [(j, f) for j in range(length) for f in ("stop", "ignore", "panic")]
        for pl in placements:
            for react in ("stop", "ignore"):
                stmts = [{"res": "ok", "onfail": react} for _ in range(length)]
                if pl:
                    stmts[pl[0]] = {"res": "fail", "onfail": pl[1]}
                for fin in ("nil", "err", "panic"):
                    for ctx in [("dead", 0)] + [("at", k) for k in range(length + 1)]:
                        for commit_ok in (True, False):
                            for rollback_ok in (True, False):
                                cases.append({"api": ("ctx", "cached")[len(cases) % 2], "trip": False,
                                              "begin_ok": True, "stmts": [dict(x) for x in stmts], "fin": fin,
                                              "commit_ok": commit_ok, "rollback_ok": rollback_ok,
                                              "ctx": ctx[0], "ctx_at": ctx[1]})
    return cases


def ctx_term(case):
    c = case.get("ctx") or "live"
    if c == "dead":
        return "CDead"
    if c == "at":
        return "(CAt %d)" % case.get("ctx_at", 0)
    return "CLive"


class C14(Property):
    id = "C14"
    title = "SQL transactions end exactly once: commit iff the body succeeded"
    quick_cases = 300
    thorough_cases = 8000
    design_ref = "DESIGN.md §6/C14"
    level_text = ("Unbounded Rocq theorems over the model of transact/transactOnConn (begin; defer {recover -> Rollback; "
                  "err -> Rollback; else Commit}; body): for every body (any number of statements, any set of failing "
                  "statements, any reaction of the body to each failure, any ending nil/error/panic) and every begin / "
                  "commit / rollback / breaker outcome: one Begin; if it fails nothing else happens and the body is not "
                  "run; otherwise exactly one Commit-or-Rollback and it is the last driver call; Commit iff the body "
                  "returned nil; panic => Rollback and a non-nil error; nil is returned iff the Commit succeeded; a failed "
                  "Commit/Rollback is wrapped in the returned error. Tied to core/stores/sqlx by running the real "
                  "Transact/TransactCtx (and sqlc.CachedConn) over a logging, fault-injecting database/sql driver for an "
                  "exhaustive enumeration of single-fault placements (bodies of 0..4 statements) plus random long bodies.")
    level_note = ("Trusted: Coq kernel + vm_compute; hand-written model (database/sql is abstracted to 'each call reaches "
                  "the driver once and its error comes back unchanged', validated by the correspondence run); breaker "
                  "verdict is an observed input; runtime.Goexit inside the body and panics raised by the driver's own "
                  "Commit/Rollback are outside the property's quantifier and not modelled.")
    rule = ("cases: exhaustive enumeration of bodies with 0..4 statements x (no failing statement | statement j fails in the "
            "driver or by cancelled context, body returns it / ignores it / panics) x body ends nil/err/panic x begin, "
            "commit, rollback each ok/fail, rotated over Transact / TransactCtx / CachedConn.Transact(Ctx); plus breaker-"
            "tripped calls and random bodies of 5..40 statements with several faults. non-trivial = the transaction "
            "begins and at least one fault/err/panic is injected; distinct = canonical JSON hash of the case")
    trusted_base = [
        "model theories/C14/Model.v is hand-written; tie = correspondence run (harness/cmd/c14) through the public API",
        "database/sql (Go standard library) between go-zero and the fake driver is not modelled; its pass-through "
        "behaviour is what the correspondence run observes",
        "errors are compared through errors.Is / identity / message prefix facts",
    ]
    assumptions = ["the body is sequential and ends by returning nil, returning an error, or panicking (no runtime.Goexit)",
                   "driver Commit/Rollback return (possibly an error); they do not panic"]

    def prepare(self, ctx):
        ok, res = vlib.go_build("c14")
        self.bin = res if ok else None
        return ok, ("" if ok else res)

    def corpus(self):
        s = lambda r="ok", f="stop": {"res": r, "onfail": f}
        base = {"api": "ctx", "trip": False, "begin_ok": True, "stmts": [], "fin": "nil",
                "commit_ok": True, "rollback_ok": True}
        out = []
        for d in (
            {},                                                        # empty body commits
            {"fin": "panic"},                                          # panic, rollback ok
            {"fin": "panic", "rollback_ok": False},                    # panic, rollback fails
            {"stmts": [s(), s("fail")], "rollback_ok": False},         # statement error + rollback failure
            {"stmts": [s("fail", "ignore")], "commit_ok": False},      # ignored failure, commit fails
            {"begin_ok": False, "stmts": [s()]},
            {"trip": True, "stmts": [s()]},
            {"trip": True, "api": "cached", "fin": "panic"},
            {"trip": True, "api": "plain", "begin_ok": False},
            {"ctx": "dead", "stmts": [s()]},                                        # cancelled before the call
            {"ctx": "at", "ctx_at": 1, "stmts": [s(), s(), s()]},                   # cancelled mid-body -> rollback
            {"ctx": "at", "ctx_at": 1, "stmts": [s("ok", "ignore"), s("ok", "ignore")]},   # ... swallowed -> commit
            {"ctx": "at", "ctx_at": 2, "api": "cached", "stmts": [s(), s()], "commit_ok": False},  # after the last one
        ):
            c = dict(base)
            c.update(d)
            out.append(c)
        return out

    def gen(self, rng, n, tier):
        cases = enumerate_placements(5 if tier == "thorough" else 4)
        cases += enumerate_ctx_placements(3 if tier == "thorough" else 2)
        for _ in range(n):
            length = rng.randint(5, 40) if rng.random() < 0.8 else rng.randint(0, 6)
            pfault = rng.choice([0.0, 0.05, 0.15, 0.4])
            stmts = []
            for _ in range(length):
                if rng.random() < pfault:
                    stmts.append({"res": rng.choice(["fail", "ctx"]),
                                  "onfail": rng.choice(["stop", "ignore", "ignore", "ignore", "panic"])})
                else:
                    stmts.append({"res": "ok", "onfail": rng.choice(["stop", "ignore", "panic"])})
            api = rng.choice(APIS)
            ctx, ctx_at = "live", 0
            if api in ("ctx", "cached") and rng.random() < 0.3:
                ctx, ctx_at = rng.choice([("dead", 0), ("at", rng.randint(0, length)), ("at", rng.randint(0, length))])
            cases.append({"api": api, "trip": rng.random() < 0.03, "ctx": ctx, "ctx_at": ctx_at,
                          "begin_ok": rng.random() < 0.9, "stmts": stmts,
                          "fin": rng.choice(["nil", "nil", "err", "panic"]),
                          "commit_ok": rng.random() < 0.6, "rollback_ok": rng.random() < 0.6})
        return cases

    def execute(self, cases, ctx):
        rc, out, res = vlib.go_run(self.bin, cases, tag="c14", timeout=600)
        if rc != 0 or len(res) != len(cases):
            raise ExecError("c14 executor rc=%s: %s" % (rc, out[-2000:]))
        for r in res:
            if r.get("fail"):
                raise ExecError("c14 executor: case %s: %s" % (r.get("id"), r["fail"]))
        return res

    # ---- rendering ---------------------------------------------------------
    def _log(self, log):
        items = []
        for e in log:
            if e[0] == "begin":
                items.append("(CBegin, %s)" % cbool(e[1]))
            elif e[0] == "exec":
                items.append("(CExec %s, %s)" % (cz(e[1]), cbool(e[2])))
            elif e[0] == "commit":
                items.append("(CCommit, %s)" % cbool(e[1]))
            else:
                items.append("(CRollback, %s)" % cbool(e[1]))
        return clist(items)

    def _body(self, b):
        k = b[0]
        if k in ("none", "running"):
            # "running": the body was entered but never recorded how it left
            return "None"
        if k == "nil":
            return "(Some BNil)"
        if k == "user":
            return "(Some (BErr BUser))"
        if k == "stmt":
            return "(Some (BErr (BStmt %s)))" % cz(b[1])
        if k == "ctx":
            return "(Some (BErr (BCtx %s)))" % cz(b[1])
        return "(Some BPanic)"

    def coq_case(self, case, obs):
        stmts = clist(["mkStmt %s %s" % (RES[s["res"]], ONFAIL[s["onfail"]]) for s in case["stmts"]])
        inp = "(mkInput %s %s %s %s %s %s %s)" % (cbool(not obs["rejected"]), cbool(case["begin_ok"]), stmts,
                                                  FIN[case["fin"]], cbool(case["commit_ok"]), cbool(case["rollback_ok"]),
                                                  ctx_term(case))
        e = obs["err"]
        # an error that escaped as a panic of Transact itself is "not nil" but matches no class
        eo = "(mkE %s)" % " ".join(cbool(e[k] and not obs.get("panicked")) if k == "nil" else cbool(e[k]) for k in
                                   ("nil", "unavail", "begin", "commit", "rollback", "same_as_body", "recover", "txfailed", "canceled"))
        return "mkCase %s %s %s %s %s %s" % (inp, self._log(obs["log"]), cz(obs["runs"]), self._body(obs["body"]),
                                             eo, cz(obs["inuse"]))

    # ---- evidence ------------------------------------------------------------
    def nontrivial(self, case, obs):
        if not case["begin_ok"] or obs["rejected"]:
            return False
        return (any(s["res"] != "ok" for s in case["stmts"]) or case["fin"] != "nil"
                or any(e[0] in ("commit", "rollback") and not e[-1] for e in obs["log"]))

    def features(self, case, obs):
        n = len(case["stmts"])
        fs = ["api=" + case["api"], "fin=" + case["fin"],
              "len=%s" % (n if n <= 5 else "6-20" if n <= 20 else "21+"),
              "body=" + str(obs["body"][0])]
        fs.append("ctx=" + (case.get("ctx") or "live"))
        if not case["begin_ok"]:
            fs.append("begin_fails")
        if obs["rejected"]:
            fs.append("breaker_rejected")
        for e in obs["log"]:
            if e[0] in ("commit", "rollback"):
                fs.append("%s_%s" % (e[0], "ok" if e[-1] else "fails"))
        nf = sum(1 for s in case["stmts"] if s["res"] != "ok")
        fs.append("stmt_faults=%s" % (nf if nf < 3 else "3+"))
        return fs

    def shrink_candidates(self, case):
        res = []
        st = case["stmts"]
        for i in range(len(st)):
            c = dict(case)
            c["stmts"] = st[:i] + st[i + 1:]
            if c.get("ctx") == "at":
                c["ctx_at"] = min(c.get("ctx_at", 0), len(c["stmts"]))
            res.append(c)
        if len(st) > 4:
            for cut in (len(st) // 2, len(st) // 4):
                for part in (st[:cut], st[cut:]):
                    c = dict(case)
                    c["stmts"] = part
                    if c.get("ctx") == "at":
                        c["ctx_at"] = min(c.get("ctx_at", 0), len(part))
                    res.append(c)
        for i, s in enumerate(st):
            if s["res"] != "ok":
                c = dict(case)
                c["stmts"] = [dict(x) for x in st]
                c["stmts"][i] = {"res": "ok", "onfail": "stop"}
                res.append(c)
        for k, v in (("trip", False), ("begin_ok", True), ("commit_ok", True), ("rollback_ok", True),
                     ("fin", "nil"), ("api", "ctx"), ("ctx", "live")):
            if case.get(k, v) != v:
                c = dict(case)
                c[k] = v
                res.append(c)
        return res[:200]

    def describe_failure(self, case, obs):
        return ("driver log %s, body %s, returned error %r: the transaction did not end exactly once with "
                "commit-iff-nil, or the outcome was not reported" % (obs["log"], obs["body"], obs["err"].get("text") or None))


PROPERTY = C14()
