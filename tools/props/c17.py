"""C17 — configuration loading is format-independent and agrees with encoding/json."""
import concurrent.futures
import copy
import json
import os
import re
from decimal import Decimal

import vlib
from runner import Property, ExecError
from vlib import cz, clist, cbool, cstr, copt

INT_KINDS = ["int", "int8", "int16", "int32", "int64"]
UINT_KINDS = ["uint", "uint8", "uint16", "uint32", "uint64"]
FLOAT_KINDS = ["float32", "float64"]
CK = {"bool": "KBool", "float32": "KF32", "float64": "KF64", "string": "KStr",
      "int": "(KInt W0)", "int8": "(KInt W8)", "int16": "(KInt W16)", "int32": "(KInt W32)", "int64": "(KInt W64)",
      "uint": "(KUint W0)", "uint8": "(KUint W8)", "uint16": "(KUint W16)", "uint32": "(KUint W32)",
      "uint64": "(KUint W64)"}
BITS = {"int": 64, "int8": 8, "int16": 16, "int32": 32, "int64": 64,
        "uint": 64, "uint8": 8, "uint16": 16, "uint32": 32, "uint64": 64}

OVERLAY = {"internal/encoding/verif_c17_test.go": vlib.ROOT + "/harness/overlay/encoding/verif_c17_test.go"}

# known findings (ids as proposed for KNOWN_FINDINGS.jsonl)
K_F8A = "F8a-float-literal-into-int-field"
K_EMB = "F8b-embedded-struct-with-name-tag"
K_DUP = "F8b-case-variant-duplicate-keys"
K_ELEM = "F8c-float-literal-into-string-or-bool-element"
K_MAP = "F8d-absent-map-field-empty-vs-nil"
K_NULLS = "F8e-slice-of-only-nulls-nil-vs-zeros"
K_PTR = "F8f-absent-pointer-to-empty-struct"       # proposed (notes/C17.md); the witness runs in extra() until it is registered


# ---------------------------------------------------------------------------- constructors

def P(k):
    return {"k": k}


def Ptr(e):
    return {"k": "ptr", "e": e}


def Sl(e):
    return {"k": "slice", "e": e}


def Mp(e):
    return {"k": "map", "e": e}


def St(*fs):
    return {"k": "struct", "f": list(fs)}


def Arr(n, e):
    return {"k": "arr", "n": n, "e": e}


def Nm(name):
    return {"k": "named", "name": name}


def F(key, t, o=None):
    return {"key": key, "t": t, "o": o}


def E(fs, tag=None, eopt=False, eptr=False, name=None):
    """an anonymous struct field; name: one of the declared struct types of harness/c17t instead of fs"""
    if name is not None:
        fs = NAMED[name]["f"]
    return {"emb": True, "tag": tag, "f": list(fs), "eopt": eopt, "eptr": eptr, "name": name or ""}


def ET(name):
    """an anonymous field of a declared NON-struct type (harness/c17t: C17<name>)"""
    return {"embt": True, "key": "C17" + name, "t": Nm(name), "o": None}


def R(s):
    l, r = s[1:-1].split(":")
    return {"li": s[0] == "[", "l": l or None, "r": r or None, "ri": s[-1] == "]"}


def O(**kw):
    o = {"opt": False, "dep": None, "neg": False, "def": None, "range": None, "options": None, "str": False,
         "env": None, "inherit": False}
    o.update(kw)
    return o


# the types declared in harness/c17t/types.go, by structure (every case that uses one is checked
# against reflect's view of the built type: `tdesc`)
NAMED = {
    "Node": St(F("Host", P("string")), F("maxConn", P("int")), F("tags", Sl(P("string")), O(opt=True))),
    "Inner": St(F("logLevel", P("string"), O(**{"def": "info"})), F("Port", P("int"))),
    "MyInt": P("int"), "MyU8": P("uint8"), "MyStr": P("string"), "MyF64": P("float64"), "MyBool": P("bool"),
    "Alias": P("int64"),
    "Level": P("int"),                                        # implements encoding.TextUnmarshaler
    "Endpoint": St(F("Host", P("string")), F("Port", P("int"))),   # *Endpoint implements json.Unmarshaler
}
NAMED["Nodes"] = Sl(Ptr(Nm("Node")))
NAMED["NodeMap"] = Mp(Nm("Node"))
NAMED["NodePtr"] = Ptr(Nm("Node"))
NAMED["Pair"] = Arr(2, Nm("Node"))
NAMED["MapClash"] = St(F("c17nodemap", P("string")), ET("NodeMap"))
WIDE_LEAVES = ("dur", "num", "any", "bytes")


def unname(t):
    """the structure of a type, declared names expanded"""
    while t["k"] == "named":
        t = NAMED[t["name"]]
    return t


def deref(t):
    t = unname(t)
    while t["k"] == "ptr":
        t = unname(t["e"])
    return t


def render_tag(f):
    segs = [f["key"]]
    o = f.get("o")
    if o:
        if o["opt"]:
            segs.append(("optional=" + ("!" if o["neg"] else "") + o["dep"]) if o["dep"] is not None else "optional")
        if o["def"] is not None:
            segs.append("default=" + o["def"])
        if o["range"] is not None:
            r = o["range"]
            segs.append("range=%s%s:%s%s" % ("[" if r["li"] else "(", r["l"] or "", r["r"] or "", "]" if r["ri"] else ")"))
        if o["options"]:
            segs.append("options=" + "|".join(o["options"]))
        if o["str"]:
            segs.append("string")
        if o.get("env"):
            segs.append("env=" + o["env"])
        if o.get("inherit"):
            segs.append("inherit")
    return ",".join(segs)


def gq(s):
    """strconv.Quote for the ASCII tags used here"""
    return json.dumps(s)


def describe(t):
    """what harness/c17t C17Describe prints for the built reflect.Type"""
    t = unname(t)
    k = t["k"]
    if k == "ptr":
        return "*" + describe(t["e"])
    if k == "slice":
        return "[]" + describe(t["e"])
    if k == "arr":
        return "[%d]%s" % (t["n"], describe(t["e"]))
    if k == "map":
        return "map[string]" + describe(t["e"])
    if k == "struct":
        return describe_fields(t["f"])
    return k


def describe_fields(fs):
    parts = []
    for f in fs:
        if f.get("emb"):
            tag = (f.get("tag") or "") + (",optional" if f.get("eopt") else "")
            if f.get("name"):
                # a declared struct type keeps its own tags (NAMED: keys as conf sees them)
                pass
            parts.append("embed %s %s%s" % (gq(tag), "*" if f.get("eptr") else "", describe_fields(f["f"])))
        elif f.get("embt"):
            parts.append("embed %s %s" % (gq(""), describe(f["t"])))
        else:
            parts.append("%s %s" % (gq(render_tag(f)), describe(f["t"])))
    return "struct{" + "; ".join(parts) + "}"


NULL = {"null": 1}


def di(n):
    return {"i": str(n)}


def dfl(s):
    return {"fl": s}


def ds(s):
    return {"s": s}


def db(b):
    return {"b": bool(b)}


def dl(*xs):
    return {"l": list(xs)}


def dm(*pairs):
    return {"m": [{"k": k, "v": v} for k, v in pairs]}


# ---------------------------------------------------------------------------- Coq rendering

def cdec(text):
    d = Decimal(text)
    sign, digits, exp = d.as_tuple()
    m = int("".join(map(str, digits)) or "0")
    if sign:
        m = -m
    return "(mkDec %s %s)" % (cz(m), cz(exp))


def crange(r):
    if r is None:
        return "None"
    return "(Some (mkRange %s %s %s %s))" % (cbool(r["li"]), copt(cdec(r["l"]) if r["l"] is not None else None),
                                             copt(cdec(r["r"]) if r["r"] is not None else None), cbool(r["ri"]))


def copts(o):
    if o is None:
        return "None"
    dep = "None" if o["dep"] is None else "(Some (%s, %s))" % (cbool(o["neg"]), cstr(o["dep"]))
    return "(Some (mkOpts %s %s %s %s %s %s))" % (
        cbool(o["opt"]), dep, copt(cstr(o["def"]) if o["def"] is not None else None), crange(o["range"]),
        clist([cstr(x) for x in (o["options"] or [])]), cbool(o["str"]))


def ctype(t):
    k = t["k"]
    if k == "ptr":
        return "(TPtr %s)" % ctype(t["e"])
    if k == "slice":
        return "(TSlice %s)" % ctype(t["e"])
    if k == "map":
        return "(TMap %s)" % ctype(t["e"])
    if k == "struct":
        return "(TStruct %s)" % cfields(t["f"])
    return "(TPrim %s)" % CK[k]


def cfields(fs):
    """C08's `fields` (embedded structs as FEmbed, their tag name dropped: mapping and conf ignore it)"""
    s = "FNil"
    for f in reversed(fs):
        if f.get("emb"):
            s = "(FEmbed %s %s %s %s)" % (cbool(f.get("eopt", False)), cbool(f.get("eptr", False)), cfields(f["f"]), s)
        else:
            s = "(FCons %s %s %s %s)" % (cstr(f["key"]), copts(f["o"]), ctype(f["t"]), s)
    return s


def ccfields(fs):
    """C17's `cfields` (embedded structs keep their name tag), for the comparison with encoding/json"""
    s = "CNil"
    for f in reversed(fs):
        if f.get("emb"):
            s = "(CEmbed %s %s %s)" % (copt(cstr(f["tag"]) if f.get("tag") is not None else None), ccfields(f["f"]), s)
        else:
            s = "(CNamed %s %s %s %s)" % (cstr(f["key"]), copts(f["o"]), ctype(f["t"]), s)
    return s


def cdoc(d):
    if "null" in d:
        return "DNull"
    if "b" in d:
        return "(DBool %s)" % cbool(d["b"])
    if "i" in d:
        return "(DInt %s)" % cz(int(d["i"]))
    if "fl" in d:
        return "(DFloat %s)" % cstr(d["fl"])
    if "s" in d:
        return "(DStr %s)" % cstr(d["s"])
    if "l" in d:
        s = "DLnil"
        for e in reversed(d["l"]):
            s = "(DLcons %s %s)" % (cdoc(e), s)
        return "(DList %s)" % s
    if "m" in d:
        s = "DMnil"
        for kv in reversed(d["m"]):
            s = "(DMcons %s %s %s)" % (cstr(kv["k"]), cdoc(kv["v"]), s)
        return "(DMap %s)" % s
    raise ValueError("bad doc node %r" % (d,))


def cfloat(txt):
    if txt == "NaN":
        return "FNaN"
    if txt == "+Inf":
        return "(FInf false)"
    if txt == "-Inf":
        return "(FInf true)"
    return "(FDec %s)" % cdec(txt)


def cval(v):
    if "b" in v:
        return "(VBool %s)" % cbool(v["b"])
    if "i" in v:
        return "(VInt %s)" % cz(int(v["i"]))
    if "f" in v:
        return "(VFloat %s)" % cfloat(v["f"])
    if "s" in v:
        return "(VStr %s)" % cstr(v["s"])
    if "z" in v:
        return "VNil"
    if "p" in v:
        return "(VPtr %s)" % cval(v["p"])
    if "l" in v:
        return "(VSlice %s)" % clist([cval(e) for e in v["l"]])
    if "m" in v:
        return "(VMap %s)" % clist(["(%s, %s)" % (cstr(k), cval(e)) for k, e in v["m"]])
    if "st" in v:
        return "(VStruct %s)" % clist([cval(e) for e in v["st"]])
    raise ValueError("bad value dump %r" % (v,))


# Within one case the same decoded value / tree occurs dozens of times (three formats, eight extensions, MustLoad,
# wrappers ...).  Coq's front end is what a case costs (string literals), so every distinct sub-term longer than a
# few characters is bound ONCE by a `let` in front of the case term (coq_case) and referred to by name.
_LET = None


def let_bound(text):
    if _LET is None or len(text) < 24:
        return text
    name = _LET.get(text)
    if name is None:
        name = "sh%d" % len(_LET)
        _LET[text] = name
    return name


def with_lets(render):
    global _LET
    _LET = {}
    try:
        body = render()
        lets = "".join("let %s := %s in " % (name, text) for text, name in _LET.items())
    finally:
        _LET = None
    return lets + body


def cob(r):
    if r is None:
        return "OErr"
    if r["verdict"] == "ok":
        return let_bound("(OOk %s)" % cval(r["val"]))
    if r["verdict"] == "panic":
        return "OPanic"
    if r["verdict"] == "shared":
        return "OShared"
    return "OErr"


def cob3(m):
    return "(mkOb3 %s %s %s)" % (cob(m.get("json")), cob(m.get("yaml")), cob(m.get("toml")))


class Num(str):
    pass


def parse_mid(text):
    return json.loads(text, parse_int=Num, parse_float=Num)


def cjv(x):
    if x is None:
        return "JNull"
    if isinstance(x, bool):
        return "(JBool %s)" % cbool(x)
    if isinstance(x, Num):
        return "(JNum %s)" % cstr(str(x))
    if isinstance(x, str):
        return "(JStr %s)" % cstr(x)
    if isinstance(x, list):
        return "(JArr %s)" % clist([cjv(e) for e in x])
    if isinstance(x, dict):
        return "(JObj %s)" % clist(["(%s, %s)" % (cstr(k), cjv(v)) for k, v in x.items()])
    raise ValueError("bad mid value %r" % (x,))


def cmid(m):
    if m is None or not m.get("ok"):
        return "None"
    try:
        return let_bound("(Some %s)" % cjv(parse_mid(m["json"])))
    except ValueError:
        return "None"


def cmid3(m):
    return "(mkMid3 %s %s %s)" % (cmid(m.get("json")), cmid(m.get("yaml")), cmid(m.get("toml")))


# ---------------------------------------------------------------------------- shape detectors (known findings)

def is_integral_lit(s):
    try:
        d = Decimal(s)
    except Exception:
        return False
    return d == d.to_integral_value()


def int_fits(kind, s):
    v = int(Decimal(s))
    b = BITS[kind]
    return (0 <= v < 2 ** b) if kind in UINT_KINDS else (-2 ** (b - 1) <= v < 2 ** (b - 1))


def walk_positions(fields, doc, fold, visit):
    """Visit (kind, is_element, docnode) for every scalar position the loaders address.
    fold: keys are matched case-insensitively (conf) — else exactly (mapping)."""
    if "m" not in doc:
        return

    def find(key):
        res = []
        for kv in doc["m"]:
            if kv["k"] == key or (fold and kv["k"].lower() == key.lower()):
                res.append(kv["v"])
        return res

    for f in fields:
        if f.get("emb"):
            walk_positions(f["f"], doc, fold, visit)
            continue
        for v in find(f["key"]):
            walk_value(f["t"], v, False, fold, visit)


def walk_value(t, v, elem, fold, visit):
    t = deref(t)
    k = t["k"]
    if k == "struct":
        walk_positions(t["f"], v, fold, visit)
    elif k == "slice":
        for e in v.get("l", []):
            walk_value(t["e"], e, True, fold, visit)
    elif k == "map":
        for kv in v.get("m", []):
            walk_value(t["e"], kv["v"], True, fold, visit)
    else:
        visit(k, elem, v)


def detect_shapes(case):
    """ids of the known-finding shapes present in the case"""
    shapes = set()
    fold = case["kind"] == "load"

    def visit(kind, elem, v):
        if "fl" in v:
            if (kind in INT_KINDS or kind in UINT_KINDS) and is_integral_lit(v["fl"]) and int_fits(kind, v["fl"]):
                shapes.add(K_F8A)      # Hyps.float_at_field: integral AND in the kind's range (else every format rejects)
            if elem and kind in ("string", "bool"):
                shapes.add(K_ELEM)

    for d in [case["doc"]] + ([case["doc2"]] if case.get("doc2") else []):
        walk_positions(case["type"], d, fold, visit)
    if case["kind"] == "std":
        if has_tagged_embed(case["type"]):
            shapes.add(K_EMB)
        std_shapes(case["type"], case["doc"], shapes)
    return shapes


def has_tagged_embed(fields):
    for f in fields:
        if f.get("emb"):
            if f.get("tag") is not None or has_tagged_embed(f["f"]):
                return True
        elif has_tagged_embed_t(f["t"]):
            return True
    return False


def has_tagged_embed_t(t):
    if t["k"] == "struct":
        return has_tagged_embed(t["f"])
    if t["k"] in ("ptr", "slice", "map"):
        return has_tagged_embed_t(t["e"])
    return False


def flat_fields(fields):
    for f in fields:
        if f.get("emb"):
            yield from flat_fields(f["f"])
        else:
            yield f


def has_map(t):
    t = deref(t)
    if t["k"] == "map":
        return True
    if t["k"] == "struct":
        return any(has_map(f["t"]) for f in flat_fields(t["f"]))
    return False


def std_shapes(fields, doc, shapes):
    """mapping vs encoding/json: case-variant keys, absent map-typed fields, all-null arrays"""
    if "m" not in doc:
        return
    keys = [kv["k"] for kv in doc["m"]]
    fkeys = [f["key"] for f in flat_fields(fields)]
    for k in keys:
        if k not in fkeys and any(k.lower() == fk.lower() for fk in fkeys):
            shapes.add(K_DUP)
    for f in flat_fields(fields):
        vs = [kv["v"] for kv in doc["m"] if kv["k"] == f["key"]]
        if not vs:
            if has_map(f["t"]):
                shapes.add(K_MAP)
            if f["t"]["k"] == "ptr" and deref(f["t"])["k"] == "struct" and not deref(f["t"])["f"]:
                shapes.add(K_PTR)
            continue
        std_shapes_v(f["t"], vs[-1], shapes)


def std_shapes_v(t, v, shapes):
    t = deref(t)
    if t["k"] == "struct":
        std_shapes(t["f"], v, shapes)
    elif t["k"] == "slice":
        l = v.get("l")
        if l and all("null" in e for e in l):
            shapes.add(K_NULLS)
        for e in l or []:
            std_shapes_v(t["e"], e, shapes)
    elif t["k"] == "map":
        for kv in v.get("m", []):
            std_shapes_v(t["e"], kv["v"], shapes)


# ---------------------------------------------------------------------------- pending fix: nested map layers in conf.buildFieldsInfo

FIX_ID = "F19-nested-map-field-info"
FIX_ANON = "F20-anonymous-slice-field-info"       # buildAnonymousFieldInfo: anonymous slice-typed field
FIX_DUR = "F21-duration-from-number-panic"        # a number for a time.Duration field panicked
FIX_MBOOL = "F22-map-of-declared-bool-panic"      # map[string]MyBool panicked in SetMapIndex


def fix_landed(fid=FIX_ID):
    """the shapes on which a repaired defect shows are generated only once the repair is registered
    (kind:"fixed" line in KNOWN_FINDINGS.jsonl); from then on reverting it is a VIOLATION"""
    if os.environ.get("VERIF_C17_FIX") in ("0", "1"):      # testing aid (mutation self-test of the pending repair)
        return os.environ["VERIF_C17_FIX"] == "1"
    return any(e.get("property") == "C17" and e.get("kind") == "fixed" and e.get("id") == fid for e in vlib.load_known())


def all_keys(d, acc):
    if "m" in d:
        for kv in d["m"]:
            acc.add(kv["k"].lower())
            all_keys(kv["v"], acc)
    elif "l" in d:
        for e in d["l"]:
            all_keys(e, acc)
    return acc


def nested_map_shape(case):
    """the (type, document) shapes on which the pinned buildFieldsInfo (no layer for a map nested in
    another container) differs from the repaired one: below the top container of a field, a map
    directly followed by a slice on the way to a struct; or a key spelled like a field of that struct"""
    keys = set()
    for d in [case["doc"]] + ([case["doc2"]] if case.get("doc2") else []):
        all_keys(d, keys)

    has_empty = any('"l": []' in json.dumps(d) for d in [case["doc"]] + ([case["doc2"]] if case.get("doc2") else []))

    def chk_fields(fields):
        for f in flat_fields(fields):
            ch = []
            t = deref(f["t"])
            while t["k"] in ("slice", "map"):
                ch.append(t["k"])
                t = deref(t["e"])
            if any(c == "map" for c in ch[1:]) and "slice" in ch[ch.index("map", 1):] and has_empty:
                return True        # an empty array below a nested map: [] (pinned: left alone) vs nil (lower-cased copy)
            if t["k"] != "struct":
                continue
            if any(c == "map" for c in ch[1:]):
                if any(ch[i] == "map" and i + 1 < len(ch) and ch[i + 1] == "slice" for i in range(1, len(ch))):
                    return True
                if any(x["key"].lower() in keys for x in flat_fields(t["f"])):
                    return True
            if chk_fields(t["f"]):
                return True
        return False

    return case["kind"] == "load" and chk_fields(case["type"])


# ---------------------------------------------------------------------------- generation

KEY_POOL = ["Name", "port", "LogLevel", "maxConns", "Timeout", "a", "B", "c1", "DB", "Redis", "items", "Tags",
            "Meta", "Host", "user_id", "X", "rate", "Mode", "etcd", "Key9"]
MAP_KEYS = ["x", "Y", "Zed", "k 1", "a.b", "Name", "port", "UPPER", "1", "true", "null", "yes", "", "~", " lead", "trail ",
            "1.0", "a: b", "#h", "Ünï"]
STRINGS = ["", "x", "hello world", "yes", "no", "on", "null", "~", "true", "1.0", "123", "-7", "0x10", "1_000", "1e3",
           "a: b", "#x", " lead", "trail ", "it's", "x\"y", "key=val", "[1,2]", "{a}", "2001-01-01", "12:30", "- a",
           "? q", "@at", "`bt", "%p", "!bang", "&anch", "*star", "|pipe", ">gt", "C:\\path", "a,b", "ünï", "日本",
           "multi\nline", "tab\there", "dev", "test", "prod", ".5", "+1", "0o7", "NaN", ".inf", "y", "N"]
ENV_STRINGS = ["${C17_A}", "$C17_B", "pre-${C17_A}-post", "http://$C17_B/x", "${C17_UNSET}", "$C17_A$C17_B", "cost 5$",
               "${C17_A}${C17_UNSET}",
               # os.Expand's other forms: special one-character variables ($$, $1, $?, $-, $*, $#, $@, $!), "${}" (eaten)
               "a$$b", "p$1x", "q$?r", "${}z", "x$-", "m$*n", "100%$#", "u$@v", "w$!", "${1}k", "$C17_A.$C17_B", "${C17_A}_${C17_B}"]
ENV_VALUES = ["valueA", "b-2.x/y", "Zz_9", "srv.local:8080x", "w", ""]
ENV_MAP_KEYS = ["$C17_A", "${C17_B}k", "pre$C17_A", "${C17_UNSET}u"]      # os.ExpandEnv works on the text: keys too
PROP_VALUES = ["plain", "${C17_A}", "$C17_B", "pre-${C17_A}-post", "http://$C17_B/x", "${C17_UNSET}", "$C17_A$C17_B", "cost 5$",
               "a b  c", "tcp(${C17_A}:3306)/db",
               # a value is expanded on its own: also the unterminated forms
               "a$$b", "p$1x", "q$?r", "${}z", "x$-", "x${", "${C17_A", "y${C17_A x", "$", "$ $C17_A", "{$C17_A}", "$${C17_A}"]
PROP_KEYS = ["k1", "db.url", "k$C17_A", "Mixed.Key", "${C17_B}"]
FLOATS = ["1.5", "0.25", "-3.75", "2.5e3", "1e-7", "2.5e21", "123456.789", "0.1", "-0.000123", "1.50", "3.14159265358979",
          "1.25e-10", "6.02e23", "0.5", "99.99", "1e-3", "12.0e-1", "7.0e-1"]
INT_FLOATS = ["1.0", "2e2", "-4.0", "1e19", "0.0", "1.5e1"]


def recase(k, rng):
    r = rng.random()
    if r < 0.3:
        return k.upper()
    if r < 0.6:
        return k.lower()
    if r < 0.9:
        return k.swapcase()
    return "".join(c.upper() if rng.random() < 0.5 else c.lower() for c in k)


class Gen:
    def __init__(self, rng, tier):
        self.rng = rng
        self.tier = tier
        self.maxdepth = 2 if tier == "quick" else 3

    # ---- types
    def prim(self):
        return self.rng.choice(["int", "int", "string", "string", "bool", "float64", "float64", "int64", "int8", "uint16",
                                "uint32", "uint64", "float32", "int32", "uint", "uint8", "int16"])

    def gen_type(self, depth, plain):
        rng = self.rng
        r = rng.random()
        if depth >= 1 and rng.random() < 0.06:
            # multi-layer containers of structs (conf's "multi layer map" key lower-casing)
            st = St(*self.gen_fields(0, plain, rng.randint(1, 2), allow_embed=False))
            return rng.choice([Mp(Mp(st)), Sl(Mp(st)), Mp(Sl(st)), Mp(st), Sl(st),
                               Sl(Ptr(st)), Sl(Ptr(Ptr(st))), Mp(Ptr(st)), Mp(Sl(Ptr(st))), Sl(Sl(Ptr(st))), Ptr(Ptr(st)),
                               Mp(Mp(Ptr(st))), Sl(Mp(Ptr(Ptr(st))))])
        if depth <= 0 or r < 0.5:
            return P(self.prim())
        if r < 0.58:
            return Ptr(P(self.prim())) if rng.random() < 0.8 else Ptr(Ptr(P(self.prim())))
        if r < 0.72:
            e = self.gen_type(depth - 1, plain)
            if e["k"] == "uint8":
                e = P("int")
            if e["k"] == "ptr" and deref(e)["k"] in ("slice", "map"):
                e = deref(e)
            return Sl(e)
        if r < 0.84:
            e = self.gen_type(depth - 1, plain)
            if e["k"] == "ptr" and deref(e)["k"] in ("slice", "map"):
                e = deref(e)
            return Mp(e)
        if r < 0.95:
            return St(*self.gen_fields(depth - 1, plain, rng.randint(1, 3), allow_embed=False))
        return Ptr(St(*self.gen_fields(depth - 1, plain, rng.randint(1, 2), allow_embed=False)))

    def gen_opts(self, t, siblings, plain):
        rng = self.rng
        if plain or rng.random() < 0.45:
            return None
        o = O()
        k = deref(t)["k"]
        if rng.random() < 0.55:
            o["opt"] = True
            if siblings and rng.random() < 0.12:
                o["dep"] = rng.choice(siblings)
                o["neg"] = rng.random() < 0.3
        is_prim = k not in ("struct", "slice", "map")
        if is_prim and rng.random() < 0.25:
            if k == "bool":
                o["def"] = rng.choice(["true", "false"])
            elif k == "string":
                o["def"] = rng.choice(["dflt", "dev", "x"])
            elif k in FLOAT_KINDS:
                o["def"] = rng.choice(["1.5", "2", "0.25"])
            else:
                o["def"] = rng.choice(["1", "7", "100"])
        if (k in INT_KINDS or k in UINT_KINDS) and rng.random() < 0.2:
            o["range"] = R(rng.choice(["[0:100]", "(0:10]", "[1:)", "(:50)", "[5:5]"]))
            if o["def"] is not None:
                o["def"] = "5"
        if k in FLOAT_KINDS and rng.random() < 0.3:
            o["range"] = R(rng.choice(["[0:100]", "(0.25:2500]", "[1.5:)", "(:0.5)", "[1.5:1.5]", "[-4:1e-7]"]))
        if k == "string" and rng.random() < 0.2:
            o["options"] = ["dev", "test", "prod"]
            if o["def"] is not None:
                o["def"] = "dev"
        return o

    def gen_fields(self, depth, plain, n, allow_embed=True, used=None):
        rng = self.rng
        used = used if used is not None else set()
        fs = []
        for _ in range(n):
            if allow_embed and rng.random() < 0.15:
                inner = self.gen_fields(depth, plain, rng.randint(1, 2), allow_embed=rng.random() < 0.3, used=used)
                if inner:
                    eopt = (not plain) and rng.random() < 0.3
                    # an embedded struct nested in an optional one is never set: keep optional ones flat
                    if eopt and any(x.get("emb") for x in inner):
                        eopt = False
                    fs.append(E(inner, eopt=eopt, eptr=(not plain) and rng.random() < 0.25))
                continue
            cands = [k for k in KEY_POOL if k.lower() not in used]
            if not cands:
                break
            key = rng.choice(cands)
            used.add(key.lower())
            t = self.gen_type(depth, plain)
            sib = [f["key"] for f in fs if not f.get("emb")]
            fs.append(F(key, t, self.gen_opts(t, sib, plain)))
        return fs

    # ---- documents
    def int_for(self, kind):
        rng = self.rng
        b = BITS[kind]
        lo, hi = (0, 2 ** b - 1) if kind in UINT_KINDS else (-2 ** (b - 1), 2 ** (b - 1) - 1)
        hi = min(hi, 2 ** 63 - 1)
        r = rng.random()
        if r < 0.6:
            return rng.choice([0, 1, 5, 7, 42, 100]) if lo == 0 else rng.choice([0, 1, -1, 5, 7, 42, -100])
        if r < 0.8:
            return rng.choice([lo, hi])
        if r < 0.84 and b == 64:
            return rng.choice([2 ** 53 + 1, 2 ** 53 - 1, 2 ** 62 + 3] + ([-(2 ** 53) - 1] if lo < 0 else []))
        if r < 0.9:
            return max(-2 ** 63, min(2 ** 63 - 1, rng.choice([lo - 1, hi + 1])))
        return rng.randint(max(lo, -10 ** 6), min(hi, 10 ** 6))

    def scalar(self, kind, elem, with_env):
        rng = self.rng
        r = rng.random()
        if r < 0.07:   # wrong type on purpose
            alts = [ds("x"), db(True), di(3), dl(), dm()]
            if not (elem and kind in ("string", "bool")):
                alts.append(dfl("2.5"))
            return rng.choice(alts)
        if kind == "bool":
            return db(rng.random() < 0.5)
        if kind == "string":
            if with_env and rng.random() < 0.5:
                return ds(rng.choice(ENV_STRINGS))
            return ds(rng.choice(STRINGS))
        if kind in FLOAT_KINDS:
            if rng.random() < 0.25:
                return di(rng.choice([0, 1, -3, 1000, 65536]))
            pool = FLOATS + INT_FLOATS
            if kind == "float32":
                pool = ["1.5", "0.25", "-3.75", "2.5e3", "1e-7", "0.5", "99.99", "1.0", "2e2", "3.5e38", "1e39", "0.1"]
            return dfl(rng.choice(pool))
        if rng.random() < 0.04:
            return dfl(rng.choice(FLOATS))      # non-integral float into an integer: every format rejects
        return di(self.int_for(kind))

    def value(self, t, elem, with_env, std):
        rng = self.rng
        t0 = deref(t)
        k = t0["k"]
        if std and rng.random() < 0.04:
            return NULL
        if k == "struct":
            if rng.random() < 0.04:
                return rng.choice([ds("x"), dl(), di(1)])
            return self.obj(t0["f"], with_env, std)
        if k == "slice":
            if rng.random() < 0.04:
                return rng.choice([ds("x"), dm(), di(1)])
            n = rng.choice([0, 1, 1, 2, 3])
            xs = [self.value(t0["e"], True, with_env, std) for _ in range(n)]
            if std and xs and rng.random() < 0.1:
                xs[rng.randrange(len(xs))] = NULL
            return dl(*xs)
        if k == "map":
            if rng.random() < 0.04:
                return rng.choice([ds("x"), dl(), di(1)])
            n = rng.choice([0, 1, 2, 2])
            keys = rng.sample(MAP_KEYS, n)
            if with_env and keys and rng.random() < 0.4:
                keys[0] = rng.choice(ENV_MAP_KEYS)
            return dm(*[(kk, self.value(t0["e"], True, with_env, std)) for kk in keys])
        return self.scalar(k, elem, with_env)

    def obj(self, fields, with_env, std):
        rng = self.rng
        pairs = []
        for f in flat_fields(fields):
            o = f["o"]
            p = 0.93
            if o is not None and (o["opt"] or o["def"] is not None):
                p = 0.55
            if rng.random() < p:
                pairs.append((f["key"], self.value(f["t"], False, with_env, std)))
        if rng.random() < 0.15:
            pairs.append((rng.choice(["extra", "Unknown_1", "zz"]),
                          rng.choice([ds("v"), di(1), dl(di(1), dm(("Q", ds("r")))), dm(("In", dm(("K", db(True)))))])))
        rng.shuffle(pairs)
        return dm(*pairs)

    def recase_doc(self, fields, doc):
        """re-case exactly the keys that address struct fields"""
        if "m" not in doc:
            return doc
        fl = {f["key"].lower(): f for f in flat_fields(fields)}
        out = []
        for kv in doc["m"]:
            f = fl.get(kv["k"].lower())
            if f is None:
                out.append(kv)
            else:
                out.append({"k": recase(kv["k"], self.rng), "v": self.recase_value(f["t"], kv["v"])})
        return {"m": out}

    def recase_value(self, t, v):
        t = deref(t)
        if t["k"] == "struct":
            return self.recase_doc(t["f"], v)
        if t["k"] in ("slice", "arr") and "l" in v:
            return {"l": [self.recase_value(t["e"], e) for e in v["l"]]}
        if t["k"] == "map" and "m" in v:
            return {"m": [{"k": kv["k"], "v": self.recase_value(t["e"], kv["v"])} for kv in v["m"]]}
        return v

    def load_case(self):
        rng = self.rng
        depth = rng.choice([0, 1, 1, 2, self.maxdepth])
        fields = self.gen_fields(depth, False, rng.randint(1, 5))
        if not fields:
            fields = [F("a", P("int"))]
        if rng.random() < 0.04:     # a conflicting key (conf reports it for every document)
            k = rng.choice([f["key"] for f in flat_fields(fields)])
            fields.append(F(recase(k, rng), P("string")))
        with_env = rng.random() < 0.3
        doc = self.obj(fields, with_env, False)
        c = {"kind": "load", "type": fields, "doc": doc, "doc2": None, "env": None}
        if rng.random() < 0.6:
            c["doc2"] = self.recase_doc(fields, doc)
        if with_env:
            env = {"C17_A": rng.choice(ENV_VALUES)}
            if rng.random() < 0.7:
                env["C17_B"] = rng.choice(ENV_VALUES)
            if '"k": "$C17_A"' in json.dumps(doc) and env["C17_A"] == "":
                env["C17_A"] = "w"      # an unquoted YAML key must not expand to the empty text (no longer a key)
            c["env"] = env
            ks = rng.sample(PROP_KEYS, rng.randint(1, 4))
            c["props"] = [[k, rng.choice(PROP_VALUES)] for k in ks]
        return c

    # ---- aliasing: pointer-bearing containers with >= 2 DISTINCT values per container
    ALIAS_SHAPES = [
        lambda k: Mp(Ptr(k)), lambda k: Sl(Ptr(k)), lambda k: Mp(Ptr(Ptr(k))), lambda k: Mp(Mp(Ptr(k))),
        lambda k: Sl(St(F("M", Mp(Ptr(k))))), lambda k: Mp(Sl(Ptr(k))), lambda k: Sl(Ptr(Ptr(k))),
        lambda k: St(F("P", Ptr(k)), F("Q", Ptr(Ptr(k))), F("R", Ptr(k))), lambda k: Mp(St(F("In", Mp(Ptr(k))))),
        lambda k: Sl(Sl(Ptr(k))), lambda k: Mp(k), lambda k: Ptr(St(F("A", Ptr(k)), F("B", Ptr(k)))),
    ]

    def distinct_values(self, t, n):
        """n pairwise different valid documents for the (scalar or struct) type t"""
        rng = self.rng
        k = t["k"]
        if k == "struct":
            vals = self.distinct_values(t["f"][0]["t"], n)
            return [dm(*([(t["f"][0]["key"], v)] + [(f["key"], self.distinct_values(f["t"], 1)[0]) for f in t["f"][1:]])) for v in vals]
        if k == "bool":
            return [db(i % 2 == 0) for i in range(n)]
        if k == "string":
            return [ds(x) for x in rng.sample(["a", "b", "x y", "", "Zz", "7"], n)]
        if k in FLOAT_KINDS:
            return [dfl(x) for x in rng.sample(["1.5", "0.25", "-3.75", "2.5e3", "0.5", "99.99"], n)]
        hi = min(2 ** BITS[k] - 1 if k in UINT_KINDS else 2 ** (BITS[k] - 1) - 1, 2 ** 63 - 1)
        return [di(x) for x in rng.sample([0, 1, 2, 7, 42, 100, hi, hi - 1], n)]

    def alias_value(self, t):
        rng = self.rng
        k = t["k"]
        if k == "ptr":
            return self.alias_value(t["e"])
        if k in ("slice", "map"):
            e = deref(t["e"])
            n = rng.choice([2, 3])
            if e["k"] in ("slice", "map") or (e["k"] == "struct" and any(deref(f["t"])["k"] in ("slice", "map") for f in e["f"])):
                vals = [self.alias_value(t["e"]) for _ in range(n)]
            else:
                vals = self.distinct_values(e, n)
            if k == "slice":
                return dl(*vals)
            return dm(*zip(rng.sample(["a", "b", "Kk", "x1", "UPPER"], n), vals))
        if k == "struct":
            fs = t["f"]
            leaf = [f for f in fs if deref(f["t"])["k"] not in ("slice", "map", "struct")]
            vals = iter(self.distinct_values(deref(leaf[0]["t"]), len(leaf))) if leaf and len(set(deref(f["t"])["k"] for f in leaf)) == 1 else None
            pairs = []
            for f in fs:
                d = deref(f["t"])
                if d["k"] in ("slice", "map", "struct"):
                    pairs.append((f["key"], self.alias_value(f["t"])))
                else:
                    pairs.append((f["key"], next(vals) if vals else self.distinct_values(d, 1)[0]))
            return dm(*pairs)
        return self.distinct_values(t, 1)[0]

    def alias_case(self, kind):
        """every position of a decoded value has its own cell: containers of pointers (to every scalar kind and
        to structs) with two or three DIFFERENT values; the decoded values are compared through the pointers
        (model, other formats, encoding/json) and the executor checks that no two positions share storage"""
        rng = self.rng
        k = rng.choice([P(x) for x in CK] + [St(F("Num", P(rng.choice(INT_KINDS + FLOAT_KINDS))), F("Name", P("string")))])
        t = rng.choice(self.ALIAS_SHAPES)(k)
        if t["k"] in ("slice", "map") and t["e"]["k"] == "uint8":
            t = Mp(Ptr(k))
        key = "limits" if kind == "std" else "Limits"
        fields = [F(key, t)]
        doc = dm((key, self.alias_value(t)))
        c = {"kind": kind, "type": fields, "doc": doc, "doc2": None, "env": None}
        if kind == "load":
            c["doc2"] = self.recase_doc(fields, doc)
        return c

    # ---- options x member kinds x presence, enumerated
    def option_grid(self):
        """every member kind {scalar, *scalar, []T, map, struct, *struct, embedded struct, embedded pointer}
        x every option set {none, optional, default, optional+default, optional=dep, range} that applies
        x {absent, present, present and empty}: small shapes, all combinations"""
        res = []
        inner = lambda o: St(F("X", P("int"), o), F("Y", P("string"), O(opt=True)))
        kinds = [
            ("int", P("int"), [di(5)], True), ("pint", Ptr(P("int")), [di(5)], True), ("str", P("string"), [ds("v"), ds("")], True),
            ("f64", P("float64"), [dfl("1.5"), di(2)], True), ("bool", Ptr(P("bool")), [db(False)], True),
            ("slice", Sl(P("int")), [dl(di(1), di(2)), dl()], False), ("map", Mp(P("string")), [dm(("Kk", ds("v"))), dm()], False),
            ("struct", inner(None), [dm(("X", di(1))), dm()], False), ("structopt", inner(O(opt=True)), [dm(("x", di(1))), dm()], False),
            ("pstruct", Ptr(inner(O(**{"def": "9"}))), [dm(("X", di(1))), dm()], False),
            ("slstruct", Sl(inner(O(opt=True))), [dl(dm(("X", di(1))), dm()), dl()], False),
        ]
        for name, t, vals, scalar in kinds:
            optsets = [None, O(opt=True), O(opt=True, dep="Req"), O(opt=True, dep="Req", neg=True)]
            if scalar:
                dflt = {"int": "7", "pint": "7", "str": "dflt", "f64": "2.5", "bool": "true"}[name]
                optsets += [O(**{"def": dflt}), O(opt=True, **{"def": dflt})]
                if name in ("int", "pint"):
                    optsets += [O(range=R("[1:6]")), O(range=R("(5:9]"), **{"def": "7"})]
            for o in optsets:
                for pres in [None] + vals:
                    for req in (True, False):
                        fields = [F("Req", P("string"), O(opt=True)), F("Member", t, o)]
                        pairs = ([("Req", ds("r"))] if req else []) + ([("Member", pres)] if pres is not None else [])
                        res.append({"kind": "load", "type": fields, "doc": dm(*pairs), "doc2": None, "env": None})
        for eopt in (False, True):
            for eptr in (False, True):
                for io in (None, O(opt=True), O(**{"def": "3"})):
                    for pres in (None, di(1)):
                        fields = [E([F("X", P("int"), io), F("Z", P("string"), O(opt=True))], eopt=eopt, eptr=eptr), F("Req", P("string"), O(opt=True))]
                        for z in (False, True):
                            pairs = ([("X", pres)] if pres is not None else []) + ([("z", ds("zz"))] if z else [])
                            res.append({"kind": "load", "type": fields, "doc": dm(*pairs), "doc2": None, "env": None})
        for c in res:
            c["doc2"] = self.recase_doc(c["type"], c["doc"])
        return res

    # ---- spellings: a document without any upper-case letter against its mixed-case key spelling
    def spelling_case(self):
        """a generated (type, document) in which NOTHING is upper case or non-ASCII (field keys, map keys, string
        values) and at least one list is explicitly empty, with its re-cased twin (at least one key with an
        upper-case letter): a canonicalisation that treats already-canonical documents specially shows here"""
        rng = self.rng

        def low(s):
            s = s.lower()
            return s if s.isascii() else "x"

        def lower_doc(d, force):
            if "s" in d:
                return ds(low(d["s"]))
            if "l" in d:
                if force and rng.random() < 0.5:
                    return dl()
                return dl(*[lower_doc(e, force) for e in d["l"]])
            if "m" in d:
                seen, out = set(), []
                for kv in d["m"]:
                    k = low(kv["k"])
                    while k in seen:
                        k += "_"
                    seen.add(k)
                    out.append((k, lower_doc(kv["v"], force)))
                return dm(*out)
            return d

        def upper_keys(fields, doc):
            g = self.recase_doc(fields, doc)
            if json.dumps(g) == json.dumps(doc) and doc.get("m"):       # nothing changed: upper-case every field key
                fl = {f["key"].lower() for f in flat_fields(fields)}
                g = {"m": [{"k": kv["k"].upper() if kv["k"] in fl else kv["k"], "v": kv["v"]} for kv in doc["m"]]}
            return g

        for _ in range(50):
            depth = rng.choice([1, 1, 2, self.maxdepth])
            fields = self.gen_fields(depth, False, rng.randint(1, 4))
            # at least one list-typed member, so that an empty list can be written
            key = rng.choice([k for k in ["hosts", "Endpoints", "peerList"] if k.lower() not in {f["key"].lower() for f in flat_fields(fields)}])
            et = rng.choice([P("string"), P("int"), Ptr(P("string")), Sl(P("int")), St(F("Addr", P("string")), F("W", P("int"), O(opt=True))),
                             Ptr(St(F("Addr", P("string")))), Mp(P("string"))])
            fields.append(F(key, rng.choice([Sl(et), Mp(Sl(et)), Sl(Sl(et)), Sl(et)]),
                            rng.choice([None, O(opt=True)])))
            doc = self.obj(fields, False, False)
            doc = lower_doc(doc, True)
            keyl = key.lower()
            if not any(kv["k"] == keyl for kv in doc["m"]):
                t = deref(fields[-1]["t"])
                doc["m"].append({"k": keyl, "v": dl() if t["k"] == "slice" else dm(("z1", dl()), ("z2", dl()))})
            if '"l": []' not in json.dumps(doc):
                continue
            c = {"kind": "load", "type": fields, "doc": doc, "doc2": upper_keys(fields, doc), "env": None}
            if detect_shapes(c) or lower_collisions(c):
                continue
            return c
        return None

    def mfmt_case(self):
        """mapping.Unmarshal{Json,Yaml,Toml}{Bytes,Reader}: no conf layer, keys are matched exactly"""
        rng = self.rng
        depth = rng.choice([0, 1, 1, 2])
        fields = self.gen_fields(depth, False, rng.randint(1, 4), allow_embed=rng.random() < 0.5)
        if not fields:
            fields = [F("a", P("int"))]
        doc = self.obj(fields, False, False)
        return {"kind": "mfmt", "type": fields, "doc": doc, "doc2": None, "env": None}

    def std_case(self):
        rng = self.rng
        depth = rng.choice([0, 1, 1, 2, self.maxdepth])
        fields = self.gen_fields(depth, True, rng.randint(1, 4))
        if not fields:
            fields = [F("a", P("int"))]
        doc = self.obj(fields, False, True)
        return {"kind": "std", "type": fields, "doc": doc, "doc2": None, "env": None}


def lower_collisions(case):
    """the loader's lower-cased map would have colliding keys (result depends on Go map order)"""
    def chk(fields, doc):
        if "m" not in doc:
            return False
        fl = {f["key"].lower(): f for f in flat_fields(fields)}
        seen = set()
        for kv in doc["m"]:
            k = kv["k"].lower() if kv["k"].lower() in fl else kv["k"]
            if k in seen:
                return True
            seen.add(k)
        for kv in doc["m"]:
            f = fl.get(kv["k"].lower())
            if f is not None and chk_v(f["t"], kv["v"]):
                return True
        return False

    def chk_v(t, v):
        t = deref(t)
        if t["k"] == "struct":
            return chk(t["f"], v)
        if t["k"] == "slice":
            return any(chk_v(t["e"], e) for e in v.get("l", []))
        if t["k"] == "map":
            return any(chk_v(t["e"], kv["v"]) for kv in v.get("m", []))
        return False

    return any(chk(case["type"], d) for d in [case["doc"]] + ([case["doc2"]] if case.get("doc2") else []))


# ---------------------------------------------------------------------------- wide type shapes (Shapes.v)

def cxtype(t):
    t = unname(t)
    k = t["k"]
    if k == "ptr":
        return "(XPtr %s)" % cxtype(t["e"])
    if k == "slice":
        return "(XSlice %s)" % cxtype(t["e"])
    if k == "arr":
        return "(XArr %d %s)" % (t["n"], cxtype(t["e"]))
    if k == "map":
        return "(XMap %s)" % cxtype(t["e"])
    if k == "struct":
        return "(XStruct %s)" % cxfields(t["f"])
    if k in WIDE_LEAVES:
        return {"dur": "XDur", "num": "XNum", "any": "XAny", "bytes": "XBytes"}[k]
    return "(XPrim %s)" % CK[k]


def cxfields(fs):
    s = "XNil"
    for f in reversed(fs):
        if f.get("emb"):
            s = "(XEmbed %s %s %s %s)" % (cbool(f.get("eopt", False)), cbool(f.get("eptr", False)), cxfields(f["f"]), s)
        elif f.get("embt"):
            s = "(XEmbedT %s %s %s)" % (cstr(f["key"]), cxtype(f["t"]), s)
        else:
            s = "(XCons %s %s %s %s)" % (cstr(f["key"]), copts(f["o"]), cxtype(f["t"]), s)
    return s


def cfinfo(i):
    if i is None:
        return "None"
    return "(Some %s)" % cfinfo1(i)


def cfinfo1(i):
    return "(FI %s %s)" % (clist(["(%s, %s)" % (cstr(k), cfinfo1(v)) for k, v in sorted(i["c"].items())]),
                           copt(cfinfo1(i["m"]) if i.get("m") else None))


def cobx(r):
    if r is None:
        return "XErr"
    if r["verdict"] == "ok":
        return let_bound("(XOk %s)" % cstr(json.dumps(r["val"], sort_keys=True)))
    if r["verdict"] == "shared":
        return "XShared"
    return "XPanic" if r["verdict"] == "panic" else "XErr"


def cobx3(m):
    return "(mkObx3 %s %s %s)" % (cobx(m.get("json")), cobx(m.get("yaml")), cobx(m.get("toml")))


def clc(text):
    if not text:
        return "None"
    return let_bound("(Some %s)" % cjv(parse_mid(text)))


SHAPE_KEYS = ["NodeList", "Upstreams", "byName", "Peers", "DataSource", "etcdHosts", "Routes", "cacheConf"]
SHAPE_MAPKEYS = ["Kk", "Host", "maxConn", "zone-A", "UPPER", "x1"]
CTORS = ["ptr", "ptr2", "slice", "arr", "map"]


def all_chains(maxlen=3):
    res = [()]
    frontier = [()]
    for _ in range(maxlen):
        frontier = [c + (x,) for c in frontier for x in CTORS]
        res += frontier
    return res


CHAINS = all_chains()


def apply_chain(chain, leaf):
    t = leaf
    for c in reversed(chain):
        if c == "ptr":
            t = Ptr(t)
        elif c == "ptr2":
            t = Ptr(Ptr(t))
        elif c == "slice":
            t = Sl(t)
        elif c == "arr":
            t = Arr(2, t)
        else:
            t = Mp(t)
    return t


def ptr_to_container(t):
    """a pointer whose target is a slice / array / map / []byte / interface{} occurs in the type: mapping
    panics or errs on such fields whatever the document says (outside C08's and C17's family, see
    notes/C17.md); only the conf layer (white-box) is exercised on them"""
    t = unname(t)
    k = t["k"]
    if k == "ptr":
        e = unname(t["e"])
        return e["k"] in ("slice", "arr", "map", "bytes", "any") or ptr_to_container(e)
    if k in ("slice", "arr", "map"):
        return ptr_to_container(t["e"])
    if k == "struct":
        return any(ptr_to_container(f["t"]) for f in flat_fields(t["f"]))
    return False


class ShapeGen:
    """the TYPE-SHAPE family: every nesting of {*T, **T, []T, [2]T, map[string]T} up to depth 3 over a
    struct with mixed-case keys (anonymous struct type, declared Node, struct with embedded members) or
    over a scalar-like leaf (declared MyInt.., time.Duration, json.Number, any, []byte), as a named
    field, inside an embedded struct / embedded pointer, below another struct; plus the declared
    container types (Nodes, NodeMap, NodePtr, Pair), also as anonymous fields."""

    def __init__(self, rng, dur_numbers, anon_slices, map_bool):
        self.rng = rng
        self.dur_numbers = dur_numbers
        self.anon_slices = anon_slices
        self.map_bool = map_bool

    def leaf_struct(self):
        rng = self.rng
        r = rng.random()
        if r < 0.22:
            return Nm("Node")
        if r < 0.42:
            return St(F("Host", P("string")), F("logLevel", P("string"), O(**{"def": "info"})),
                      F("MaxConns", P("int"), O(opt=True)))
        if r < 0.56:   # embedded members, incl. a pointer to a declared struct
            return St(F("ID", Nm("MyInt")), E([], name="Inner", eptr=rng.random() < 0.5),
                      E([F("ExtraKey", P("bool"), O(opt=True))]))
        if r < 0.7:    # wide leaves inside
            return St(F("Timeout", P("dur")), F("Ratio", P("num"), O(opt=True)), F("Meta", Mp(P("any")), O(opt=True)),
                      F("Blob", P("bytes"), O(opt=True)), F("Kind", Nm("MyStr"), O(opt=True)))
        if r < 0.84:   # user code called while decoding: TextUnmarshaler scalar, json.Unmarshaler struct
            return St(F("LogLevel", Nm("Level")), F("Upstream", Ptr(Nm("Endpoint")), O(opt=True)),
                      F("Levels", Mp(Nm("Level")), O(opt=True)), F("Peers", Sl(Ptr(Nm("Endpoint"))), O(opt=True)))
        if r < 0.9:
            return St(F("Sub", St(F("DeepKey", Nm("Alias")), F("W", Nm("MyF64"), O(opt=True)))),
                      F("On", Nm("MyBool"), O(opt=True)))
        return self.leaf_lexemes()

    def leaf_lexemes(self):
        """names that some layer may special-case: the words of the tag grammar as keys, keys with - _ . ,
        keys differing from their neighbours only by such a character; members whose value may come from the
        environment (`env=`), from the enclosing object (`inherit`), or from a default list"""
        rng = self.rng
        r = rng.random()
        if r < 0.35:
            ks = rng.sample(["optional", "default", "range", "options", "inherit", "env", "string", "Optional", "DEFAULT",
                             "user-id", "user_id", "userId", "User.Name", "a.b", "x-Y-z", "_", "k9", "json", "omitempty"], 4)
            seen, fs = set(), []
            for k in ks:
                if k.lower() in seen:
                    continue
                seen.add(k.lower())
                fs.append(F(k, P(rng.choice(["string", "int", "bool"])), rng.choice([None, O(opt=True)])))
            return St(*fs)
        if r < 0.6:
            return St(F("Host", P("string")), F("Port", P("int"), O(opt=True)),
                      F("Sub", St(F("host", P("string"), O(inherit=True)), F("name", P("string"))), rng.choice([None, O(opt=True)])),
                      F("SubPtr", Ptr(St(F("port", P("int"), O(inherit=True, opt=True)), F("id", P("int")))), O(opt=True)))
        if r < 0.8:
            return St(F("port", P("int"), O(env="C17_TAGPORT")), F("name", P("string"), O(env="C17_TAGENV", opt=True)),
                      F("zone", P("string"), O(env="C17_TAGUNSET", opt=True)), F("mode", P("string"), O(env="C17_TAGUNSET2", **{"def": "dev"})))
        return St(F("tags", Sl(P("string")), O(**{"def": "[a,b]"})), F("nums", Sl(P("int")), O(opt=True, **{"def": "[1,2]"})),
                  F("level", P("string"), O(options=["dev", "test"], **{"def": "dev"})))

    def leaf_scalar(self):
        return self.rng.choice([Nm("MyInt"), Nm("MyStr"), Nm("MyF64"), Nm("MyBool"), Nm("Alias"), P("dur"), P("num"),
                                P("any"), P("bytes"), P("int"), P("string"), Nm("MyU8")])

    def place(self, key, t):
        """the struct type around the field under test"""
        rng = self.rng
        r = rng.random()
        f = F(key, t)
        other = F("svcName", P("string"), O(opt=True))
        if r < 0.45:
            return [other, f]
        if r < 0.6:
            return [E([f]), other]
        if r < 0.72:
            return [other, E([f], eptr=True)]
        if r < 0.86:
            return [F("Wrap", St(f, F("Note", P("string"), O(opt=True))))]
        return [F("Outer", Ptr(St(E([f]), F("Note", P("string"), O(opt=True))))), other]

    # ---- documents (keys spelled as in the type: mixed case)
    def scalar(self, k):
        rng = self.rng
        if k == "dur":
            if self.dur_numbers and rng.random() < 0.3:
                return di(rng.choice([0, 1000, 1500000000]))
            return ds(rng.choice(["1s", "500ms", "1h2m3s", "0", "2.5s", "soon"]))
        if k == "num":
            return rng.choice([ds("1.5"), ds("7"), di(3), ds("x")])
        if k == "any":
            return rng.choice([ds("v"), di(1), db(True), dm(("InnerKey", di(1))), dl(di(1), ds("x"))])
        if k == "bytes":
            return rng.choice([ds("aGVsbG8="), ds("hello!"), dl(di(1), di(2), di(255)), dl()])
        if k == "bool":
            return db(rng.random() < 0.5)
        if k == "string":
            return ds(rng.choice(["x", "info", "Mixed Case", ""]))
        if k in FLOAT_KINDS:
            return rng.choice([dfl("1.5"), di(2), dfl("0.25")])
        if k == "uint8":
            return di(rng.choice([0, 7, 255, 256]))
        return di(rng.choice([0, 1, 42, -7]))

    def value(self, t, in_any=False):
        rng = self.rng
        if t.get("name") == "Level":
            return rng.choice([ds("debug"), ds("info"), ds("error"), ds("nope"), di(2)])
        if t.get("name") == "Endpoint" and rng.random() < 0.6:
            return rng.choice([ds("h1:80"), ds("10.0.0.1:8080"), ds("no-port"), ds("h:x")])
        t = unname(t)
        k = t["k"]
        if k == "ptr":
            return self.value(t["e"])
        if k == "slice":
            return dl(*[self.value(t["e"]) for _ in range(rng.choice([0, 1, 2, 2]))])
        if k == "arr":
            n = t["n"] if rng.random() < 0.8 else rng.choice([t["n"] - 1, t["n"] + 1])
            return dl(*[self.value(t["e"]) for _ in range(n)])
        if k == "map":
            if unname(t["e"])["k"] == "any":
                return dm(*[(kk, rng.choice([ds("v"), di(1), db(False), dm(("NestedKey", dl(di(1), dm(("Zz", ds("q")))))),
                                             dl(ds("a"), di(2))])) for kk in rng.sample(SHAPE_MAPKEYS, rng.choice([1, 2]))])
            return dm(*[(kk, self.value(t["e"])) for kk in rng.sample(SHAPE_MAPKEYS, rng.choice([0, 1, 2, 2]))])
        if k == "struct":
            pairs = []
            for f in flat_fields(t["f"]):
                o = f.get("o")
                if o is not None and (o["opt"] or o["def"] is not None or o.get("env") or o.get("inherit")) and rng.random() < 0.4:
                    continue
                pairs.append((f["key"], self.value(f["t"])))
            rng.shuffle(pairs)
            return dm(*pairs)
        return self.scalar(k)

    def case(self, fields):
        doc = self.value(St(*fields))
        g = Gen(self.rng, "quick")
        c = {"kind": "shape", "type": fields, "doc": doc, "doc2": g.recase_doc(fields, doc), "env": None,
             "noload": any(ptr_to_container(f["t"]) for f in flat_fields(fields))}
        return c

    def chain_case(self, chain, structural):
        leaf = self.leaf_struct() if structural else self.leaf_scalar()
        if chain and chain[-1] in ("slice", "arr") and unname(leaf)["k"] == "uint8":
            leaf = Nm("MyInt")           # []uint8 is the base64 path ("bytes" covers it)
        inner = [c for c in chain if c not in ("ptr", "ptr2")]
        if inner and inner[-1] == "map" and leaf.get("name") == "MyBool" and not self.map_bool:
            leaf = Nm("MyStr")           # map[string]MyBool: only once its repair is registered
        t = apply_chain(chain, leaf)
        return self.case(self.place(self.rng.choice(SHAPE_KEYS), t))

    def declared_case(self):
        rng = self.rng
        name = rng.choice(["Nodes", "NodeMap", "NodePtr", "Pair"])
        r = rng.random()
        if r < 0.4:
            return self.case([F("Cluster", Nm(name)), F("svcName", P("string"), O(opt=True))])
        if r < 0.7 and self.anon_slices:
            nm = rng.choice(["Nodes", "NodeMap", "Pair", "MyInt", "MyStr"])
            if nm == "NodeMap":      # reflect.StructOf refuses an embedded declared map type next to other fields
                return self.case([ET(nm)])
            return self.case([ET(nm), F("svcName", P("string"), O(opt=True))])
        return self.case([F("ByZone", Mp(Nm(name))), F("Extra", Sl(Nm(name)), O(opt=True))])


def shape_cases(rng, n, dur_numbers, anon_slices, map_bool):
    """n cases: every chain of length <= 2 over a struct leaf, then a seed-dependent sample of the
    length-3 chains and of the scalar-leaf / declared-container shapes"""
    sg = ShapeGen(rng, dur_numbers, anon_slices, map_bool)
    short = [c for c in CHAINS if len(c) <= 2]
    long3 = [c for c in CHAINS if len(c) == 3]
    cases = [sg.chain_case(c, True) for c in short]
    while len(cases) < n:
        r = rng.random()
        if r < 0.55:
            cases.append(sg.chain_case(rng.choice(long3), True))
        elif r < 0.8:
            cases.append(sg.chain_case(rng.choice(CHAINS), False))
        else:
            cases.append(sg.declared_case())
    return cases[:n]


# ---------------------------------------------------------------------------- hand-written texts

def raw_corpus():
    """hand-written renderings (instead of the printers' output) of a document, with the syntax the
    printers never produce: YAML non-string keys, anchors / aliases / merge keys, a second document,
    flow style, block scalars, 1.1 booleans, hex; TOML dotted keys, inline tables, arrays of tables,
    literal / multi-line strings, underscores and 0x / 0o / 0b integers.  `doc` is the document all three
    texts denote: the front ends must hand exactly shape(doc) to LoadFromJsonBytes and the loads agree."""
    hp = St(F("Host", P("string")), F("Port", P("int")))
    cs = []
    cs.append({
        "kind": "load", "env": None, "doc2": None,
        "type": [F("Base", hp), F("Svc", hp), F("Names", Mp(P("string"))), F("Enabled", P("bool")), F("Mask", P("int")),
                 F("Note", P("string"))],
        "doc": dm(("Base", dm(("Host", ds("h1")), ("Port", di(1)))), ("Svc", dm(("Host", ds("h1")), ("Port", di(2)))),
                  ("Names", dm(("1", ds("one")), ("true", ds("yes-str")), ("2.5", ds("f")))), ("Enabled", db(True)),
                  ("Mask", di(16)), ("Note", ds("folded text"))),
        "texts": {
            "yaml": "# a comment\nBase: &b {Host: h1, Port: 1}\nSvc:\n  <<: *b\n  Port: 2\nNames:\n  1: one\n  true: yes-str\n"
                    "  2.5: f\nEnabled: yes\nMask: 0x10\nNote: >-\n  folded\n  text\n---\nBase: {Host: other, Port: 9}\n",
            "toml": "Enabled = true\nMask = 0x10\nNote = \"\"\"\nfolded \\\n   text\"\"\"\nBase = { Host = \"h1\", Port = 1 }\n"
                    "Svc.Host = \"h1\"\nSvc.Port = 2\n\n[Names]\n1 = \"one\"\ntrue = \"yes-str\"\n\"2.5\" = \"f\"\n",
            "json": " {\"Base\" : {\"Host\":\"h1\",\"Port\":1},\n\"Svc\":{\"Port\":2,\"Host\":\"\\u00681\"},\"Names\":{\"1\":\"one\","
                    "\"true\":\"yes-str\",\"2.5\":\"f\"},\"Enabled\":true,\"Mask\":16,\"Note\":\"folded text\"}\n",
        }})
    node = St(F("Host", P("string")), F("Weight", P("int"), O(opt=True)))
    cs.append({
        "kind": "load", "env": None, "doc2": None,
        "type": [F("Nodes", Sl(node)), F("DB", St(F("Mysql", St(F("DSN", P("string")))), F("Pool", P("int")))),
                 F("Big", P("int64")), F("Path", P("string")), F("Ratio", P("float64"))],
        "doc": dm(("Big", di(1000000)), ("Path", ds("C:\\temp\\x")), ("Ratio", dfl("2.5e-1")),
                  ("DB", dm(("Mysql", dm(("DSN", ds("user@tcp(h)/db")))), ("Pool", di(5)))),
                  ("Nodes", dl(dm(("Host", ds("a")), ("Weight", di(15))), dm(("Host", ds("b")))))),
        "texts": {
            "toml": "Big = 1_000_000\nPath = 'C:\\temp\\x'\nRatio = 2.5e-1\nDB.Mysql.DSN = \"user@tcp(h)/db\"\nDB.Pool = 0b101\n"
                    "[[Nodes]]\nHost = \"a\"\nWeight = 0o17\n[[Nodes]]\nHost = \"b\"\n",
            "yaml": "Big: 1000000\nPath: 'C:\\temp\\x'\nRatio: 2.5e-1\nDB:\n  Mysql: {DSN: user@tcp(h)/db}\n  Pool: 5\n"
                    "Nodes:\n- Host: a\n  Weight: 15\n- {Host: b}\n",
            "json": "{\"Big\":1000000,\"Path\":\"C:\\\\temp\\\\x\",\"Ratio\":2.5e-1,\"DB\":{\"Mysql\":{\"DSN\":\"user@tcp(h)/db\"},"
                    "\"Pool\":5},\"Nodes\":[{\"Host\":\"a\",\"Weight\":15},{\"Host\":\"b\"}]}",
        }})
    q3 = "'" * 3
    cs.append({
        "kind": "load", "env": None, "doc2": None,
        "type": [F("M", Mp(P("string"))), F("L", Sl(P("int"))), F("T", P("string"), O(opt=True))],
        "doc": dm(("M", dm(("Key With Space", ds("it's")), ("k2", ds("tab\there")))), ("L", dl(di(1), di(2), di(3))),
                  ("T", ds("line1\nline2\n"))),
        "texts": {
            "yaml": "M: {\"Key With Space\": 'it''s', k2: \"tab\\there\"}\nL: [1, 2,\n   3]\nT: |\n  line1\n  line2\n",
            "toml": "L = [\n  1, 2, # c\n  3,\n]\nT = " + q3 + "\nline1\nline2\n" + q3 + "\n[M]\n\"Key With Space\" = \"it's\"\nk2 = \"tab\\there\"\n",
            "json": "{\"M\":{\"Key With Space\":\"it's\",\"k2\":\"tab\\there\"},\"L\":[1,2,3],\"T\":\"line1\\nline2\\n\"}",
        }})
    # scalars that change their TYPE by spelling (YAML 1.1 booleans, 0x / 0 / 0b / _ integers, exponent floats; quoted:
    # strings), CRLF line ends in all three texts
    cs.append({
        "kind": "load", "env": None, "doc2": None,
        "type": [F("B1", P("bool")), F("B2", P("bool")), F("Hex", P("int")), F("Oct", P("int")), F("Us", P("int")), F("Fl", P("float64")),
                 F("S1", P("string")), F("S2", P("string")), F("Neg", P("int")), F("S3", P("string"))],
        "doc": dm(("B1", db(True)), ("B2", db(False)), ("Hex", di(31)), ("Oct", di(8)), ("Us", di(1000)), ("Fl", dfl("1e3")),
                  ("S1", ds("yes")), ("S2", ds("010")), ("Neg", di(-3)), ("S3", ds("2001-01-01"))),
        "texts": {
            "yaml": "B1: on\r\nB2: No\r\nHex: 0x1F\r\nOct: 010\r\nUs: 1_000\r\nFl: 1e3\r\nS1: \"yes\"\r\nS2: '010'\r\nNeg: -0b11\r\nS3: '2001-01-01'\r\n",
            "toml": "B1 = true\r\nB2 = false\r\nHex = 0x1F\r\nOct = 0o10\r\nUs = 1_000\r\nFl = 1e3\r\nS1 = \"yes\"\r\nS2 = '010'\r\nNeg = -3\r\nS3 = \"2001-01-01\"\r\n",
            "json": "{\r\n\"B1\":true,\r\n\"B2\":false,\"Hex\":31,\"Oct\":8,\"Us\":1000,\"Fl\":1e3,\r\n\"S1\":\"yes\",\"S2\":\"010\",\"Neg\":-3,\"S3\":\"2001-01-01\"}\r\n",
        }})
    return cs


def bad_corpus():
    """texts that are not a document (or not one the JSON bridge can carry: NaN, Inf): every loader
    answers with an error — the error paths of TomlToJson / YamlToJson / encodeToJSON / jsonx"""
    T = [F("a", P("float64"))]
    bad = [
        {"yaml": "a: [1, 2", "toml": "a = [1, 2", "json": "{\"a\": [1, 2"},
        {"yaml": "a: b: c", "toml": "a = ", "json": "{\"a\": 1,}"},
        {"yaml": "\ta: 1", "toml": "[a\nb = 1", "json": ""},
        {"yaml": "- 1\n- 2\n", "toml": "a.b = 1\na = 2\n", "json": "[1,2]"},
        {"yaml": "a: .nan\n", "toml": "a = nan\n", "json": "{\"a\": NaN}"},
        {"yaml": "a: .inf\n", "toml": "a = -inf\n", "json": "{\"a\": Infinity}"},
        {"yaml": "a: 'unterminated\n", "toml": "a = 1\na = 2\n", "json": "{\"a\":1 \"b\":2}"},
        {"yaml": "a: *nope\n", "toml": "a = 1979-05-27T07:32:00Z\nb = \n", "json": "{'a':1}"},
        {"yaml": "", "toml": "a = \"unterminated\n", "json": "null x"},
    ]
    return [{"kind": "bad", "type": T, "doc": dm(), "doc2": None, "env": None, "texts": t} for t in bad]


# ---------------------------------------------------------------------------- spellings of one document

SPELL_MIXED = {"name": "Name", "hosts": "hOSTs", "nodes": "Nodes", "ports": "PORTS", "meta": "Meta", "sub": "Sub", "items": "Items",
               "peers": "peerS", "byzone": "ByZone", "groups": "GROUPS", "members": "Members", "rate": "Rate", "addr": "Addr", "tags": "TAGS"}


def spelling_corpus():
    """The SAME document in several spellings (seeded change C17-9: a canonicalisation pass that is skipped when
    the raw text 'has nothing to canonicalise' — but the pass is not the identity on canonical input, and raw
    text is not decoded text).  Fixed cases, run first, whatever VERIF_SEED:
    * all-lower-case spelling (keys, map keys, string values, exponents: NO upper-case letter and no non-ASCII
      byte anywhere in any rendering) against the mixed-case key spelling, both directions, and against a
      spelling in which ONE unrelated key / one unrelated string value / one map key / one float exponent has an
      upper-case letter: explicitly EMPTY lists and maps at every kind of position (field, optional field,
      nested struct, list of lists, map of lists, struct in map, pointer elements), compared deeply — a nil
      slice is not an empty slice;
    * hand-written texts of one document: JSON keys and values with u-escapes (lower- and upper-case hex
      digits), surrogate pairs against raw UTF-8 and U-escapes, YAML quoted keys / anchors / aliases / flow
      style, TOML quoted and dotted keys, literal strings, arrays of tables."""
    node = St(F("Addr", P("string")), F("Tags", Sl(P("string")), O(opt=True)))
    T = [F("Name", P("string")), F("Hosts", Sl(P("string"))), F("Nodes", Sl(node)), F("Ports", Sl(P("int")), O(opt=True)),
         F("Meta", Mp(P("string")), O(opt=True)),
         F("Sub", St(F("Items", Sl(Sl(P("int")))), F("Peers", Sl(Ptr(P("string"))), O(opt=True))), O(opt=True)),
         F("ByZone", Mp(Sl(P("string"))), O(opt=True)), F("Groups", Mp(St(F("Members", Sl(P("string"))))), O(opt=True)),
         F("Rate", P("float64"), O(opt=True))]
    lower = lambda k: k
    mixed = lambda k: SPELL_MIXED[k]

    def doc(kc, name="svc", zone="z1", rate=None, full=True):
        pairs = [(kc("name"), ds(name)), (kc("hosts"), dl()), (kc("nodes"), dl())]
        if full:
            pairs += [(kc("ports"), dl()), (kc("meta"), dm()),
                      (kc("sub"), dm((kc("items"), dl(dl(), dl(di(1)))), (kc("peers"), dl()))),
                      (kc("byzone"), dm((zone, dl()), ("z2", dl(ds("a"))))),
                      (kc("groups"), dm(("g1", dm((kc("members"), dl())))))]
        if rate is not None:
            pairs.append((kc("rate"), dfl(rate)))
        return dm(*pairs)

    def load(tag, d, d2, typ=T, **kw):
        c = {"kind": "load", "tag": "c9-" + tag, "type": typ, "doc": d, "doc2": d2, "env": None}
        c.update(kw)
        return c

    one_key = lambda k: "Name" if k == "name" else k
    cs = [
        load("keys", doc(lower), doc(mixed)),
        load("keys-rev", doc(mixed), doc(lower)),
        load("one-key", doc(lower), doc(one_key)),
        load("small", doc(lower, full=False), doc(mixed, full=False)),
        load("nodes-filled", dm(("name", ds("svc")), ("hosts", dl(ds("a"))), ("nodes", dl(dm(("addr", ds("x")), ("tags", dl()))))),
             dm(("Name", ds("svc")), ("Hosts", dl(ds("a"))), ("nodes", dl(dm(("Addr", ds("x")), ("TAGS", dl())))))),
        # the same, but ONE unrelated string value / map key / exponent carries an upper-case letter (each is compared
        # with the model, which loads all of them like "keys": every empty list nil)
        load("value", doc(lower, name="Svc"), doc(mixed, name="Svc")),
        load("value-lower-twin", doc(lower, name="Svc"), None),
        load("mapkey", doc(lower, zone="Z1"), None),
        load("exponent-upper", doc(lower, rate="1E5"), None),        # JSON keeps 1E5, YAML / TOML re-render the number
        load("exponent-lower", doc(lower, rate="1e5"), doc(mixed, rate="1e5")),
        load("minimal", dm(("hosts", dl())), dm(("Hosts", dl())), typ=[F("Hosts", Sl(P("string")))]),
        load("minimal-opt", dm(("hosts", dl()), ("m", dm())), dm(("HOSTS", dl()), ("M", dm())),
             typ=[F("hosts", Sl(Ptr(St(F("A", P("int"))))), O(opt=True)), F("m", Mp(Mp(P("int"))), O(opt=True))]),
    ]
    cs.append({"kind": "shape", "tag": "c9-shape", "env": None, "noload": False,
               "type": [F("Timeouts", Sl(P("dur"))), F("Blobs", Sl(P("bytes")), O(opt=True)), F("Pairs", Sl(Nm("Node")), O(opt=True)),
                        F("Extra", Mp(P("any")), O(opt=True)), F("Ids", Sl(Nm("MyInt")), O(opt=True))],
               "doc": dm(("timeouts", dl()), ("blobs", dl()), ("pairs", dl()), ("extra", dm()), ("ids", dl())),
               "doc2": dm(("Timeouts", dl()), ("BLOBS", dl()), ("Pairs", dl()), ("eXtra", dm()), ("Ids", dl()))})
    # ---- hand-written texts
    T2 = [F("Name", P("string")), F("Hosts", Sl(P("string"))), F("Nodes", Sl(node))]
    d2 = doc(lower, full=False)
    cs.append(load("json-escapes-upper-hex", d2, d2, typ=T2,
                   texts={"json": "{\"n\\u0061me\":\"svc\",\"h\\u006Fsts\":[],\"nodes\":[]}",
                          "yaml": "name: svc\nhosts: []\nnodes: []\n",
                          "toml": "name = \"svc\"\nhosts = []\nnodes = []\n"},
                   texts2={"json": " {\"n\\u0061me\" : \"s\\u0076c\", \"hosts\":[ ],\n\"nodes\":[]}",
                           "yaml": "\"name\": svc\n'hosts': &e []\nnodes: *e\n",
                           "toml": "\"name\" = 'svc'\n'hosts' = []\nnodes = [\n]\n"}))
    d3 = dm(("Name", ds("svc")), ("Hosts", dl(ds("a"))), ("nodes", dl(dm(("Addr", ds("x"))))))
    cs.append(load("json-escaped-keys", d3, d3, typ=T2,
                   texts={"json": "{\"\\u004eame\": \"svc\", \"\\u0048osts\": [\"a\"], \"nodes\": [{\"\\u0041ddr\": \"x\"}]}",
                          "yaml": "Name: svc\nHosts: [a]\nnodes:\n- Addr: x\n",
                          "toml": "Name = \"svc\"\nHosts = [\"a\"]\n[[nodes]]\nAddr = \"x\"\n"},
                   texts2={"json": "{\"\\u004Eame\": \"svc\", \"\\u0048\\u006fsts\": [\"\\u0061\"], \"nodes\": [{\"\\u0041ddr\": \"x\"}]}",
                           "yaml": "\"Name\": svc\n\"Hosts\": ['a']\nnodes: [{\"\\x41ddr\": x}]\n",
                           "toml": "\"Name\" = \"svc\"\n\"Hosts\" = ['a']\nnodes = [{\"\\u0041ddr\" = \"x\"}]\n"}))
    emo = "\U0001F600"
    T4 = [F("Name", P("string")), F("Hosts", Sl(P("string"))), F("Meta", Mp(P("string")), O(opt=True))]
    d4 = dm(("name", ds(emo + " ok")), ("hosts", dl()), ("meta", dm(("k" + emo, ds("v")))))
    cs.append(load("surrogates", d4, d4, typ=T4,
                   texts={"json": "{\"name\":\"\\ud83d\\ude00 ok\",\"hosts\":[],\"meta\":{\"k\\ud83d\\ude00\":\"v\"}}",
                          "yaml": "name: \"\\U0001F600 ok\"\nhosts: []\nmeta: {\"k\\U0001F600\": v}\n",
                          "toml": "name = \"\\U0001F600 ok\"\nhosts = []\n[meta]\n\"k\\U0001F600\" = \"v\"\n"},
                   texts2={"json": "{\"name\":\"" + emo + " ok\",\"hosts\":[],\"meta\":{\"k" + emo + "\":\"v\"}}",
                           "yaml": "name: " + emo + " ok\nhosts: []\nmeta:\n  k" + emo + ": v\n",
                           "toml": "name = '" + emo + " ok'\nhosts = []\nmeta = {\"k" + emo + "\" = \"v\"}\n"}))
    T5 = [F("Name", P("string")), F("Sub", St(F("Items", Sl(Sl(P("int")))), F("Peers", Sl(Ptr(P("string"))), O(opt=True))), O(opt=True)),
          F("ByZone", Mp(Sl(P("string"))), O(opt=True))]
    sub = lambda kc: dm((kc("name"), ds("svc")), (kc("sub"), dm((kc("items"), dl()), (kc("peers"), dl()))), (kc("byzone"), dm(("z1", dl()))))
    cs.append(load("anchors-dotted-keys", sub(lower), sub(mixed), typ=T5,
                   texts={"json": "{\"name\":\"svc\",\"sub\":{\"items\":[],\"peers\":[]},\"byzone\":{\"z1\":[]}}",
                          "yaml": "name: svc\nsub: &s\n  items: &e []\n  peers: *e\nbyzone:\n  z1: *e\n",
                          "toml": "name = \"svc\"\nsub.items = []\nsub.peers = []\nbyzone.\"z1\" = []\n"},
                   texts2={"json": "{\"N\\u0061me\":\"svc\",\"Sub\":{\"Items\":[],\"peerS\":[]},\"ByZone\":{\"z1\":[]}}",
                           "yaml": "Name: svc\n\"Sub\": {Items: [], 'peerS': []}\nByZone: {z1: []}\n",
                           "toml": "Name = \"svc\"\nSub.Items = []\nSub.\"peerS\" = []\n[ByZone]\nz1 = []\n"}))
    return cs


def number_corpus():
    """number texts on their way through the three front ends, fixed cases (seeded changes C17-2, C17-5, C17-7):
    * floats with 9 .. 15 significant digits (nothing float32 could carry) at every kind of float64 position;
    * floats of magnitude >= 1e21 and < 1e-6 (encoding/json switches to exponent notation with an explicit sign,
      lang.Repr never does) into float64 / float32 / *float64 FIELDS and elements, exponent spelled e, e+, E+;
    * float literals whose float64 value is EXACTLY 2^63 / 2^64 / 2^31 / 2^16 / 2^7 (one past the integer kind's
      range), written with the shortest digits that denote that float64 (so the re-rendering of the YAML / TOML
      path gives the literal's own digits back and exact decimals suffice), into integer fields / elements:
      every format rejects them."""
    cs = []
    T = [F("f", P("float64")), F("p", Ptr(P("float64")), O(opt=True)), F("l", Sl(P("float64")), O(opt=True)),
         F("m", Mp(P("float64")), O(opt=True)), F("s", St(F("Inner", P("float64")), F("g", P("float32"), O(opt=True))), O(opt=True))]
    digits = ["3.14159265358979", "123456.789", "1234567.891", "0.300000000000001", "16777217.5", "0.1", "99.99"]
    for i, (a, b) in enumerate([(0, 1), (2, 3), (4, 5)]):
        cs.append({"kind": "load", "tag": "num-digits-%d" % i, "type": T, "env": None, "doc2": None,
                   "doc": dm(("f", dfl(digits[a])), ("p", dfl(digits[b])), ("l", dl(dfl(digits[a]), dfl(digits[6]), dfl(digits[b]))),
                             ("m", dm(("k", dfl(digits[b])), ("j", dfl(digits[a])))), ("s", dm(("Inner", dfl(digits[b])), ("g", dfl("0.5")))))})
    cs.append({"kind": "mfmt", "tag": "num-digits-mfmt", "type": T, "env": None, "doc2": None,
               "doc": dm(("f", dfl(digits[0])), ("l", dl(dfl(digits[2]), dfl(digits[1]))), ("m", dm(("k", dfl(digits[3])))))})
    for i, (big, small, f32) in enumerate([("2.5e22", "1.25e-10", "1e30"), ("1e+21", "1e-7", "2.5E+22"), ("6.02E+23", "3e-07", "1e21")]):
        cs.append({"kind": "load", "tag": "num-magnitude-%d" % i, "type": T, "env": None, "doc2": None,
                   "doc": dm(("f", dfl(big)), ("p", dfl(small)), ("l", dl(dfl(big), dfl(small))), ("m", dm(("k", dfl(big)))),
                             ("s", dm(("Inner", dfl(small)), ("g", dfl(f32)))))})
    cs.append({"kind": "mfmt", "tag": "num-magnitude-mfmt", "type": T, "env": None, "doc2": None,
               "doc": dm(("f", dfl("2.5e22")), ("p", dfl("1e+21")), ("s", dm(("Inner", dfl("1e-7")), ("g", dfl("1e21")))))})
    cs.append({"kind": "std", "tag": "num-magnitude-std", "type": [F("f", P("float64")), F("g", P("float32")), F("p", Ptr(P("float64")))],
               "env": None, "doc2": None, "doc": dm(("f", dfl("2.5e+22")), ("g", dfl("1e21")), ("p", dfl("1e-7")))})
    edge = [("int64", "9223372036854776000.0"), ("int", "9.223372036854776e18"), ("uint64", "18446744073709552000.0"),
            ("uint", "1.8446744073709552e19"), ("int32", "2147483648.0"), ("uint16", "65536.0"), ("int8", "128.0"), ("int64", "-9223372036854778000.0")]
    for i, (k, lit) in enumerate(edge):
        typ = [F("n", P(k), O(opt=True)), F("l", Sl(P(k)), O(opt=True)), F("m", Mp(P(k)), O(opt=True)), F("p", Ptr(P(k)), O(opt=True))]
        for pos, v in (("n", dfl(lit)), ("l", dl(di(1), dfl(lit))), ("m", dm(("k", dfl(lit)))), ("p", dfl(lit))):
            cs.append({"kind": "load", "tag": "num-edge-%s-%d-%s" % (k, i, pos), "env": None, "doc2": None, "type": typ, "doc": dm((pos, v))})
    return cs


def lexeme_corpus():
    """every map key and every string value of the generator's vocabularies (YAML / TOML tokens as text: yes, null, ~,
    1.0, 0x10, leading / trailing blanks, quotes, #, :, non-ASCII, empty key, multi-line) in ONE fixed document each,
    as map keys, as string values of a map, as list elements and as a struct member: keys and strings are data"""
    T = [F("M", Mp(P("string"))), F("L", Sl(P("string"))), F("K", Mp(Sl(P("string"))), O(opt=True)), F("S", P("string"), O(opt=True))]
    half = len(STRINGS) // 2
    d1 = dm(("M", dm(*[(k, ds(STRINGS[i % len(STRINGS)])) for i, k in enumerate(MAP_KEYS)])), ("L", dl(*[ds(x) for x in STRINGS[:half]])),
            ("S", ds(" lead and trail ")))
    d2 = dm(("M", dm(*[(k, ds(k)) for k in MAP_KEYS[::-1]])), ("L", dl(*[ds(x) for x in STRINGS[half:]])),
            ("K", dm(*[(k, dl(ds(k), ds(""))) for k in MAP_KEYS[:8]])))
    g = Gen(None, "quick")
    cs = []
    for i, d in enumerate((d1, d2)):
        cs.append({"kind": "load", "tag": "lexemes-%d" % i, "type": T, "doc": d, "env": None,
                   "doc2": dm(*[(kv["k"].upper() if i == 0 else kv["k"].lower(), kv["v"]) for kv in d["m"]])})
        cs.append({"kind": "mfmt", "tag": "lexemes-mfmt-%d" % i, "type": T, "doc": d, "doc2": None, "env": None})
    return cs


def merge_corpus():
    """STATE ACROSS LOADS at the conf layer (seeded change C17-10: the field info of a struct type kept between loads and
    polluted by a merge).  Type shapes in which an embedded struct contributes a struct under the key of a NAMED struct
    field (disjoint members: conf merges the two sections): the embedded struct after / before the named field, nested in
    a member struct, pointer-embedded, two levels of embedding, keys differing in case; the SAME type loaded again by later
    cases in every order of the three formats (each loader also runs twice per case, then by extension, wrappers, twin),
    and DIFFERENT config types that share the section types, loaded after one another.  Every load is judged on its own
    against the model and the property: the result of a load is a function of (type, document)."""
    limits = St(F("MaxConns", P("int")), F("Timeout", P("float64"), O(opt=True)))
    listen = St(F("Host", P("string")), F("Port", P("int")))
    extra = St(F("Zone", P("string"), O(opt=True)))
    sec = lambda k1, k2, k3, k4: (dm((k1, ds("localhost")), (k2, di(8080)), (k3, di(100)), (k4, dfl("2.5"))))
    d = lambda top, name="svc": dm(("Name", ds(name)), (top, sec("Host", "Port", "MaxConns", "Timeout")))
    d2 = lambda top, name="svc": dm(("name", ds(name)), (top, sec("HOST", "port", "maxconns", "TimeOut")))
    nm = F("Name", P("string"))
    shapes = [
        ("after", [nm, F("Server", limits), E([F("Server", listen)])], "Server"),
        ("before", [nm, E([F("Server", listen)]), F("Server", limits)], "Server"),
        ("ptr-embedded", [nm, F("Server", limits), E([F("Server", listen)], eptr=True)], "Server"),
        ("two-levels", [nm, F("Server", limits), E([E([F("Server", listen)])])], "Server"),
        ("case", [nm, F("server", limits), E([F("SERVER", listen)])], "Server"),
        ("other-type", [F("Title", P("string"), O(opt=True)), nm, F("Server", limits), E([F("Server", listen)])], "Server"),
        ("three", [nm, F("Server", limits), E([F("Server", listen)]), E([F("server", extra)])], "Server"),
        ("pointer-field", [nm, F("Server", Ptr(limits)), E([F("Server", listen)])], "Server"),
    ]
    orders = [["json", "yaml", "toml"], ["yaml", "toml", "json"], ["toml", "json", "yaml"], ["toml", "yaml", "json"],
              ["yaml", "json", "toml"], ["json", "toml", "yaml"]]
    cs = []
    for rnd in range(2):                  # every shape twice in the process, the second time in another format order
        for i, (tag, typ, top) in enumerate(shapes):
            cs.append({"kind": "load", "tag": "merge-%s-%d" % (tag, rnd), "type": typ, "doc": d(top), "doc2": d2(top.upper()),
                       "env": None, "order": orders[(i + 3 * rnd) % 6]})
    # nested in a member struct; the section types alone and in plain types (they must keep loading as before)
    inner = St(F("Server", limits), E([F("Server", listen)]))
    for rnd in range(2):
        cs.append({"kind": "load", "tag": "merge-nested-%d" % rnd, "type": [nm, F("Outer", inner)], "env": None, "order": orders[4 - rnd],
                   "doc": dm(("Name", ds("n")), ("Outer", dm(("Server", sec("Host", "Port", "MaxConns", "Timeout"))))),
                   "doc2": dm(("NAME", ds("n")), ("outer", dm(("SERVER", sec("host", "PORT", "maxConns", "timeout")))))})
    cs.append({"kind": "load", "tag": "merge-plain-limits", "type": [nm, F("Server", limits)], "env": None, "order": orders[1],
               "doc": dm(("Name", ds("p")), ("Server", dm(("MaxConns", di(1)), ("Host", ds("ignored"))))),
               "doc2": dm(("name", ds("p")), ("server", dm(("maxconns", di(1)), ("Host", ds("ignored")))))})
    cs.append({"kind": "load", "tag": "merge-plain-listen", "type": [nm, F("Server", listen), F("Limits", limits, O(opt=True))], "env": None, "order": orders[2],
               "doc": dm(("Name", ds("p")), ("Server", dm(("Host", ds("h")), ("Port", di(1)), ("MaxConns", di(9))))),
               "doc2": dm(("name", ds("p")), ("SERVER", dm(("host", ds("h")), ("PORT", di(1)), ("MaxConns", di(9)))))})
    return cs


def boundary_corpus():
    """ARITHMETIC DOMAINS (seeded change C17-11: a uint64 above MaxInt64 wrapped negative on the YAML path): integers at
    the type boundaries 2^31, 2^32, 2^53 (-1, +1), 2^63-1, 2^63, 2^63+1, 2^64-1 and negatives down to -2^63, at every
    position (field, list element, map value; map KEY in hand-written texts) into uint64 / int64 / float64 / string
    targets (any: below).  Values inside int64 run as three-format load cases; 2^63 .. 2^64-1 cannot be written in TOML
    and run as JSON + YAML cases (kind nulls / CaseNull: same verdict and equal values demanded, judged against the
    model).  (2^64 and beyond, below -2^63: yaml.v2 itself reads a float — not an integer document any more.)"""
    pos = [2 ** 31 - 1, 2 ** 31 + 1, 2 ** 32 - 1, 2 ** 32 + 1, 2 ** 53 - 1, 2 ** 53 + 1, 2 ** 63 - 1]
    neg = [-(2 ** 31) - 1, -(2 ** 32) - 1, -(2 ** 53) - 1, -(2 ** 63)]
    big = [2 ** 63, 2 ** 63 + 1, 2 ** 64 - 1]
    opt = O(opt=True)
    cs = []
    for k in ("uint64", "int64", "float64", "string"):
        typ = [F("X", P(k), opt), F("L", Sl(P(k)), opt), F("M", Mp(P(k)), opt), F("P", Ptr(P(k)), opt)]
        for v in pos + neg + big:
            kind = "nulls" if v in big else "load"
            fits = {"uint64": 0 <= v < 2 ** 64, "int64": -2 ** 63 <= v < 2 ** 63, "float64": True, "string": False}[k]
            parts = [("X", di(v)), ("L", dl(di(1), di(v))), ("M", dm(("k", di(v)), ("j", di(7)))), ("P", di(v))]
            docs = [dm(*parts)] if fits else [dm(p) for p in parts[:3]]
            # a float64 target of an integer with more than 15 digits: the model computes in exact decimals, so these are
            # judged by the property alone (three formats as a shape case; JSON + YAML with exact = false)
            inexact = k == "float64" and len(str(abs(v))) > 15
            for j, d in enumerate(docs):
                c = {"kind": kind, "tag": "bound-%s-%d-%d" % (k, v, j), "type": typ, "doc": d, "doc2": None, "env": None}
                if inexact and kind == "load":
                    c.update({"kind": "shape", "noload": False})
                elif inexact:
                    c["inexact"] = True
                cs.append(c)
    # map KEYS written as integers (YAML non-string keys, TOML bare keys); interface{} targets
    T = [F("MK", Mp(P("string")))]
    keys3 = pos + neg
    cs.append({"kind": "load", "tag": "bound-keys", "type": T, "env": None, "doc2": None,
               "doc": dm(("MK", dm(*[(str(v), ds("v%d" % i)) for i, v in enumerate(keys3)]))),
               "texts": {"json": json.dumps({"MK": {str(v): "v%d" % i for i, v in enumerate(keys3)}}),
                         "yaml": "MK:\n" + "".join("  %d: v%d\n" % (v, i) for i, v in enumerate(keys3)),
                         "toml": "[MK]\n" + "".join("%s = \"v%d\"\n" % (str(v) if v >= 0 else '"%d"' % v, i) for i, v in enumerate(keys3))}})
    cs.append({"kind": "nulls", "tag": "bound-keys-big", "type": T, "env": None, "doc2": None,
               "doc": dm(("MK", dm(*[(str(v), ds("v%d" % i)) for i, v in enumerate(big)]))),
               "texts": {"json": json.dumps({"MK": {str(v): "v%d" % i for i, v in enumerate(big)}}),
                         "yaml": "MK:\n" + "".join("  %d: v%d\n" % (v, i) for i, v in enumerate(big))}})
    cs.append({"kind": "shape", "tag": "bound-any", "env": None, "noload": False, "doc2": None,
               "type": [F("A", Mp(P("any"))), F("N", Mp(P("num")), O(opt=True))],
               "doc": dm(("A", dm(*[("k%d" % i, di(v)) for i, v in enumerate(pos + neg)] + [("l", dl(*[di(v) for v in pos + neg]))])),
                         ("N", dm(*[("k%d" % i, ds(str(v))) for i, v in enumerate(pos + neg)])))})
    return cs


def null_corpus():
    """documents WITH nulls, JSON and YAML only (TOML has no null, so they are outside the three-format quantifier):
    the executor witness of Props.yaml_null_refuted (JSON null is 'absent', YAML null arrives as the string "") and
    the same at the other kinds of position; judged against the model, and for 'no panic'"""
    opt = O(opt=True)
    T = [F("a", P("int"), opt), F("s", P("string"), opt), F("b", P("bool"), opt), F("f", P("float64"), opt), F("p", Ptr(P("int")), opt),
         F("l", Sl(P("int")), opt), F("ls", Sl(P("string")), opt), F("m", Mp(P("string")), opt), F("st", St(F("X", P("int"), opt)), opt)]
    docs = [dm(("a", NULL)), dm(("s", NULL)), dm(("b", NULL)), dm(("f", NULL)), dm(("p", NULL)), dm(("l", NULL)), dm(("m", NULL)), dm(("st", NULL)),
            dm(("l", dl(di(1), NULL))), dm(("ls", dl(ds("x"), NULL))), dm(("m", dm(("k", NULL)))), dm(("st", dm(("X", NULL)))),
            dm(("a", di(1)), ("s", NULL), ("l", dl()))]
    cs = [{"kind": "nulls", "tag": "null-%d" % i, "type": T, "doc": d, "doc2": None, "env": None} for i, d in enumerate(docs)]
    cs.append({"kind": "nulls", "tag": "null-required", "type": [F("a", P("int"))], "doc": dm(("a", NULL)), "doc2": None, "env": None})
    return cs


# ---------------------------------------------------------------------------- constants read from the source

def strip_go_comments(src):
    """Go source without // and /* */ comments (string, raw-string and rune literals are kept as they are)"""
    out, i, n = [], 0, len(src)
    while i < n:
        c = src[i]
        if c in "\"'`":
            j = i + 1
            while j < n and src[j] != c:
                if src[j] == "\\" and c != "`":
                    j += 1
                j += 1
            out.append(src[i:j + 1])
            i = j + 1
        elif src.startswith("//", i):
            j = src.find("\n", i)
            i = n if j < 0 else j
        elif src.startswith("/*", i):
            j = src.find("*/", i + 2)
            out.append(" ")
            i = n if j < 0 else j + 2
        else:
            out.append(c)
            i += 1
    return "".join(out)


def go_package_source(rel):
    """the non-test Go files of one package of the checked tree, comments removed, concatenated (a declaration may
    move to another file of the package without changing anything)"""
    d = os.path.join(vlib.REPO, rel)
    parts = []
    for fn in sorted(os.listdir(d)):
        if fn.endswith(".go") and not fn.endswith("_test.go"):
            parts.append(strip_go_comments(open(os.path.join(d, fn)).read()))
    return "\n".join(parts)


def go_func_body(src, name):
    """the text between the braces of `func name(...) ... {` (brace matching outside literals)"""
    m = re.search(r"\bfunc\s+%s\s*\(" % re.escape(name), src)
    if not m:
        return None
    i = src.find("{", m.end())
    # the parameter / result lists of the functions read here contain no braces except `interface{}`
    while i >= 0 and src[max(0, i - 9):i] == "interface":
        i = src.find("{", i + 2)
    if i < 0:
        return None
    depth, j, n = 0, i, len(src)
    while j < n:
        c = src[j]
        if c in "\"'`":
            k = j + 1
            while k < n and src[k] != c:
                if src[k] == "\\" and c != "`":
                    k += 1
                k += 1
            j = k
        elif c == "{":
            depth += 1
        elif c == "}":
            depth -= 1
            if depth == 0:
                return src[i + 1:j]
        j += 1
    return None


def regen_constants():
    """core/conf and internal/encoding of the checked tree -> coq/gen/C17Consts.v: the table extension -> loader
    of conf.Load, the struct tag key, and the Go number types that toStringKeyMap turns into json.Number (values
    only; entries are sorted, so re-ordering the source changes nothing; comments, white space, `any` vs
    `interface{}`, the file of the package a declaration sits in and the layout of the `case` list do not
    matter).  GenProofs.v proves that the model's fmt_of_ext IS this table etc."""
    src = go_package_source("core/conf")
    m = re.search(r"\bloaders\s*=\s*map\s*\[\s*string\s*\]\s*func\s*\(\s*\[\s*\]\s*byte\s*,\s*(?:any|interface\s*\{\s*\})\s*\)\s*error\s*\{(.*?)\}", src, re.S)
    if not m:
        raise RuntimeError("C17 translator: the loaders table was not found in core/conf")
    loaders = sorted(set(re.findall(r'"([^"]*)"\s*:\s*(\w+)', m.group(1))
                         + re.findall(r'\bloaders\s*\[\s*"([^"]*)"\s*\]\s*=\s*(\w+)', src)))     # entries added by assignment (init)
    if not loaders:
        raise RuntimeError("C17 translator: the loaders table is empty")
    m = re.search(r'\bjsonTagKey\s*(?:string\s*)?=\s*"([^"]*)"', src)
    if not m:
        raise RuntimeError("C17 translator: jsonTagKey not found in core/conf")
    tag = m.group(1)
    esrc = go_package_source("internal/encoding")
    body = go_func_body(esrc, "toStringKeyMap")
    if body is None:
        raise RuntimeError("C17 translator: toStringKeyMap not found in internal/encoding")
    kinds = []
    # clauses of the type switch: `case T1, T2, ...:` followed by the statements up to the next case / default
    for cm in re.finditer(r"\bcase\b([^:]*):(.*?)(?=\bcase\b|\bdefault\b|\Z)", body, re.S):
        if re.search(r"\bconvertNumberToJsonNumber\s*\(", cm.group(2)):
            kinds += [x.strip() for x in cm.group(1).split(",") if x.strip()]
    kinds = sorted(set(kinds))
    text = "\n".join([
        "(* GENERATED by tools/props/c17.py from core/conf/config.go and internal/encoding/encoding.go of the",
        "   checked tree at every run - do not edit. *)",
        "From Coq Require Import List String.",
        "Import ListNotations.",
        "Open Scope string_scope.",
        "Definition gen_loaders : list (string * string) := %s." % clist(['("%s", "%s")' % (e, f) for e, f in loaders]),
        "Definition gen_tag_key : string := \"%s\"." % tag,
        "Definition gen_yaml_number_kinds : list string := %s." % clist(['"%s"' % k for k in kinds]), ""])
    path = os.path.join(vlib.COQ, "gen", "C17Consts.v")
    os.makedirs(os.path.dirname(path), exist_ok=True)
    old = open(path).read() if os.path.exists(path) else None
    if old != text:
        tmp = path + ".tmp%d" % os.getpid()
        with open(tmp, "w") as f:
            f.write(text)
        os.replace(tmp, path)
    return loaders, tag, kinds, old != text


# ---------------------------------------------------------------------------- the property

class C17(Property):
    id = "C17"
    title = "Configuration loading is format-independent and agrees with encoding/json"
    quick_cases = 560
    model_targets = ["theories/C17/Check.vo", "theories/C17/KnownCheck.vo"]
    thorough_cases = 9000
    design_ref = "DESIGN.md §6/C17"
    level = "proof"
    level_text = ("Proof-with-oracles: unbounded Rocq theorems over the executable model of conf.LoadFrom{Json,Yaml,Toml}Bytes "
                  "(buildFieldsInfo, toLowerCaseKeyMap, C08's unmarshaller) for every type of the modelled family and every "
                  "document: format independence, case-insensitive keys, env expansion only on request, agreement with a "
                  "reference model of encoding/json; the behaviour of the YAML / TOML / JSON parsers and printers and of the "
                  "float re-rendering enters as explicit hypotheses (Section variables / per-document booleans), which the "
                  "harness exercises on every case by dumping the tree each front end hands to LoadFromJsonBytes.")
    level_note = ("Trusted: Coq kernel + vm_compute; hand-written models of conf, internal/encoding and of encoding/json's "
                  "decoder tied by correspondence on generated (type, document) pairs; yaml.v2, go-toml/v2, encoding/json, "
                  "strconv are hypotheses, not modelled. Known findings F8a/F8b (+ F8c..F8e found while building) are refuted "
                  "witnesses next to the positive theorems.")
    rule = ("load cases: generated struct types (14 scalar kinds, pointers incl. **, slices, maps, nested and embedded structs, "
            "optional/default/range/options), documents with right- and wrong-typed values, re-cased twin, optional environment "
            "(references in values and keys), properties lines; std: plain-tag types, JSON incl. nulls; mfmt: mapping's own "
            "YAML/TOML/JSON entry points; shape: every nesting of *,**,[],[N],map over structs / declared types / Duration / "
            "json.Number / any / []byte up to depth 3; bad: malformed texts; hand-written YAML/TOML syntax; non-trivial = a format "
            "accepted and the document is nested / has a float literal / a re-cased key (shape: the lower-cased map differs from "
            "the document as written); distinct = canonical JSON hash")
    trusted_base = [
        "models theories/C17/Model.v (conf, internal/encoding, reference encoding/json decoder) are hand-written; tie = correspondence run",
        "third-party parsers/printers (encoding/json, gopkg.in/yaml.v2, go-toml/v2) and strconv float formatting: Section hypotheses "
        "`parse f (render f d) = Some (shape rf f d)` and the per-document boolean `leaves_ok rf d`, both evaluated on every case "
        "(intermediate JSON of encoding.YamlToJson/TomlToJson dumped by harness/overlay/encoding/verif_c17_test.go)",
        "os.ExpandEnv is modelled for ${NAME}/$NAME only; generated strings stay inside that fragment",
        "wide type shapes (arrays, declared types, Duration, json.Number, any, []byte): only the conf layer is modelled (Shapes.v, tied "
        "white-box by harness/overlay/conf/verif_c17_test.go); decoded values are compared between formats / twins as opaque dumps",
        "known findings are suppressed only if C17/KnownCheck.v says the model reproduces every observation of the case",
        "C08's unmarshaller model (theories/C08) and its trusted base",
    ]
    assumptions = ["float literals have <= 15 significant digits (exact decimal = float64 behaviour)",
                   "ASCII keys (strings.ToLower = ASCII lower)",
                   "no two keys of one object collide after lower-casing (Go map order would decide)"]

    def regen(self, ctx):
        loaders, tag, kinds, changed = regen_constants()
        return ["C17Consts.v %s: loaders=%s tag=%s yaml-number-kinds=%d" %
                ("rewritten" if changed else "unchanged", ",".join(e for e, _ in loaders), tag, len(kinds))]

    def prepare(self, ctx):
        ok, res = vlib.go_build("c17")
        self.bin = res if ok else None
        if ok:
            # the white-box executor in core/conf uses the very same type builder: harness/c17t/types.go
            # with its package clause rewritten
            src = open(os.path.join(vlib.ROOT, "harness", "c17t", "types.go")).read()
            txt, n = re.subn(r"(?m)^package c17t$", "package conf", src, count=1)
            if n != 1:
                return False, "harness/c17t/types.go: package clause not found"
            d = os.path.join(vlib.ROOT, ".run", "c17")
            os.makedirs(d, exist_ok=True)
            self.types_copy = os.path.join(d, "verif_c17_types_test.go")
            if not os.path.exists(self.types_copy) or open(self.types_copy).read() != txt:
                tmp = self.types_copy + ".tmp%d" % os.getpid()
                with open(tmp, "w") as f:
                    f.write(txt)
                os.replace(tmp, self.types_copy)
        return ok, ("" if ok else res)

    # ---- cases
    def corpus(self):
        I = [F("a", P("int"))]
        cs = [
            {"kind": "load", "type": [F("Name", P("string")), F("Port", P("int"), O(def_="80") if False else O(**{"def": "80"})),
                                      E([F("Host", P("string"))]), F("Tags", Sl(P("string")), O(opt=True))],
             "doc": dm(("name", ds("svc")), ("HOST", ds("h")), ("tags", dl(ds("a"), di(7)))),
             "doc2": dm(("NAME", ds("svc")), ("host", ds("h")), ("Tags", dl(ds("a"), di(7)))), "env": None},
            {"kind": "load", "type": [F("f", P("float64")), F("g", P("float32")), F("l", Sl(Sl(P("int")))),
                                      F("m", Mp(Mp(Sl(P("int")))))],
             "doc": dm(("f", dfl("1.50")), ("g", dfl("2.5e3")), ("l", dl(dl(), dl(di(1)))),
                       ("m", dm(("o", dm(("i", dl(di(3))), ("j", dl(di(2)))))))), "doc2": None, "env": None},
            {"kind": "load", "type": [F("s", P("string")), F("t", P("string"), O(opt=True))],
             "doc": dm(("s", ds("${C17_A}/x")), ("t", ds("$C17_UNSET"))), "doc2": None, "env": {"C17_A": "valueA"}},
            # env references at several kinds of position + a properties file: loaded with UseEnv first, then without
            {"kind": "load", "tag": "env-sequence", "type": [F("Dsn", P("string")), F("Pass", Ptr(P("string")), O(opt=True)), F("Hosts", Sl(P("string"))),
                                      F("Labels", Mp(P("string")), O(opt=True))],
             "doc": dm(("Dsn", ds("tcp($C17_B:3306)/db")), ("Pass", ds("${C17_A}")), ("Hosts", dl(ds("$C17_A"), ds("plain"))),
                       ("Labels", dm(("zone", ds("pre-${C17_A}-post")), ("cost", ds("5$"))))),
             "doc2": dm(("dsn", ds("tcp($C17_B:3306)/db")), ("PASS", ds("${C17_A}")), ("hosts", dl(ds("$C17_A"), ds("plain"))),
                        ("LABELS", dm(("zone", ds("pre-${C17_A}-post")), ("cost", ds("5$"))))),
             "env": {"C17_A": "valueA", "C17_B": "srv.local"},
             "props": [["k1", "${C17_A}"], ["db.url", "tcp(${C17_A}:3306)/db"], ["plain", "cost 5$"]]},
            {"kind": "load", "type": [F("Name", P("string")), F("name", P("int"))], "doc": dm(("Name", ds("x"))), "doc2": None,
             "env": None},
            {"kind": "load", "type": I, "doc": dm(("a", dfl("1.5"))), "doc2": None, "env": None},
            {"kind": "load", "type": [F("Value", Mp(Mp(St(F("User", P("string")), F("Age", P("int"), O(opt=True)))))),
                                      F("L", Sl(Mp(St(F("Id", P("int"))))))],
             "doc": dm(("Value", dm(("first", dm(("User1", dm(("User", ds("u")), ("Age", di(3)))))))),
                       ("L", dl(dm(("K", dm(("Id", di(1)))))))),
             "doc2": dm(("value", dm(("first", dm(("User1", dm(("USER", ds("u")), ("age", di(3)))))))),
                        ("l", dl(dm(("K", dm(("ID", di(1)))))))), "env": None},
            {"kind": "std", "type": [F("a", P("int")), F("m", Mp(P("int"))), F("p", Ptr(P("string"))),
                                     E([F("z", Sl(P("float64")))])],
             "doc": dm(("a", di(2)), ("m", dm(("x", di(1)))), ("p", ds("s")), ("z", dl(dfl("1.5"), NULL))),
             "doc2": None, "env": None},
        ]
        flagged = [
            (K_F8A, {"kind": "load", "type": I, "doc": dm(("a", dfl("1.0"))), "doc2": None, "env": None}),
            (K_F8A, {"kind": "load", "type": [F("a", P("uint64"))], "doc": dm(("a", dfl("1e19"))), "doc2": None, "env": None}),
            (K_ELEM, {"kind": "load", "type": [F("a", Sl(P("string")))], "doc": dm(("a", dl(dfl("1.50")))), "doc2": None,
                      "env": None}),
            (K_ELEM, {"kind": "load", "type": [F("a", Sl(P("bool")))], "doc": dm(("a", dl(dfl("1.0")))), "doc2": None,
                      "env": None}),
            (K_EMB, {"kind": "std", "type": [E([F("a", P("int"))], tag="inner")],
                     "doc": dm(("inner", dm(("a", di(1)))), ("a", di(2))), "doc2": None, "env": None}),
            (K_DUP, {"kind": "std", "type": I, "doc": dm(("a", di(2)), ("A", di(1))), "doc2": None, "env": None}),
            (K_DUP, {"kind": "std", "type": [F("m", Mp(P("int")))], "doc": dm(("M", dm(("x", di(1))))), "doc2": None,
                     "env": None}),
            (K_MAP, {"kind": "std", "type": [F("m", Mp(P("int")))], "doc": dm(), "doc2": None, "env": None}),
            (K_NULLS, {"kind": "std", "type": [F("a", Sl(P("int")))], "doc": dm(("a", dl(NULL, NULL))), "doc2": None,
                       "env": None}),
            # the exact witnesses of Props.float_into_string_element_refuted / absent_pointer_refuted
            (K_ELEM, {"kind": "load", "type": [F("a", Sl(P("string")))], "doc": dm(("a", dl(dfl("1e21")))), "doc2": None,
                      "env": None}),
            (K_PTR, self.absent_pointer_witness()),
        ]
        if fix_landed():
            cs.append({"kind": "load", "type": [F("m", Mp(Mp(Sl(P("int")))))],
                       "doc": dm(("m", dm(("o", dm(("i", dl()), ("j", dl(di(2)))))))), "doc2": None, "env": None})
            S1 = St(F("LogLevel", P("float32")))
            S2 = St(F("User", P("string")))
            cs += [
                {"kind": "load", "type": [F("K", Mp(Mp(Sl(S1))))],
                 "doc": dm(("K", dm(("1", dm(("Y", dl(dm(("LogLevel", dfl("0.5")))))))))),
                 "doc2": dm(("k", dm(("1", dm(("Y", dl(dm(("loglevel", dfl("0.5")))))))))), "env": None},
                {"kind": "load", "type": [F("Value", Mp(Mp(S2))), F("L", Sl(Mp(S2)), O(opt=True))],
                 "doc": dm(("Value", dm(("first", dm(("User", dm(("User", ds("u")))))))), ("L", dl(dm(("User", dm(("USER", ds("w")))))))),
                 "doc2": dm(("VALUE", dm(("first", dm(("User", dm(("user", ds("u")))))))), ("l", dl(dm(("User", dm(("User", ds("w")))))))),
                 "env": None},
            ]
        cs = merge_corpus() + spelling_corpus() + number_corpus() + boundary_corpus() + cs + raw_corpus() + bad_corpus() + null_corpus() + lexeme_corpus()
        # aliasing witnesses (seeded change C17-4): two entries, two cells
        for kind, key in (("std", "limits"), ("load", "Limits"), ("mfmt", "Limits")):
            cs.append({"kind": kind, "type": [F(key, Mp(Ptr(P("int")))), F("rates", Mp(Mp(Ptr(P("float64")))), None if kind == "std" else O(opt=True))],
                       "doc": dm((key, dm(("a", di(1)), ("b", di(2)))), ("rates", dm(("x", dm(("p", dfl("1.5")), ("q", dfl("0.25"))))))),
                       "doc2": None, "env": None})
        # regression witnesses of the type-shape class (seeded change C17-3 and the two repairs found with it)
        node = lambda h, c: dm((h, ds("h1")), (c, di(3)))
        cs.append({"kind": "shape", "type": [F("Nodes", Sl(Ptr(Nm("Node"))))], "env": None, "noload": False,
                   "doc": dm(("Nodes", dl(node("Host", "maxConn"), node("HOST", "MaxConn")))),
                   "doc2": dm(("nodes", dl(node("host", "maxconn"), node("host", "maxconn"))))})
        cs.append({"kind": "shape", "type": [F("Peers", Arr(2, Ptr(Ptr(Nm("Node"))))), F("ByZone", Mp(Sl(Ptr(Mp(Nm("Node"))))))],
                   "env": None, "noload": True,
                   "doc": dm(("Peers", dl(node("Host", "maxConn"), node("Host", "maxConn"))),
                             ("ByZone", dm(("Host", dl(dm(("maxConn", node("Host", "maxConn")))))))),
                   "doc2": dm(("PEERS", dl(node("hOST", "MAXCONN"), node("host", "maxconn"))),
                              ("byzone", dm(("Host", dl(dm(("maxConn", node("HOST", "maxconn"))))))))})
        if fix_landed(FIX_ANON):
            cs.append({"kind": "shape", "type": [ET("Nodes"), F("svcName", P("string"), O(opt=True))], "env": None, "noload": False,
                       "doc": dm(("C17Nodes", dl(node("Host", "maxConn")))),
                       "doc2": dm(("c17nodes", dl(node("host", "maxconn"))))})
        if fix_landed(FIX_DUR):
            cs.append({"kind": "shape", "type": [F("Timeout", P("dur")), F("Idle", Ptr(P("dur")), O(opt=True))], "env": None,
                       "noload": False, "doc": dm(("Timeout", di(1000)), ("Idle", ds("1m"))),
                       "doc2": dm(("TIMEOUT", di(1000)), ("idle", ds("1m")))})
        # anonymous fields of declared scalar / map types; a key claimed twice (conflict error for every document);
        # two struct-typed fields under one canonical key, one of them promoted from an embedded struct (merged)
        cs.append({"kind": "shape", "type": [ET("MyInt"), F("svcName", P("string"), O(opt=True))], "env": None, "noload": False,
                   "doc": dm(("C17MyInt", di(7)), ("svcName", ds("x"))), "doc2": dm(("c17myint", di(7)), ("SVCNAME", ds("x")))})
        cs.append({"kind": "shape", "type": [ET("NodeMap")], "env": None, "noload": False,
                   "doc": dm(("C17NodeMap", dm(("Host", node("Host", "maxConn"))))),
                   "doc2": dm(("c17NODEmap", dm(("Host", node("HOST", "MAXconn")))))})
        cs.append({"kind": "shape", "type": [E([], name="MapClash"), F("svcName", P("string"), O(opt=True))], "env": None,
                   "noload": False, "doc": dm(("c17nodemap", ds("x"))), "doc2": None})
        cs.append({"kind": "shape", "type": [F("C17MyStr", Mp(P("int"))), ET("MyStr")], "env": None, "noload": False,
                   "doc": dm(("C17MyStr", ds("x"))), "doc2": None})
        cs.append({"kind": "load", "type": [E([F("DB", St(F("Host", P("string"))))]), F("db", St(F("Port", P("int"))))], "env": None,
                   "doc": dm(("DB", dm(("Host", ds("h")), ("PORT", di(1))))), "doc2": dm(("Db", dm(("HOST", ds("h")), ("port", di(1)))))})
        # a map-typed field promoted onto a key that a struct already holds; two promoted structs sharing a member
        cs.append({"kind": "load", "type": [F("Cfg", St(F("X", P("int")))), E([F("cfg", Mp(P("int")))])], "env": None,
                   "doc": dm(("Cfg", dm(("X", di(1))))), "doc2": None})
        cs.append({"kind": "load", "type": [E([F("DB", St(F("Host", P("string"))))]), F("db", St(F("HOST", P("int"))))], "env": None,
                   "doc": dm(("DB", dm(("Host", ds("h"))))), "doc2": None})
        if fix_landed(FIX_ANON):
            cs.append({"kind": "shape", "type": [F("c17nodes", P("int")), ET("Nodes")], "env": None, "noload": False,
                       "doc": dm(("c17nodes", di(1))), "doc2": None})
        # members filled from a default LIST / from the environment / from the enclosing object: two loads, two values
        cs.append({"kind": "shape", "type": [F("tags", Sl(P("string")), O(**{"def": "[a,b]"})), F("nums", Sl(P("int")), O(opt=True, **{"def": "[1,2]"})),
                                             F("Svc", St(F("port", P("int"), O(env="C17_TAGPORT")), F("name", P("string"), O(env="C17_TAGENV", opt=True))), O(opt=True))],
                   "env": None, "noload": False, "doc": dm(("Svc", dm())), "doc2": dm(("SVC", dm()))})
        cs.append({"kind": "shape", "type": [F("Host", P("string")), F("Sub", St(F("host", P("string"), O(inherit=True)), F("name", P("string"))))],
                   "env": None, "noload": False, "doc": dm(("Host", ds("h")), ("Sub", dm(("name", ds("nm"))))),
                   "doc2": dm(("HOST", ds("h")), ("sub", dm(("NAME", ds("nm")))))})
        if fix_landed(FIX_MBOOL):
            cs.append({"kind": "shape", "type": [F("Flags", Mp(Nm("MyBool"))), F("Names", Mp(Nm("MyStr")), O(opt=True))], "env": None,
                       "noload": False, "doc": dm(("Flags", dm(("Kk", db(True)))), ("Names", dm(("a", ds("x"))))),
                       "doc2": dm(("FLAGS", dm(("Kk", db(True)))), ("names", dm(("a", ds("x")))))})
        kids = vlib.known_ids(self.id)
        for kid, c in flagged:
            if kid in kids:        # kept out until the coordinator has added the known-finding line
                c["flag"] = kid
                cs.append(c)
        return cs

    def gen(self, rng, n, tier):
        g = Gen(rng, tier)
        cases = []
        self.skipped = getattr(self, "skipped", {})
        tries = 0
        landed = fix_landed()
        n_shape = max(40, n // 5)
        n_main = n - n_shape - max(24, n // 20) - 48 - max(16, n // 40) - max(12, n // 40)
        while len(cases) < n_main and tries < 20 * n:
            tries += 1
            r = rng.random()
            c = g.load_case() if r < 0.57 else (g.std_case() if r < 0.9 else g.mfmt_case())
            shapes = detect_shapes(c)
            if shapes and c["kind"] == "mfmt":
                continue
            if shapes:
                # most instances of a registered deviation are left out; some are run, and must then be
                # EXACTLY the registered deviation (known(): the model has to reproduce them)
                if rng.random() < 0.85:
                    for s_ in shapes:
                        self.skipped[s_] = self.skipped.get(s_, 0) + 1
                    continue
                c["flag"] = sorted(shapes)[0]
            if c["kind"] == "load" and lower_collisions(c):
                continue
            if not landed and nested_map_shape(c):      # only after the repair of buildFieldsInfo is in the tree
                self.skipped[FIX_ID] = self.skipped.get(FIX_ID, 0) + 1
                continue
            cases.append(c)
        grid = [c for c in g.option_grid() if not detect_shapes(c)]
        if tier != "quick":
            cases += grid
        else:
            # the OPTIONAL embedded struct x member {plain, optional, default} x {absent, present} x {other member absent,
            # present} x {value, pointer} part always (processAnonymousStructFieldOptional: mutation sweep survivors
            # m028 / m029 / m051 were missed when the sample left these out), a sample of the rest
            fixed = [c for c in grid if any(f.get("emb") and f.get("eopt") for f in c["type"])]
            rest = [c for c in grid if not any(f.get("emb") and f.get("eopt") for f in c["type"])]
            cases += fixed + rng.sample(rest, min(len(rest), max(0, 48 - len(fixed))))
        for _ in range(max(16, n // 40)):
            c = g.spelling_case()
            if c is not None and (landed or not nested_map_shape(c)):
                cases.append(c)
        n_alias = 0
        while n_alias < max(24, n // 20):
            c = g.alias_case(["load", "std", "mfmt"][n_alias % 3])
            if detect_shapes(c):
                continue
            cases.append(c)
            n_alias += 1
        cases += shape_cases(rng, n_shape, fix_landed(FIX_DUR), fix_landed(FIX_ANON), fix_landed(FIX_MBOOL))
        # load AGAIN what was loaded before (another format order): the result of a load is a function of (type, document)
        loads = [c for c in cases if c["kind"] == "load" and not c.get("env")]
        orders = [["yaml", "toml", "json"], ["toml", "json", "yaml"], ["toml", "yaml", "json"]]
        for j, c in enumerate(rng.sample(loads, min(len(loads), max(12, n // 40)))):
            c2 = copy.deepcopy(c)
            c2["order"] = orders[j % 3]
            cases.append(c2)
        return cases

    # ---- execution
    def conf_overlay(self):
        return {"core/conf/verif_c17_test.go": vlib.ROOT + "/harness/overlay/conf/verif_c17_test.go",
                "core/conf/verif_c17_types_test.go": self.types_copy}

    def execute(self, cases, ctx):
        rc, out, res = vlib.go_run(self.bin, cases, tag="c17", timeout=900)
        if rc != 0 or len(res) != len(cases):
            raise ExecError("c17 executor rc=%s (%d/%d): %s" % (rc, len(res), len(cases), out[-2000:]))
        sub, where = [], []          # internal/encoding: what the front ends hand to LoadFromJsonBytes
        wsub, wwhere = [], []        # core/conf: buildFieldsInfo / toLowerCaseKeyMap
        for i, (c, r) in enumerate(zip(cases, res)):
            if r.get("fail"):
                raise ExecError("c17 executor: case %s: %s" % (c.get("id"), r["fail"]))
            want = describe_fields(c["type"])
            if r.get("tdesc") != want:
                raise ExecError("c17 executor: case %s: the built type is not the generated one:\n  built     %s\n  generated %s"
                                % (c.get("id"), r.get("tdesc"), want))
            if c["kind"] == "load":
                sub.append({"id": len(sub), "texts": r["texts"], "env": c.get("env")})
                where.append((i, "mid"))
                if r.get("texts2"):
                    sub.append({"id": len(sub), "texts": r["texts2"], "env": None})
                    where.append((i, "mid2"))
            if c["kind"] in ("load", "shape"):
                wsub.append({"id": len(wsub), "type": c["type"], "json": r["texts"]["json"],
                             "json2": (r.get("texts2") or {}).get("json", ""),
                             "yaml": r["texts"].get("yaml", "") if c["kind"] == "load" else "",
                             "toml": r["texts"].get("toml", "") if c["kind"] == "load" else ""})
                wwhere.append(i)

        def run_mid():
            if not sub:
                return []
            rc, out, rs = vlib.go_test_overlay("./internal/encoding", OVERLAY, "TestVerifC17$", sub, tag="c17mid", timeout=900)
            if rc != 0 or len(rs) != len(sub):
                raise ExecError("c17 intermediate dump rc=%s (%d/%d): %s" % (rc, len(rs), len(sub), out[-2500:]))
            return rs

        def run_conf():
            if not wsub:
                return []
            rc, out, rs = vlib.go_test_overlay("./core/conf", self.conf_overlay(), "TestVerifC17Conf$", wsub, tag="c17conf",
                                               timeout=900)
            if rc != 0 or len(rs) != len(wsub):
                raise ExecError("c17 conf white-box run rc=%s (%d/%d): %s" % (rc, len(rs), len(wsub), out[-2500:]))
            return rs

        with concurrent.futures.ThreadPoolExecutor(max_workers=2) as ex:
            f1, f2 = ex.submit(run_mid), ex.submit(run_conf)
            rs, ws = f1.result(), f2.result()
        for (i, slot), m in zip(where, rs):
            res[i][slot] = m["mid"]
            res[i]["retained"] = res[i].get("retained", True) and bool(m.get("retained"))
            if slot == "mid" and m.get("midenv"):
                res[i]["midenv"] = m["midenv"]
        for i, w in zip(wwhere, ws):
            if w.get("fail"):
                raise ExecError("c17 conf white-box: case %s: %s" % (cases[i].get("id"), w["fail"]))
            if w.get("tdesc") != res[i].get("tdesc"):
                raise ExecError("c17 conf white-box: case %s: the two executors built different types" % cases[i].get("id"))
            res[i]["white"] = {k: w.get(k) for k in ("infoerr", "info", "lc", "lc2", "lcerr")}
            if w.get("inter"):
                res[i]["inter"] = w["inter"]
        # the same (type, document) loaded again later in the process: every result as the first time
        def outcome(r):
            strip = lambda m: {k: (v.get("verdict"), v.get("val")) for k, v in (m or {}).items()}
            return json.dumps([strip(r.get(k)) for k in ("load", "load2", "byext", "must", "depr")], sort_keys=True)
        firsts = {}
        for i, (c, r) in enumerate(zip(cases, res)):
            if c["kind"] != "load":
                continue
            key = json.dumps([c["type"], c["doc"], c.get("doc2"), c.get("env"), c.get("texts"), c.get("texts2")], sort_keys=True)
            if key in firsts:
                r["again"] = outcome(r) == firsts[key]
            else:
                firsts[key] = outcome(r)
        for r in res:
            r.pop("id", None)
        # known findings are suppressed only where the deviation is EXACTLY the registered one: the model
        # (which has these behaviours, see the ..._refuted theorems) must reproduce every observation
        flagged = [i for i, c in enumerate(cases) if c["kind"] in ("load", "std") and detect_shapes(c)]
        if flagged:
            terms = [self.coq_case(cases[i], res[i]) for i in flagged]
            ks = vlib.coq_eval_cases(self.id, "C17.KnownCheck", terms)
            for i, (a, p) in zip(flagged, ks):
                res[i]["known_exact"] = bool(a and p)
        return res

    def coq_case(self, case, obs):
        return with_lets(lambda: self.coq_case_body(case, obs))

    def coq_case_body(self, case, obs):
        if case["kind"] == "std":
            return "CaseStd %s %s %s %s" % (ccfields(case["type"]), cdoc(case["doc"]), cob(obs.get("mapping")),
                                            cob(obs.get("stdjson")))
        if case["kind"] == "bad":
            return "CaseBad %s %s" % (cfields(case["type"]), cob3(obs.get("load") or {}))
        if case["kind"] == "mfmt":
            mc = obs.get("mcanon") or {}
            return "CaseMFmt %s %s %s %s %s %s" % (cfields(case["type"]), cdoc(case["doc"]), cob3(obs.get("mbytes") or {}),
                                                  cob3(obs.get("mreaders") or {}), cob3(mc),
                                                  cob3({f: mc.get("r" + f) for f in ("json", "yaml", "toml")}))
        if case["kind"] == "nulls":
            l = obs.get("load") or {}
            return "CaseNull %s %s %s %s %s" % (cfields(case["type"]), cdoc(case["doc"]), cob(l.get("json")), cob(l.get("yaml")),
                                                cbool(not case.get("inexact")))
        d2 = case.get("doc2")
        w = obs.get("white") or {}
        info = "None"
        if w:
            info = "(Some %s)" % cfinfo(None if w.get("infoerr") else w.get("info"))
        if case["kind"] == "shape":
            return "CaseShape %s %s %s %s %s %s %s %s" % (
                cxfields(case["type"]), cdoc(case["doc"]), copt(cdoc(d2) if d2 else None), info,
                clc(w.get("lc")), clc(w.get("lc2")),
                copt(cobx3(obs["load"]) if obs.get("load") else None),
                copt(cobx3(obs["load2"]) if obs.get("load2") else None))
        env = case.get("env")
        ex = "None"
        if obs.get("byext") is not None:
            props = []
            for k, v in case.get("props") or []:
                props.append("(%s, %s, %s, %s)" % (
                    cstr(k), cstr(v),
                    copt(cstr(obs["propsoff"][k]) if obs.get("propsoff") and k in obs["propsoff"] else None),
                    copt(cstr(obs["propson"][k]) if obs.get("propson") and k in obs["propson"] else None)))
            inter = ["(%s, %s)" % (cob(obs["inter"][f][0]), cob(obs["inter"][f][1])) for f in ("yaml", "toml") if f in (obs.get("inter") or {})]
            ex = "(Some (mkExtra %s %s %s %s %s %s %s %s %s %s %s %s %s %s))" % (
                clist(["(%s, %s)" % (cstr(e), cob(r)) for e, r in sorted(obs["byext"].items())]),
                clist(["(%s, %s)" % (cstr(e), cob(r)) for e, r in sorted((obs.get("must") or {}).items())]),
                cob(obs.get("fill")), copt(cob3(obs["envref"]) if obs.get("envref") else None),
                copt(cob3(obs["envmust"]) if obs.get("envmust") else None),
                clist(["(%s, %s)" % (cstr(e), cob(r)) for e, r in sorted((obs.get("depr") or {}).items())]),
                clist(props), clist([cob(r) for r in obs.get("plain") or []]), cbool(obs.get("retained", True)), clist(inter), info, clc(w.get("lc")), clc(w.get("lc2")), cbool(obs.get("again", True)))
        return "CaseLoad %s %s %s %s %s %s %s %s %s %s %s %s" % (
            cfields(case["type"]), cdoc(case["doc"]),
            copt(cdoc(d2) if d2 else None),
            copt(clist(["(%s, %s)" % (cstr(k), cstr(v)) for k, v in sorted(env.items())]) if env is not None else None),
            cmid3(obs.get("mid") or {}),
            copt(cmid3(obs["mid2"]) if obs.get("mid2") else None),
            copt(cmid3(obs["midenv"]) if obs.get("midenv") else None),
            cob3(obs.get("load") or {}),
            copt(cob3(obs["load2"]) if obs.get("load2") else None),
            copt(cob3(obs["envon"]) if obs.get("envon") else None),
            copt(cob3(obs["envoff"]) if obs.get("envoff") else None), ex)

    # ---- concurrent loads (direct monitor)
    def extra(self, ctx):
        """k goroutines, each loading ITS OWN document (its own type, one of the five YAML / TOML / JSON entry
        points) over and over while the others do the same: every result must be the one the same load gives
        sequentially — nothing a loader returns or uses between its steps may be shared with another load"""
        import random
        self.exclusions_still_witnessed(ctx)
        rng = random.Random(ctx.seed * 31 + 5)
        g = Gen(rng, "quick")
        base = []
        while len(base) < 10:
            c = g.load_case()
            c["env"] = None
            c.pop("props", None)
            c["doc2"] = None
            if detect_shapes(c) or lower_collisions(c) or (not fix_landed() and nested_map_shape(c)):
                continue
            base.append(c)
        for i, c in enumerate(base):
            c["id"] = i
        rc, out, res = vlib.go_run(self.bin, base, tag="c17concprep", timeout=300)
        if rc != 0 or len(res) != len(base):
            raise ExecError("c17 executor (conc, rendering) rc=%s: %s" % (rc, out[-1500:]))
        fmts = ["yaml", "toml", "json", "myaml", "mtoml", "yaml", "toml", "yaml", "toml", "json"]
        members = []
        for c, r, f in zip(base, res, fmts):
            if r.get("fail"):
                raise ExecError("c17 executor (conc, rendering): %s" % r["fail"])
            members.append({"type": c["type"], "format": f, "text": r["texts"][f[-4:]]})
        thorough = ctx.tier == "thorough"
        case = {"id": 0, "kind": "conc", "type": [], "doc": dm(), "members": members, "rounds": 2000 if thorough else 300}
        binp = self.bin
        if thorough:
            ok, rb = vlib.go_build("c17", race=True)
            if not ok:
                raise ExecError("c17 -race build failed: %s" % rb[-1500:])
            binp = rb
        rc, out, res = vlib.go_run(binp, [case], tag="c17conc", timeout=900)
        if thorough:
            vlib.go_build("c17")          # leave the plain binary in place
        fails = []
        if "DATA RACE" in out:
            fails.append({"what": "the race detector reports a data race between concurrent configuration loads",
                          "replay": {"case": case, "output": out[-4000:]}})
        if rc != 0 or len(res) != 1 or res[0].get("fail"):
            if not fails:
                raise ExecError("c17 executor (conc) rc=%s: %s" % (rc, (out or "")[-1500:] + str(res)[:500]))
            return fails
        for m, o in zip(members, res[0]["conc"]):
            if o["distinct"] != [o["seq"]]:
                fails.append({"what": "a load running concurrently with loads of OTHER documents returned something else than the "
                                      "same load alone (format %s)" % m["format"],
                              "replay": {"member": m, "sequential": o["seq"], "concurrent_distinct": o["distinct"][:4],
                                         "all_members": members, "rounds": case["rounds"]}})
                break
        return fails

    # ---- reporting
    def known(self, case, obs):
        """a registered deviation is suppressed only if (1) the case has the registered shape and (2) the
        model, which has exactly the registered behaviour, reproduces EVERYTHING that was observed, and
        what fails is only the comparison the finding is about (C17/KnownCheck.v)"""
        if case["kind"] not in ("load", "std") or not obs.get("known_exact"):
            return None
        shapes = detect_shapes(case)
        for kid in (K_F8A, K_ELEM, K_EMB, K_DUP, K_MAP, K_NULLS, K_PTR):
            if kid in shapes:
                return kid
        return None

    @staticmethod
    def absent_pointer_witness():
        return {"kind": "std", "type": [F("p", Ptr(St()))], "doc": dm(), "doc2": None, "env": None}

    def exclusions_still_witnessed(self, ctx):
        """Every `..._refuted` theorem of Props.v that records a deliberate difference (between the formats, or
        from encoding/json) has its exact witness among the fixed cases (flagged corpus cases, null_corpus); the
        model HAS these differences, so a witness that stops differing on the tree shows as a disagreement.  The
        one witness that is not a registered known finding (absent *struct{}: Props.absent_pointer_refuted) is
        run here: the model must reproduce it and the two decoders must still differ on it."""
        if K_PTR in vlib.known_ids(self.id):
            return            # registered: it runs with the flagged corpus cases
        import runner
        c = self.absent_pointer_witness()
        c["id"] = 0
        r = runner.evaluate(self, ctx, [c])[0]
        if not r["agrees"] or r["prop_ok"]:
            raise ExecError("the exclusion recorded by Props.absent_pointer_refuted (an absent *struct{} field: allocated by mapping, "
                            "nil for encoding/json) is no longer witnessed by the tree: mapping=%s encoding/json=%s (model agrees: %s)"
                            % (json.dumps(r["obs"].get("mapping")), json.dumps(r["obs"].get("stdjson")), r["agrees"]))

    def nontrivial(self, case, obs):
        txt = json.dumps(case["doc"])
        rich = '"fl"' in txt or txt.count('"m"') > 1 or '"l"' in txt or bool(case.get("doc2"))
        if case["kind"] == "std":
            return rich and (obs.get("mapping") or {}).get("verdict") == "ok" and (obs.get("stdjson") or {}).get("verdict") == "ok"
        if case["kind"] == "mfmt":
            return rich and any(r.get("verdict") == "ok" for r in (obs.get("mbytes") or {}).values())
        if case["kind"] == "bad":
            return all(r.get("verdict") == "error" for r in (obs.get("load") or {}).values())
        if case["kind"] == "nulls":
            return len(set(json.dumps(r.get("val"), sort_keys=True) + r.get("verdict", "") for r in (obs.get("load") or {}).values())) > 1
        if case["kind"] == "shape":
            # the lower-casing did something: the map handed to the unmarshaller is not the document as written
            w = obs.get("white") or {}
            return bool(w.get("lc")) and json.loads(w["lc"]) != json.loads(obs["texts"]["json"])
        return rich and any(r.get("verdict") == "ok" for r in (obs.get("load") or {}).values())

    def features(self, case, obs):
        fs = ["kind=" + case["kind"]]
        if case["kind"] == "load":
            v = sorted(set(r.get("verdict") for r in (obs.get("load") or {}).values()))
            fs.append("load=" + "/".join(v))
            if case.get("doc2"):
                fs.append("recased")
            if case.get("env"):
                fs.append("env")
            if any(f.get("emb") for f in case["type"]):
                fs.append("embedded")
        elif case["kind"] == "std":
            fs.append("std=%s/%s" % ((obs.get("mapping") or {}).get("verdict"), (obs.get("stdjson") or {}).get("verdict")))
        elif case["kind"] == "shape":
            fs.append("shape-loaded" if obs.get("load") else "shape-conf-layer-only")
            if obs.get("load"):
                fs.append("load=" + "/".join(sorted(set(r.get("verdict") for r in obs["load"].values()))))
        if case.get("texts"):
            fs.append("hand-written-text")
        txt = json.dumps(case["doc"])
        if '"fl"' in txt:
            fs.append("float-literal")
        if case.get("flag"):
            fs.append("flag=" + case["flag"])
        return fs

    def describe_failure(self, case, obs):
        if case["kind"] == "std":
            return "mapping.UnmarshalJsonBytes and encoding/json both accepted the input but decoded different values (or one panicked)"
        return ("the same document loaded from JSON / YAML / TOML (or with re-cased keys, or through conf.Load without UseEnv) "
                "gave different verdicts or values")

    def shrink_candidates(self, case):
        res = []
        c0 = copy.deepcopy(case)
        c0.pop("id", None)
        if c0.get("doc2"):
            c = copy.deepcopy(c0)
            c["doc2"] = None
            res.append(c)
        if c0.get("env"):
            c = copy.deepcopy(c0)
            c["env"] = None
            res.append(c)
        # drop one top-level field (and the keys addressing it)
        for i, f in enumerate(c0["type"]):
            if len(c0["type"]) <= 1:
                break
            c = copy.deepcopy(c0)
            del c["type"][i]
            names = set(x["key"].lower() for x in flat_fields([f]))
            for dk in ("doc", "doc2"):
                if c.get(dk) and "m" in c[dk]:
                    c[dk]["m"] = [kv for kv in c[dk]["m"] if kv["k"].lower() not in names]
            res.append(c)
        # drop one document entry / simplify options
        for dk in ("doc",):
            for i in range(len(c0[dk].get("m", []))):
                c = copy.deepcopy(c0)
                k = c[dk]["m"][i]["k"].lower()
                del c[dk]["m"][i]
                if c.get("doc2") and "m" in c["doc2"]:
                    c["doc2"]["m"] = [kv for kv in c["doc2"]["m"] if kv["k"].lower() != k]
                res.append(c)
        for i, f in enumerate(c0["type"]):
            if not f.get("emb") and f.get("o") is not None:
                c = copy.deepcopy(c0)
                c["type"][i]["o"] = None
                res.append(c)
        # shrink nested lists / maps one level down
        for i, kv in enumerate(c0["doc"].get("m", [])):
            v = kv["v"]
            for key in ("l", "m"):
                if key in v and len(v[key]) > 1:
                    for j in range(len(v[key])):
                        c = copy.deepcopy(c0)
                        del c["doc"]["m"][i]["v"][key][j]
                        c["doc2"] = None
                        res.append(c)
        return res[:120]


PROPERTY = C17()
