"""C16 — in-memory collections behave as their sequential reference models.

One Property; every case carries a "kind" selecting the structure:
  window | safemap | queue | ring | set | cache | cache_rt (thorough tier only)
"""
import os
import re

import vlib
from runner import Property, ExecError
from vlib import cz, clist, cbool

T0_BASE = 10 ** 15          # virtual clock base (0 means "unset" elsewhere in go-zero)
TAG = 1 << 32               # Set keys: tag * 2^32 + value
TICK_MS = 1000              # the cache's timing wheel interval (cache.go: time.Second)
SLACK_MS = 400              # scheduling slack allowed around the expiry window

# The shared evaluator shards 400 cases per coqc process; C16 has a few heavy cases
# (SafeMap histories with > 20000 primitive operations) and fewer than 16 * 400 cases,
# so use smaller shards to keep all cores busy.  Only this process is affected.
_coq_eval_cases = vlib.coq_eval_cases


def _eval_small_shards(prop, check_module, terms, preamble="", shard=400, timeout=900):
    if prop == "C16":
        shard = max(1, min(48, (len(terms) + vlib.NCPU - 1) // vlib.NCPU))
    return _coq_eval_cases(prop, check_module, terms, preamble=preamble, shard=shard, timeout=timeout)


vlib.coq_eval_cases = _eval_small_shards


def _obs(o):
    t = o[0]
    if t == "opt":
        return "OOpt None" if o[1] is None else "OOpt (Some %s)" % cz(o[1])
    if t == "num":
        return "ONum %s" % cz(o[1])
    if t == "bool":
        return "OBool %s" % cbool(o[1])
    if t == "list":
        return "OList %s" % clist([cz(x) for x in o[1]])
    if t == "pairs":
        return "OPairs %s" % clist(["(%s, %s)" % (cz(k), cz(v)) for k, v in o[1]])
    if t == "take":
        return "OTake %s %s" % ("None" if o[1] is None else "(Some %s)" % cz(o[1]), cbool(o[2]))
    raise ValueError("unknown observation %r" % (o,))


class C16(Property):
    id = "C16"
    title = "In-memory collections behave as their sequential reference models"
    quick_cases = 700
    thorough_cases = 12000
    design_ref = "DESIGN.md §6/C16"
    level_text = ("Unbounded Rocq theorems over executable models transcribing rollingwindow.go, safemap.go, fifo.go, "
                  "ring.go, set.go and cache.go (keyLru): for every size/limit/threshold and every operation sequence, "
                  "Reduce returns bucket-wise exactly the values added in the last `size` interval indices (minus the "
                  "current one when ignored); SafeMap refines an association map through every generation switch; Queue "
                  "is a FIFO through growth and wrap; Ring shows the last n adds in order; Set is decided by the last "
                  "Add/Remove per key; the Cache returns the latest value unless deleted/expired/evicted, never exceeds its "
                  "limit, evicts the entry with the oldest last use, and Take loads only on a miss. Each model is tied to "
                  "the Go code by step-by-step differential execution through the public API (virtual clock for the window).")
    level_note = ("Trusted: Coq kernel + vm_compute; hand-written models; correspondence on generated histories only; "
                  "core/timex/relativetime.go is replaced by the virtual-clock overlay at build time; the cache's timing wheel "
                  "is C12's subject and enters here as the explicit event Expire k (real-time expiry is sampled in the "
                  "thorough tier with the +-5% / one-tick window treated as 'either'); singleflight concurrency of Take is C07.")
    rule = ("cases by kind: window (size 1..40, interval 1..250ms, 10..70 add/reduce steps with time advances landing on, "
            "one before and one after bucket boundaries and spans of size-1/size/size+1 buckets), safemap (random ops; bulk "
            "runs past maxDeletion with <,>= copyThreshold live keys), queue (size 1..4, growth+wrap), ring (n 1..6, >2n adds), "
            "set (typed keys), cache (limit 0..5, set/get/del/take, trailing probe of all keys). non-trivial = window: a "
            "boundary was crossed and a Reduce returned a non-empty bucket; safemap: a Get hit after a Del or >= maxDeletion "
            "deletions; queue: a Put into a full buffer (growth) with items in flight; ring: a Take after more than n adds; "
            "set: both a positive and a negative Contains; cache: more distinct keys written than the limit, or a Take miss. "
            "distinct = canonical JSON hash of the case")
    trusted_base = [
        "models theories/C16/Model.v and theories/Lib/RollingWindow.v are hand-written; tie = correspondence run (harness/cmd/c16) on generated histories",
        "core/timex/relativetime.go is replaced by harness/overlay/timex/relativetime.go (virtual clock) when the executor is built",
        "Go maps, container/list, sync, the timing wheel (C12) and singleflight (C07) are not modelled here",
    ]
    assumptions = ["keys and values are compared with Go == on int64/int/uint/string (model: Z)",
                   "operations on one object are sequential (every method holds the object's lock for its whole body)",
                   "RollingWindow: timex.Now() is non-decreasing and never before the window's creation time"]

    # ------------------------------------------------------------------ build
    def prepare(self, ctx):
        ok, res = vlib.go_build("c16", overlay={
            "core/timex/relativetime.go": os.path.join(vlib.HARNESS, "overlay", "timex", "relativetime.go")})
        self.bin = res if ok else None
        self._consts()
        return ok, ("" if ok else res)

    def _consts(self):
        """SafeMap thresholds as written in the current source (the theorem holds for all values)."""
        self.copy_thr, self.max_del = 1000, 10000
        try:
            src = open(os.path.join(vlib.REPO, "core/collection/safemap.go")).read()
            m1 = re.search(r"\bcopyThreshold\s*=\s*(\d+)", src)
            m2 = re.search(r"\bmaxDeletion\s*=\s*(\d+)", src)
            if m1 and m2:
                self.copy_thr, self.max_del = int(m1.group(1)), int(m2.group(1))
        except OSError:
            pass
        return self.copy_thr, self.max_del

    # ------------------------------------------------------------------ corpus
    def corpus(self):
        t0 = T0_BASE
        iv = 1000
        cs = []
        # window: spans of exactly size-1 / size / size+1 buckets, boundary +-1
        for size in (1, 3):
            for ig in (False, True):
                for gap in (size - 1, size, size + 1):
                    ops = [["add", t0 + 5, 1], ["add", t0 + iv - 1, 2], ["add", t0 + iv, 3], ["reduce", t0 + iv],
                           ["add", t0 + 2 * iv + 1, 4], ["reduce", t0 + 2 * iv + 1],
                           ["reduce", t0 + 2 * iv + gap * iv - 1], ["reduce", t0 + 2 * iv + gap * iv],
                           ["add", t0 + 2 * iv + gap * iv, 5], ["reduce", t0 + 2 * iv + gap * iv + 1],
                           ["add", t0 + 3 * iv + 2 * gap * iv + iv - 1, 6],
                           ["reduce", t0 + 3 * iv + 2 * gap * iv + iv - 1],
                           ["reduce", t0 + 3 * iv + 2 * gap * iv + iv]]
                    cs.append({"kind": "window", "size": size, "interval": iv, "t0": t0, "ignore": ig, "ops": ops})
        # safemap: past maxDeletion with few live keys (both generations migrate), then with
        # more than copyThreshold live keys (writes switch to dirtyNew, later migration)
        ct, md = self._consts()
        probe = [["size"], ["get", 1], ["get", 5], ["get", 777], ["get", 100000], ["range"]]
        cs.append({"kind": "safemap", "ops":
                   [["setseq", 0, 10, 1], ["churn", 777, 3, md - 1]] + probe + [["churn", 777, 3, 1], ["set", 5, 50]] + probe +
                   [["churn", 778, 4, 2], ["set", 778, 8], ["del", 3]] + probe +
                   [["churn", 779, 4, md + 1], ["set", 6, 60], ["del", 2]] + probe})
        live = ct + 30
        cs.append({"kind": "safemap", "ops":
                   [["setseq", 0, live, 1], ["churn", 50000, 3, md + 1], ["size"], ["set", 5, 55], ["set", 60000, 7], ["get", 5],
                    ["get", 60000], ["size"], ["delseq", 0, 25], ["size"], ["get", 5], ["get", 100], ["set", 100, 9],
                    ["delseq", 25, 10], ["size"], ["get", 100], ["get", 60000], ["get", 500], ["set", 500, 2], ["get", 500],
                    ["size"], ["get", 500], ["get", 60000], ["delseq", 200, ct // 2], ["size"],
                    ["get", 500], ["get", live - 1], ["get", 60000], ["set", 70000, 1], ["del", 70000], ["size"]]})
        # queue: growth while wrapped
        cs.append({"kind": "queue", "size": 2, "ops":
                   [["put", 1], ["put", 2], ["take"], ["put", 3], ["put", 4], ["put", 5], ["take"], ["take"], ["put", 6],
                    ["put", 7], ["put", 8], ["empty"]] + [["take"]] * 6 + [["empty"]]})
        cs.append({"kind": "ring", "size": 3, "ops": [["take"]] + sum([[["add", i], ["take"]] for i in range(1, 11)], [])})
        cs.append({"kind": "cache", "limit": 2, "ops":
                   [["set", 1, 10], ["set", 2, 20], ["get", 1], ["set", 3, 30], ["get", 2], ["get", 1], ["take", 2, 21],
                    ["take", 1, 99], ["take", 4, None], ["del", 1], ["set", 5, 50], ["get", 1], ["get", 2], ["get", 3],
                    ["get", 4], ["get", 5]]})
        # minimised past failures (from the mutation self-test)
        d = os.path.join(vlib.ROOT, "corpus", "C16")
        if os.path.isdir(d):
            import json
            for f in sorted(os.listdir(d)):
                if f.endswith(".json"):
                    c = json.load(open(os.path.join(d, f)))
                    c = c.get("case", c)
                    c.pop("id", None)
                    cs.append(c)
        return cs

    # ------------------------------------------------------------------ generators
    def gen(self, rng, n, tier):
        kinds = ["window"] * 8 + ["safemap"] * 3 + ["queue"] * 3 + ["ring"] * 2 + ["set"] * 2 + ["cache"] * 4
        cases = []
        for _ in range(n):
            k = rng.choice(kinds)
            cases.append(getattr(self, "_gen_" + k)(rng, tier))
        if tier == "thorough":
            for _ in range(24):
                cases.append(self._gen_cache_rt(rng))
        return cases

    def _gen_window(self, rng, tier):
        size = rng.choice([1, 1, 2, 3, 3, 4, 5, 8, 10, 40])
        iv = rng.choice([1, 7, 1000, 1000, 250000000])
        t0 = T0_BASE + rng.randrange(10 ** 9)
        ig = rng.random() < 0.5
        t = t0
        ops = []
        for _ in range(rng.randint(10, 70)):
            nb = t0 + ((t - t0) // iv + 1) * iv        # next bucket boundary
            r = rng.random()
            if r < 0.25:
                t2 = t
            elif r < 0.40:
                t2 = t + rng.randrange(iv)
            elif r < 0.60:
                t2 = nb + rng.choice([-1, 0, 1]) if iv > 1 else nb
            elif r < 0.85:
                gap = rng.choice([size - 2, size - 1, size - 1, size, size, size + 1, 2 * size, rng.randint(0, size + 2)])
                t2 = nb + max(0, gap) * iv + rng.choice([-1, 0, 0, 1, rng.randrange(iv)])
            else:
                t2 = t + rng.randrange(3 * iv + 1)
            t = max(t, t2)
            if rng.random() < 0.6:
                ops.append(["add", t, rng.randrange(1000)])
            else:
                ops.append(["reduce", t])
        return {"kind": "window", "size": size, "interval": iv, "t0": t0, "ignore": ig, "ops": ops}

    def _gen_safemap(self, rng, tier):
        nkeys = rng.randint(2, 12)
        ops = []
        if rng.random() < 0.25:
            # cross the deletion threshold early, with a few keys alive
            ops.append(["setseq", 0, rng.randint(0, nkeys), rng.randrange(100)])
            ops.append(["churn", rng.randrange(nkeys), rng.randrange(100),
                        self.max_del + rng.choice([-2, -1, 0, 1, 2])])
        for _ in range(rng.randint(15, 80)):
            r = rng.random()
            k = rng.randrange(nkeys)
            if r < 0.30:
                ops.append(["set", k, rng.randrange(1000)])
            elif r < 0.55:
                ops.append(["get", k])
            elif r < 0.78:
                ops.append(["del", k])
            elif r < 0.88:
                ops.append(["size"])
            elif r < 0.96:
                ops.append(["range"])
            else:
                ops.append(["churn", k, rng.randrange(100), rng.choice([1, 2, 3, 5])])
        ops += [["size"], ["range"]]
        return {"kind": "safemap", "ops": ops}

    def _gen_queue(self, rng, tier):
        size = rng.choice([1, 1, 2, 3, 4])
        ops = []
        v = 0
        p = rng.choice([0.5, 0.6, 0.7])
        for _ in range(rng.randint(10, 80)):
            if rng.random() < 0.05:
                p = rng.choice([0.2, 0.5, 0.6, 0.8])
            r = rng.random()
            if r < p:
                v += 1
                ops.append(["put", v if rng.random() < 0.9 else rng.randrange(3)])
            elif r < 0.95:
                ops.append(["take"])
            else:
                ops.append(["empty"])
        return {"kind": "queue", "size": size, "ops": ops}

    def _gen_ring(self, rng, tier):
        n = rng.choice([1, 2, 3, 3, 4, 5, 6])
        ops = []
        v = 0
        for _ in range(rng.randint(5, 6 * n + 10)):
            if rng.random() < 0.7:
                v += 1
                ops.append(["add", v if rng.random() < 0.9 else rng.randrange(3)])
            else:
                ops.append(["take"])
        ops.append(["take"])
        return {"kind": "ring", "size": n, "ops": ops}

    def _gen_set(self, rng, tier):
        vals = [rng.randrange(5) for _ in range(rng.randint(1, 4))]
        tags = rng.choice([[0], [1], [3], [0, 1], [0, 1, 2, 3]])
        keys = [t * TAG + v for t in tags for v in vals]
        ops = []
        for _ in range(rng.randint(8, 50)):
            r = rng.random()
            k = rng.choice(keys)
            if r < 0.35:
                ops.append([rng.choice(["add", "addany"]), k])
            elif r < 0.55:
                ops.append(["remove", k])
            elif r < 0.80:
                ops.append(["contains", k])
            elif r < 0.88:
                ops.append(["count"])
            elif r < 0.95:
                ops.append(["keys"])
            else:
                ops.append(["keysof", rng.choice(tags)])
        ops += [["count"], ["keys"]]
        return {"kind": "set", "ignore": len(tags) == 1 and rng.random() < 0.5, "ops": ops}

    def _gen_cache(self, rng, tier):
        limit = rng.choice([0, 1, 2, 2, 3, 3, 5])
        nkeys = max(2, limit + rng.randint(1, 3))
        ops = []
        for _ in range(rng.randint(10, 70)):
            r = rng.random()
            k = rng.randrange(nkeys)
            if r < 0.33:
                ops.append(["set", k, rng.randrange(1000)])
            elif r < 0.63:
                ops.append(["get", k])
            elif r < 0.73:
                ops.append(["del", k])
            else:
                ops.append(["take", k, None if rng.random() < 0.2 else rng.randrange(1000)])
        ks = list(range(nkeys))
        rng.shuffle(ks)
        ops += [["get", k] for k in ks]          # probe: how many entries are held
        return {"kind": "cache", "limit": limit, "ops": ops}

    def _gen_cache_rt(self, rng):
        expire = rng.choice([2000, 3000])
        ops = []
        for _ in range(rng.randint(6, 14)):
            r = rng.random()
            k = rng.randrange(3)
            if r < 0.3:
                ops.append(["set", k, rng.randrange(1000)])
            elif r < 0.6:
                ops.append(["get", k])
            elif r < 0.7:
                ops.append(["take", k, rng.randrange(1000)])
            elif r < 0.75:
                ops.append(["del", k])
            else:
                ops.append(["sleep", rng.choice([300, 700, expire // 2, expire - 1500, expire + 1700, expire + 2500])])
        ops += [["sleep", expire + 2600]] + [["get", k] for k in range(3)]
        ops = [o for o in ops if not (o[0] == "sleep" and o[1] <= 0)]
        return {"kind": "cache_rt", "limit": 0, "expire_ms": expire, "ops": ops}

    # ------------------------------------------------------------------ run
    def execute(self, cases, ctx):
        rc, out, res = vlib.go_run(self.bin, cases, tag="c16", timeout=1500)
        if rc != 0 or len(res) != len(cases):
            raise ExecError("c16 executor rc=%s: %s" % (rc, out[-2000:]))
        obs = []
        for c, r in zip(cases, res):
            if r.get("err"):
                # a panic or an unexpected error of the implementation on an in-scope history is an
                # observable in itself: it never matches the model
                obs.append({"obs": r.get("obs") or [], "err": r["err"], "at": r.get("at")})
            else:
                obs.append({"obs": r["obs"], "at": r.get("at")})
        return obs

    # ------------------------------------------------------------------ rendering
    def coq_case(self, case, obs):
        k = case["kind"]
        seen = obs["obs"]
        if obs.get("err"):
            # make the mismatch visible: one extra observation that no model produces
            seen = list(seen) + [["num", -424242]] if k != "window" else list(seen) + [[[-424242]]]
        if k == "window":
            ops = clist(["WAdd %s %s" % (cz(o[1]), cz(o[2])) if o[0] == "add" else "WReduce %s" % cz(o[1])
                         for o in case["ops"]])
            ob = clist([clist([clist([cz(v) for v in b]) for b in red]) for red in seen])
            return "KWindow %s %s %s %s %s %s" % (cz(case["size"]), cz(case["interval"]), cz(case["t0"]),
                                                   cbool(case.get("ignore", False)), ops, ob)
        so = clist([_obs(o) for o in seen])
        if k == "safemap":
            return "KSafeMap %s %s %s %s" % (cz(self.copy_thr), cz(self.max_del),
                                              clist([self._mop(o) for o in case["ops"]]), so)
        if k == "queue":
            ops = clist(["QPut %s" % cz(o[1]) if o[0] == "put" else ("QTake" if o[0] == "take" else "QEmpty")
                         for o in case["ops"]])
            return "KQueue %s %s %s" % (cz(case["size"]), ops, so)
        if k == "ring":
            ops = clist(["RAdd %s" % cz(o[1]) if o[0] == "add" else "RTake" for o in case["ops"]])
            return "KRing %s %s %s" % (cz(case["size"]), ops, so)
        if k == "set":
            return "KSet %s %s" % (clist([self._sop(o) for o in case["ops"]]), so)
        if k == "cache":
            return "KCache %s %s %s" % (cz(case["limit"]), clist([self._cop(o) for o in case["ops"]]), so)
        if k == "cache_rt":
            return "KCache %s %s %s" % (cz(case["limit"]), clist([self._cop(o) for o in self._rt_ops(case, obs)]), so)
        raise ValueError(k)

    def _mop(self, o):
        t = o[0]
        if t == "set":
            return "MP (MSet %s %s)" % (cz(o[1]), cz(o[2]))
        if t == "get":
            return "MP (MGet %s)" % cz(o[1])
        if t == "del":
            return "MP (MDel %s)" % cz(o[1])
        if t == "size":
            return "MP MSize"
        if t == "range":
            return "MP MRange"
        if t == "setseq":
            return "MSetSeq %s %s %s" % (cz(o[1]), cz(o[2]), cz(o[3]))
        if t == "delseq":
            return "MDelSeq %s %s" % (cz(o[1]), cz(o[2]))
        if t == "churn":
            return "MChurn %s %s %s" % (cz(o[1]), cz(o[2]), cz(o[3]))
        raise ValueError(o)

    def _sop(self, o):
        t = o[0]
        if t in ("add", "addany"):
            return "SAdd %s" % cz(o[1])
        if t == "remove":
            return "SRemove %s" % cz(o[1])
        if t == "contains":
            return "SContains %s" % cz(o[1])
        if t == "count":
            return "SCount"
        if t == "keys":
            return "SKeys"
        if t == "keysof":
            return "SKeysOf %s" % cz(o[1])
        raise ValueError(o)

    def _cop(self, o):
        t = o[0]
        if t == "set":
            return "CSet %s %s" % (cz(o[1]), cz(o[2]))
        if t == "get":
            return "CGet %s" % cz(o[1])
        if t == "del":
            return "CDel %s" % cz(o[1])
        if t == "take":
            return "CTake %s %s" % (cz(o[1]), "None" if o[2] is None else "(Some %s)" % cz(o[2]))
        if t == "expire":
            return "CExpire %s" % cz(o[1])
        raise ValueError(o)

    def _rt_ops(self, case, obs):
        """Real-time cache case -> history with explicit Expire events.  A key written at time s
        with nominal expiry e is removed by the wheel between 0.95e - tick and 1.05e + tick
        (+- scheduling slack).  Before that window it must still be there (no event), after it
        it must be gone (event inserted unconditionally), inside it either is allowed (event
        inserted iff the implementation reported a miss)."""
        at = obs.get("at") or []
        e = case["expire_ms"]
        lo = 0.95 * e - TICK_MS - SLACK_MS
        hi = 1.05 * e + TICK_MS + SLACK_MS
        written = {}
        res = []
        oi = 0
        seen = obs["obs"]
        for i, o in enumerate(case["ops"]):
            now = at[i] if i < len(at) else 0
            if o[0] == "sleep":
                continue
            if o[0] in ("get", "take"):
                ob = seen[oi] if oi < len(seen) else None
                oi += 1
                k = o[1]
                if k in written:
                    age = now - written[k]
                    miss = ob is not None and ((ob[0] == "opt" and ob[1] is None) or (ob[0] == "take" and ob[2]))
                    if age > hi or (age >= lo and miss):
                        res.append(["expire", k])
                        del written[k]
                if o[0] == "take" and ob is not None and ob[0] == "take" and ob[2] and o[2] is not None:
                    written[k] = now
            elif o[0] == "set":
                written[o[1]] = now
            elif o[0] == "del":
                written.pop(o[1], None)
            res.append(o)
        return res

    # ------------------------------------------------------------------ evidence
    def nontrivial(self, case, obs):
        k = case["kind"]
        ops = case["ops"]
        seen = obs["obs"]
        if k == "window":
            iv, t0 = case["interval"], case["t0"]
            crossed = len(set((o[1] - t0) // iv for o in ops)) > 1
            return crossed and any(any(b for b in red) for red in seen)
        if k == "safemap":
            dels = sum(o[3] if o[0] == "churn" else (o[2] if o[0] == "delseq" else (1 if o[0] == "del" else 0)) for o in ops)
            hit = any(o[0] == "opt" and o[1] is not None for o in seen)
            return hit and dels >= 1
        if k == "queue":
            cnt, cap, grown = 0, case["size"], False
            for o in ops:
                if o[0] == "put":
                    if cnt == cap and cnt > 0:
                        grown = True
                        cap += case["size"]
                    cnt += 1
                elif o[0] == "take" and cnt > 0:
                    cnt -= 1
            return grown
        if k == "ring":
            adds = 0
            for o in ops:
                if o[0] == "add":
                    adds += 1
                elif adds > case["size"]:
                    return True
            return False
        if k == "set":
            bs = [o[1] for o in seen if o[0] == "bool"]
            return True in bs and False in bs
        if k in ("cache", "cache_rt"):
            written = set(o[1] for o in ops if o[0] in ("set", "take"))
            miss = any(o[0] == "take" and o[2] for o in seen)
            return miss or (case["limit"] > 0 and len(written) > case["limit"])
        return False

    def features(self, case, obs):
        k = case["kind"]
        fs = ["kind=" + k, "%s:ops<=%d" % (k, 10 * (1 + len(case["ops"]) // 10))]
        if k == "window":
            fs.append("window:size=%d" % case["size"])
            fs.append("window:ignore=%s" % case.get("ignore", False))
            iv, t0 = case["interval"], case["t0"]
            prev = 0
            for o in case["ops"]:
                i = (o[1] - t0) // iv
                d = i - prev
                if d >= 1:
                    fs.append("window:jump=" + ("size-1" if d == case["size"] - 1 else "size" if d == case["size"]
                                                else "size+1" if d == case["size"] + 1 else "other"))
                if (o[1] - t0) % iv == 0:
                    fs.append("window:on_boundary")
                elif (o[1] - t0) % iv == iv - 1:
                    fs.append("window:before_boundary")
                prev = i
            fs = sorted(set(fs))
        elif k == "safemap":
            dels = sum(o[3] if o[0] == "churn" else (o[2] if o[0] == "delseq" else (1 if o[0] == "del" else 0))
                       for o in case["ops"])
            fs.append("safemap:deletions>=maxDeletion" if dels >= self.max_del else "safemap:deletions<maxDeletion")
        elif k in ("queue", "ring"):
            fs.append("%s:size=%d" % (k, case["size"]))
        elif k in ("cache", "cache_rt"):
            fs.append("cache:limit=%d" % case["limit"])
        if obs.get("err"):
            fs.append("executor_error")
        return fs

    @staticmethod
    def _bulk(o):
        """(index of the count, count) of a bulk SafeMap op, else None."""
        if o[0] == "churn":
            return 3, o[3]
        if o[0] in ("setseq", "delseq"):
            return 2, o[2]
        return None

    def _weight(self, case):
        return sum((self._bulk(o) or (0, 1))[1] for o in case["ops"])

    def shrink_candidates(self, case):
        ops = case["ops"]
        res = []
        # shorten bulk runs first (halve, and to just below / at the threshold)
        for i, o in enumerate(ops):
            b = self._bulk(o)
            if b and b[1] > 1:
                j, n = b
                for n2 in sorted(set([n // 2, n - 1, self.max_del if n > self.max_del else n // 2])):
                    if 0 < n2 < n:
                        o2 = list(o)
                        o2[j] = n2
                        c = dict(case)
                        c["ops"] = ops[:i] + [o2] + ops[i + 1:]
                        res.append(c)
        res += Property.shrink_candidates(self, case)
        # heavy histories cost seconds each in Coq: try only a few candidates per round
        if self._weight(case) > 4000:
            return res[:vlib.NCPU]
        return res[:200]

    def describe_failure(self, case, obs):
        k = case["kind"]
        what = {
            "window": "RollingWindow.Reduce did not return exactly the values added in the last `size` intervals",
            "safemap": "SafeMap answered differently from a plain map",
            "queue": "Queue did not behave as a FIFO",
            "ring": "Ring.Take did not return the last n elements in order",
            "set": "Set answered differently from the mathematical set decided by the last Add/Remove of each key",
            "cache": "Cache returned a stale/lost value, exceeded its limit, evicted a key other than the least recently used, or called the loader on a hit",
            "cache_rt": "Cache entry outlived its expiry window, expired early, or was lost",
        }.get(k, "property check failed")
        if obs.get("err"):
            what += " (implementation error: %s)" % obs["err"]
        return what


PROPERTY = C16()
